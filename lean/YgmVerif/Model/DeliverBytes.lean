import YgmVerif.Model.Wire
import YgmVerif.Model.Deliver
/-
Message movement WITH BYTES (properties C01 + C06 together).

`YgmVerif.Deliver` moves message *identities* between locations; `YgmVerif.Wire` says how one buffer
is laid out and parsed.  This model refines `Deliver`: every location that holds messages in the
code — the send buffer `m_vec_send_buffers[hop]` of rank `r` (`Loc.inBuf r hop`), a physical MPI
message in flight (`Loc.inWire src dst seq`), the unread rest of the buffer `handle_next_receive`
is walking on rank `r` (`Loc.inWalk r`) — holds a concrete byte string `List UInt8`, built exactly
as comm.ipp builds it:

* `async`      appends to the buffer of the next hop with `Wire.asyncAppend` (header with size 0,
               packed lambda, back-patch of the size) resp. `Wire.queueAppend` for a broadcast leg;
* `isend`      hands the whole byte string of the buffer to MPI and clears the buffer;
* `recvBegin`  starts a walk over the received byte string;
* `exec`/`fwd` one iteration of the receive loop: `Wire.parseStep` takes the next message off the
               front of the unread bytes.  WHAT happens is decided by the bytes alone: an
               `Item.exec` hands the handler the functor bytes and the arguments that `Wire.des`
               read from the stream; an `Item.fwd size dest payload` re-appends the RAW bytes with
               `Wire.forwardCopy` to the buffer of `nh me dest`, `dest` being the header field read
               from the bytes;
* `recvEnd`    the loop ends when the archive is empty.

Besides the bytes the state carries GHOST data, never read by the byte-level actions:
`d : Deliver.St` (the identity/location table of `Deliver`, advanced by `Deliver.step` itself — it
is the abstraction of the state), `tags` (for every location the uids/messages whose encodings the
byte string is supposed to consist of, in buffer order), `issued` (what every `async` call passed).
A label carries the uid the history claims the step is about; the step is accepted only if that
uid is the ghost tag at the front of the walk.

Executable, core Lean only.
-/
namespace YgmVerif.DeliverBytes
open YgmVerif
open YgmVerif.Deliver (Loc)

abbrev Bytes := Wire.Bytes

/-- ghost: one message inside a byte string — the uid `Deliver` knows it by and what was passed to
`async` (destination, broadcast-leg flag, lambda id, functor bytes, argument values) -/
structure Tag where
  uid : Nat
  msg : Wire.Msg

/-- one handler execution: what the dispatch function was handed, read from the bytes -/
structure Handled where
  rank : Nat
  uid : Nat
  lid : Nat
  fn : Bytes
  args : List Wire.Val

structure St where
  /-- ghost: `Deliver`'s state (identities, locations, executed list, send counters, walking flags) -/
  d : Deliver.St
  /-- the byte string at every location (`Loc.done _` holds nothing) -/
  bytes : Loc → Bytes
  /-- ghost: whose encodings the byte string at a location consists of, in order -/
  tags : Loc → List Tag
  /-- ghost: every `async` call so far, in issue order -/
  issued : List Tag
  /-- handler executions so far, in order -/
  handled : List Handled

/-- the abstraction function: forget the bytes, keep uids and locations -/
def St.abs (s : St) : Deliver.St := s.d

/-- readable names for the three kinds of byte strings -/
def St.sendBuf (s : St) (r hop : Nat) : Bytes := s.bytes (.inBuf r hop)
def St.inFlight (s : St) (src dst seq : Nat) : Bytes := s.bytes (.inWire src dst seq)
def St.walkRest (s : St) (r : Nat) : Bytes := s.bytes (.inWalk r)

def St.init : St :=
  { d := Deliver.St.init, bytes := fun _ => [], tags := fun _ => [], issued := [], handled := [] }

inductive Label where
  /-- rank `r` calls `async(m.dest, fn, args..)` (or queues a broadcast leg when `m.bcast`); `uid` names the call -/
  | async (r uid : Nat) (m : Wire.Msg)
  | isend (r hop : Nat)
  | recvBegin (r src seq : Nat)
  | exec (r uid : Nat)
  | fwd (r uid : Nat)
  | recvEnd (r : Nat)

def Label.abs : Label → Deliver.Label
  | .async r uid m => .async r uid m.dest m.bcast
  | .isend r hop => .isend r hop
  | .recvBegin r src seq => .recvBegin r src seq
  | .exec r uid => .exec r uid
  | .fwd r uid => .fwd r uid
  | .recvEnd r => .recvEnd r

def updL {α} (f : Loc → α) (l : Loc) (v : α) : Loc → α := fun x => if x = l then v else f x

/-- move the whole content of `src` to `dst`, leaving `src` empty -/
def moveL {α} (f : Loc → α) (src dst : Loc) (empty : α) : Loc → α := updL (updL f dst (f src)) src empty

/-- with `YGM_COMM_ROUTING = NONE` there is no routing header and the next hop is the destination -/
def nhEff (routed : Bool) (nh : Nat → Nat → Nat) : Nat → Nat → Nat :=
  fun r d => if routed then nh r d else d

/-- what `comm::async` resp. `comm::queue_message_bytes` do to the bytes of a send buffer -/
def appendMsg (routed : Bool) (buf : Bytes) (m : Wire.Msg) : Bytes :=
  if m.bcast then Wire.queueAppend routed buf m else Wire.asyncAppend routed buf m

/-- one step; `none` = the label is not enabled.  `routed` = `YGM_COMM_ROUTING ≠ NONE`, `tbl` = the
registered handlers (functor size and argument types per lambda id). -/
def step (n : Nat) (nh : Nat → Nat → Nat) (routed : Bool) (tbl : Wire.Table) (s : St) : Label → Option St
  | .async r uid m =>
    match Deliver.step n (nhEff routed nh) s.d (.async r uid m.dest m.bcast) with
    | none => none
    | some d' =>
      let l := Loc.inBuf r (if m.bcast then m.dest else nhEff routed nh r m.dest)
      some { s with d := d',
                    bytes := updL s.bytes l (appendMsg routed (s.bytes l) m),
                    tags := updL s.tags l (s.tags l ++ [⟨uid, m⟩]),
                    issued := s.issued ++ [⟨uid, m⟩] }
  | .isend r hop =>
    match Deliver.step n (nhEff routed nh) s.d (.isend r hop) with
    | none => none
    | some d' =>
      let src := Loc.inBuf r hop
      let dst := Loc.inWire r hop (s.d.sendSeq r)
      some { s with d := d', bytes := moveL s.bytes src dst [], tags := moveL s.tags src dst [] }
  | .recvBegin r a k =>
    match Deliver.step n (nhEff routed nh) s.d (.recvBegin r a k) with
    | none => none
    | some d' =>
      let src := Loc.inWire a r k
      let dst := Loc.inWalk r
      some { s with d := d', bytes := moveL s.bytes src dst [], tags := moveL s.tags src dst [] }
  | .exec r uid =>
    match Deliver.step n (nhEff routed nh) s.d (.exec r uid), s.tags (.inWalk r),
          Wire.parseStep routed tbl (r : Int) (s.bytes (.inWalk r)) with
    | some d', t :: ts, some (.exec _ _ lid fn args, rest) =>
      if t.uid = uid then
        some { s with d := d',
                      bytes := updL s.bytes (.inWalk r) rest,
                      tags := updL s.tags (.inWalk r) ts,
                      handled := s.handled ++ [⟨r, uid, lid, fn, args⟩] }
      else none
    | _, _, _ => none
  | .fwd r uid =>
    match Deliver.step n (nhEff routed nh) s.d (.fwd r uid), s.tags (.inWalk r),
          Wire.parseStep routed tbl (r : Int) (s.bytes (.inWalk r)) with
    | some d', t :: ts, some (.fwd size dest payload, rest) =>
      if t.uid = uid then
        let hopL := Loc.inBuf r (nhEff routed nh r dest.toNat)
        some { s with d := d',
                      bytes := updL (updL s.bytes (.inWalk r) rest) hopL
                                 (Wire.forwardCopy (s.bytes hopL) size dest payload),
                      tags := updL (updL s.tags (.inWalk r) ts) hopL (s.tags hopL ++ [t]) }
      else none
    | _, _, _ => none
  | .recvEnd r =>
    match Deliver.step n (nhEff routed nh) s.d (.recvEnd r) with
    | none => none
    | some d' =>
      if s.bytes (.inWalk r) = [] then some { s with d := d' } else none

def run (n : Nat) (nh : Nat → Nat → Nat) (routed : Bool) (tbl : Wire.Table) (s : St) : List Label → Option St
  | [] => some s
  | l :: ls => match step n nh routed tbl s l with
    | none => none
    | some s' => run n nh routed tbl s' ls

/-- the `async` calls of a history, in order -/
def newTags : Label → List Tag
  | .async _ uid m => [⟨uid, m⟩]
  | _ => []

end YgmVerif.DeliverBytes
