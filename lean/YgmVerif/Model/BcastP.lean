import YgmVerif.Model.Bcast
/-
Placement-generic model of the fan-out of `comm::async_bcast` = `comm::pack_lambda_broadcast` (comm.ipp).

`YgmVerif.Bcast` fixes the BLOCK placement of ranks on nodes (rank r on node r / p with on-node index r % p).  The code
itself never computes with ranks: every rank it sends to is LOOKED UP in the tables of `ygm::detail::layout`
(layout.hpp), which are gathered from MPI at construction:

  m_rank_to_node[r]   = node_id(r)     `MPI_Comm_split(comm, local_id, rank)`: index of r among the ranks with its local id
  m_rank_to_local[r]  = local_id(r)    `MPI_Comm_split_type(SHARED)` keyed by rank: index of r among the ranks of its node
  m_local_ranks[j]    = the rank with local id j on MY node        (allgather over the node communicator)
  m_strided_ranks[k]  = the rank with MY local id on node k        (allgather over the communicator of my local id)

A `Placement` is these tables: `nodeId`, `localId` and the table `nl node local ↦ rank` whose row `nl (nodeId me) ·` is
`local_ranks()` on rank `me` and whose column `nl · (localId me)` is `strided_ranks()` on `me`.  `Valid N p P` says the
tables describe N nodes with p ranks each: `r ↦ (nodeId r, localId r)` is a bijection between `[0, N*p)` and
`[0,N) × [0,p)` with inverse `nl`.  (`Placement.ofIds` builds `nl` from `nodeId` / `localId` by search;
`Lemmas/BcastP.lean: valid_ofIds` shows injectivity + surjectivity of the pair suffice.)

The three stages are computed through these lookups exactly as the code does (after the repair of the
cyclic-placement defect the partner of layer l is `strided_ranks()[node_partner_offset + l * local_size]`);
`remotePartnersOld` is the loop before the repair (`curr_partner += local_size * local_size`).
`block p` and `cyclic N` (rank r on node r % N with local id r / N: round-robin placement, simmpi's
SIMMPI_PLACEMENT=cyclic) are the two instances the harness can run.  Executable, core Lean only.
-/
namespace YgmVerif.BcastP
open YgmVerif.Bcast (Leg numLayers offsetOf)

structure Placement where
  /-- `layout::node_id(rank)` -/
  nodeId : Nat → Nat
  /-- `layout::local_id(rank)` -/
  localId : Nat → Nat
  /-- the rank with local id `j` on node `a` -/
  nl : Nat → Nat → Nat

/-- the tables describe `N` nodes with `p` ranks each -/
structure Valid (N p : Nat) (P : Placement) : Prop where
  node_lt : ∀ r, r < N * p → P.nodeId r < N
  local_lt : ∀ r, r < N * p → P.localId r < p
  nl_ids : ∀ r, r < N * p → P.nl (P.nodeId r) (P.localId r) = r
  nl_lt : ∀ a j, a < N → j < p → P.nl a j < N * p
  node_nl : ∀ a j, a < N → j < p → P.nodeId (P.nl a j) = a
  local_nl : ∀ a j, a < N → j < p → P.localId (P.nl a j) = j

/-- a placement given by `node_id` / `local_id` of the `n` ranks alone: the table is found by search -/
def Placement.ofIds (n : Nat) (nodeId localId : Nat → Nat) : Placement :=
  { nodeId := nodeId, localId := localId,
    nl := fun a j => ((List.range n).find? (fun r => nodeId r == a && localId r == j)).getD n }

/-- block placement: rank r on node r / p with local id r % p (`YgmVerif.Router`) -/
def block (p : Nat) : Placement := { nodeId := Router.node p, localId := Router.loc p, nl := Router.mk p }

/-- round-robin placement: rank r on node r % N with local id r / N -/
def cyclic (N : Nat) : Placement := { nodeId := fun r => r % N, localId := fun r => r / N, nl := fun a j => j * N + a }

/-! ### the cached tables of `layout` on rank `me` -/

/-- `local_ranks()` -/
def localRanks (P : Placement) (p me : Nat) : List Nat := (List.range p).map (fun j => P.nl (P.nodeId me) j)
/-- `strided_ranks()[k]` -/
def strided (P : Placement) (me k : Nat) : Nat := P.nl k (P.localId me)
/-- `strided_ranks()` -/
def stridedRanks (P : Placement) (N me : Nat) : List Nat := (List.range N).map (strided P me)
/-- `is_local(rank)` evaluated on rank `me` -/
def isLocal (P : Placement) (me r : Nat) : Bool := P.nodeId me == P.nodeId r

/-! ### the three stages -/

/-- `node_partner_offset` on rank `r` -/
def partnerOffset (p : Nat) (P : Placement) (r : Nat) : Nat := offsetOf p (P.localId r) (P.nodeId r)

/-- the values `partner_node` takes at the top of the loop body, for `l = 0 … num_layers-1` -/
def layerCandidates (N p : Nat) (P : Placement) (r : Nat) : List Nat :=
  (List.range (numLayers N p)).map (fun l => partnerOffset p P r + l * p)

/-- stage-2 destinations of rank `r`: `takeWhile` is the `break`, `map` the lookup `strided_ranks()[partner_node]`,
`filter` the `is_local` test -/
def remotePartners (N p : Nat) (P : Placement) (r : Nat) : List Nat :=
  (((layerCandidates N p P r).takeWhile (fun b => decide (b < N))).map (strided P r)).filter
    (fun c => !isLocal P r c)

/-- stage-3 destinations of rank `q`: `for dest in local_ranks() if dest != rank()` -/
def localOthers (P : Placement) (p q : Nat) : List Nat := (localRanks P p q).filter (fun d => d != q)

def stage1 (P : Placement) (p o : Nat) : List Leg := (localRanks P p o).map (fun d => (o, d, 1))

def stage2 (N p : Nat) (P : Placement) (o : Nat) : List Leg :=
  (stage1 P p o).flatMap (fun g => (remotePartners N p P g.dst).map (fun q => (g.dst, q, 2)))

def stage3 (N p : Nat) (P : Placement) (o : Nat) : List Leg :=
  (stage2 N p P o).flatMap (fun g => (localOthers P p g.dst).map (fun t => (g.dst, t, 3)))

/-- every `queue_message_bytes` call of one `async_bcast` issued on rank `o` -/
def bcastLegs (N p : Nat) (P : Placement) (o : Nat) : List Leg := stage1 P p o ++ stage2 N p P o ++ stage3 N p P o

/-- the ranks that execute the user lambda, with multiplicity (one per leg received) -/
def bcastExec (N p : Nat) (P : Placement) (o : Nat) : List Nat := (bcastLegs N p P o).map Leg.dst

/-! ### the loop before the repair -/

/-- stage-2 destinations as computed before the repair: start at `strided_ranks()[node_partner_offset]` (if that node
exists), advance by RANK ARITHMETIC `curr_partner += local_size * local_size`, stop at `curr_partner >= size` -/
def remotePartnersOld (N p : Nat) (P : Placement) (r : Nat) : List Nat :=
  if partnerOffset p P r < N then
    (((List.range (numLayers N p)).map (fun l => strided P r (partnerOffset p P r) + l * (p * p))).takeWhile
      (fun c => decide (c < N * p))).filter (fun c => !isLocal P r c)
  else []

def stage2Old (N p : Nat) (P : Placement) (o : Nat) : List Leg :=
  (stage1 P p o).flatMap (fun g => (remotePartnersOld N p P g.dst).map (fun q => (g.dst, q, 2)))

def stage3Old (N p : Nat) (P : Placement) (o : Nat) : List Leg :=
  (stage2Old N p P o).flatMap (fun g => (localOthers P p g.dst).map (fun t => (g.dst, t, 3)))

def bcastLegsOld (N p : Nat) (P : Placement) (o : Nat) : List Leg :=
  stage1 P p o ++ stage2Old N p P o ++ stage3Old N p P o

def bcastExecOld (N p : Nat) (P : Placement) (o : Nat) : List Nat := (bcastLegsOld N p P o).map Leg.dst

end YgmVerif.BcastP
