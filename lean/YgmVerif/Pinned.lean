import YgmVerif.Model.Part
import YgmVerif.Model.Atomic
import YgmVerif.Model.Barrier
/-!
# Pinned variants: machine-checked witnesses that the defective kernels of the pinned tree (and one
realistic mutation) violate the properties the repaired models satisfy.  All by `decide` on concrete
histories — these are witnesses, not general theorems.
-/
namespace YgmVerif.Pinned

/-! ## D3 (C10): array.ipp computed the large block size from `size / ranks` -/
open YgmVerif.Part in
def large (len ranks : Nat) : Nat := small len ranks + (if len / ranks > 0 then 1 else 0)

open YgmVerif.Part in
def owner (len ranks i : Nat) : Option Nat :=
  if i < rem len ranks * large len ranks then cdiv i (large len ranks)
  else (cdiv (i - rem len ranks * large len ranks) (small len ranks)).map (rem len ranks + ·)

/-- 3 elements on 4 ranks: `owner(1)` divides by zero in the pinned code … -/
example : owner 3 4 1 = none := by decide
/-- … and is rank 1 in the repaired code -/
example : YgmVerif.Part.owner 3 4 1 = some 1 := by decide

/-! ## D2 (C08): barrier_reduce_counts called handle_next_receive without setting the re-entrancy flag -/
open YgmVerif.Atomic in
def atomicStep (s : St) : Label → Option St
  | .bwalkBegin => if s.stack = [] ∧ s.G = false ∧ s.M = false then some { s with stack := [.bwalk] } else none
  | .bwalkEnd => match s.stack with
    | .bwalk :: rest => some { s with stack := rest }
    | _ => none
  | l => step s l

open YgmVerif.Atomic in
def atomicRun (s : St) : List Label → Option St
  | [] => some s
  | l :: ls => match atomicStep s l with
    | none => none
    | some s' => atomicRun s' ls

/-- the pinned rules accept a history with a handler nested inside a handler (a handler delivered by the
barrier's wait loop polls, e.g. through local_progress) … -/
example : ((atomicRun YgmVerif.Atomic.St.init
    [.bwalkBegin, .handlerBegin, .pollBegin, .walkBegin, .handlerBegin]).map YgmVerif.Atomic.depth) = some 2 := by
  decide
/-- … which the repaired rules reject -/
example : (YgmVerif.Atomic.run YgmVerif.Atomic.St.init
    [.bwalkBegin, .handlerBegin, .pollBegin, .walkBegin, .handlerBegin]).isNone = true := by decide

/-! ## the realistic mutation "drop `previous_counts == current_counts`" (C02): one balanced round suffices -/
open YgmVerif.Barrier in
def barrierStep1 (n : Nat) (s : Sys) : Label → Option Sys
  | .exit r =>
    if r < n ∧ s.inBar r = true ∧ s.rounds r = s.got r ∧ 0 < s.got r ∧ (s.cur r).1 = (s.cur r).2 then
      some { s with inBar := upd s.inBar r false, exited := upd s.exited r true }
    else none
  | l => step n s l

open YgmVerif.Barrier in
def barrierRun1 (n : Nat) (s : Sys) : List Label → Option Sys
  | [] => some s
  | l :: ls => match barrierStep1 n s l with
    | none => none
    | some s' => barrierRun1 n s' ls

/-- three ranks A=0, B=1, C=2: C sends m1 to A and contributes (0,1); A contributes (0,0) before m1 arrives, then m1's
handler sends m2 to B and m4 to C; slow B executes m2 and contributes (1,0): round 0 sums to (1,1) while m4 is still
in flight, and the one-round rule lets C leave with an undelivered message (the schedule the C02 check searches for) -/
example : ((barrierRun1 3 (YgmVerif.Barrier.mkInit (fun _ => 0) (fun _ => 0) (fun _ => false) (fun _ => 0) 0)
    [.issue 2, .enter 2, .contribute 2, .enter 0, .contribute 0, .start 0, .issue 0, .issue 0, .finish 0,
     .start 1, .finish 1, .enter 1, .contribute 1, .result 2, .exit 2]).map (fun s => (s.exited 2, s.und))) =
    some (true, 1) := by decide
/-- the two-round rule of the code rejects that exit -/
example : (YgmVerif.Barrier.run 3 (YgmVerif.Barrier.mkInit (fun _ => 0) (fun _ => 0) (fun _ => false) (fun _ => 0) 0)
    [.issue 2, .enter 2, .contribute 2, .enter 0, .contribute 0, .start 0, .issue 0, .issue 0, .finish 0,
     .start 1, .finish 1, .enter 1, .contribute 1, .result 2, .exit 2]).isNone = true := by decide

end YgmVerif.Pinned
