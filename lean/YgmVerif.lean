import YgmVerif.Model.Part
import YgmVerif.Lemmas.Part
import YgmVerif.Props.C10
