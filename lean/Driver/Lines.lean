import YgmVerif.Model.Lines
import Driver.Util
/-! mode `lines` (stateful): the line_parser model.
  `reset`                     -> `ok`                       forget all files
  `file <nl 0|1> <len>*`      -> `size <bytes> lines <n> wf <0|1>`   append a file (line lengths, newline excluded)
  `carve <nranks> <G>`        -> ranks separated by `|`, per rank `f,b,e` tokens      (Lines.carve of the file sizes)
  `deliver <nranks> <G>`      -> ranks separated by `|`, per rank run tokens `f:i-j`  (Lines.delivered)
  `read <file> <b> <e>`       -> run tokens `i-j`                                     (Lines.readRange)
  `all`                       -> run tokens `f:i-j`                                   (Lines.allLines)
  `csvkeep <nfields>*`        -> positions of the lines for which csv_parser calls back (Lines.csvWrap)
Runs of consecutive line indices are printed as `first-last` (presentation only).
-/
namespace Driver.Lines
open YgmVerif.Lines Driver

/-- compress `(f,i),(f,i+1),…` into `(f,i,j)` runs; tail recursive -/
def runs (xs : List (Nat × Nat)) : List (Nat × Nat × Nat) :=
  let rec go (xs : List (Nat × Nat)) (cur : Option (Nat × Nat × Nat)) (acc : Array (Nat × Nat × Nat)) :
      Array (Nat × Nat × Nat) :=
    match xs, cur with
    | [], none => acc
    | [], some c => acc.push c
    | (f, i) :: t, none => go t (some (f, i, i)) acc
    | (f, i) :: t, some (g, a, b) =>
      if f = g ∧ i = b + 1 then go t (some (g, a, i)) acc else go t (some (f, i, i)) (acc.push (g, a, b))
  (go xs none #[]).toList

def showRuns (xs : List (Nat × Nat)) : String :=
  " ".intercalate ((runs xs).map (fun (f, a, b) => s!"{f}:{a}-{b}"))

def showRanges (rs : List Range) : String :=
  " ".intercalate (rs.map (fun r => s!"{r.file},{r.b},{r.e}"))

def handle (files : List File) (line : String) : List File × String :=
  match words line with
  | ["reset"] => ([], "ok")
  | "file" :: rest =>
    match nats? rest with
    | some (nl :: lens) =>
      let f : File := ⟨lens, nl != 0⟩
      (files ++ [f], s!"size {f.size} lines {f.lens.length} wf {if decide f.WF then 1 else 0}")
    | _ => (files, "bad-op")
  | "carve" :: rest =>
    match nats? rest with
    | some [n, g] => (files, " | ".intercalate ((carve (files.map File.size) n g).map showRanges))
    | _ => (files, "bad-op")
  | "deliver" :: rest =>
    match nats? rest with
    | some [n, g] => (files, " | ".intercalate ((delivered files n g).map showRuns))
    | _ => (files, "bad-op")
  | "read" :: rest =>
    match nats? rest with
    | some [f, b, e] =>
      match files[f]? with
      | some fl => (files, " ".intercalate ((runs ((readRange fl b e).map (fun i => (f, i)))).map
          (fun (_, a, b) => s!"{a}-{b}")))
      | none => (files, "no-such-file")
    | _ => (files, "bad-op")
  | ["all"] => (files, showRuns (allLines files))
  | "csvkeep" :: rest =>
    match nats? rest with
    | some counts =>
      -- line = (field count, position); its "field vector" = `count` copies of the position
      let kept := (csvWrap (fun (p : Nat × Nat) => List.replicate p.1 p.2) counts.zipIdx).map (·.headD 0)
      (files, joinNats kept)
    | _ => (files, "bad-op")
  | _ => (files, "bad-op")

end Driver.Lines
