import YgmVerif.Model.Out
import YgmVerif.Model.Ser
import Driver.Util
/-! modes `out` (C19) and `ser` (C20).  Byte strings travel as lower-case hex, the empty
string as `-`.

mode `out`
  `buf <L> <line>*`                        -> `chunks <chunk>*`        (`Out.bufferedAppend`)
  `file <0|1 append> <old|none> <L> <line>*` -> `<bytes>` | `none`     (`Out.fileAfter`)
  `split <bytes>`                          -> `lines <line>* | <rest>` (`Out.splitNl`)
  `owner <hash> <n>`                       -> rank | `trap`            (`Out.owner`)
  `pack <tok>*`                            -> line (`Out.pack`; tok = s:<hex> n:<nat> b:<0|1> m:<manipulator>)
  `date <ts>`                              -> `<y> <m> <d> <path as text>` (`Out.civilFromDays`, `Out.datePath`)

mode `ser`
  `fname <prefix> <rank>`                  -> file name (`Ser.rankFileName`)
  `esc <bytes>`                            -> token                    (`Ser.escape`)
  `unesc <token>`                          -> bytes | `err`            (`Ser.unescape`)
  `load <token>`                           -> bytes | `err`            (`Ser.cLoad`)
  `rebuild <tree|seq> <key[:value]>*`      -> `<key[:value]>*`         (`Ser.rebuild`, keys ordered by `Ser.bytesLt`)
  `rt <tree|seq> <n> <extra> <key[:value]>*` -> `<n> <extra> <key[:value]>*`
       (`Ser.deserializeRank (Ser.serializeRank n c) old` with a non-empty `old`)
  `rtfs <tree|seq> <n> <rank> <extra> <key[:value]>*` -> same, through `Ser.writeAll` / `Ser.readAll` on a prefix
       whose every index holds a stale image; `nofile` if the rank finds no file
-/
namespace Driver.OutSer
open Driver

def hexNib (c : Char) : Option Nat :=
  if '0' ≤ c ∧ c ≤ '9' then some (c.toNat - 48)
  else if 'a' ≤ c ∧ c ≤ 'f' then some (c.toNat - 87)
  else if 'A' ≤ c ∧ c ≤ 'F' then some (c.toNat - 55)
  else none

def unhexAux : List Char → List UInt8 → Option (List UInt8)
  | [], acc => some acc.reverse
  | [_], _ => none
  | a :: b :: rest, acc =>
    match hexNib a, hexNib b with
    | some x, some y => unhexAux rest (UInt8.ofNat (x * 16 + y) :: acc)
    | _, _ => none

def unhex (s : String) : Option (List UInt8) :=
  if s = "-" then some [] else unhexAux s.toList []

def nibChar (n : Nat) : Char := if n < 10 then Char.ofNat (48 + n) else Char.ofNat (87 + n)

def hex (bs : List UInt8) : String :=
  if bs.isEmpty then "-"
  else String.ofList (bs.foldr (fun b acc => nibChar (b.toNat / 16) :: nibChar (b.toNat % 16) :: acc) [])

def hexs (l : List (List UInt8)) : String := " ".intercalate (l.map hex)

def asText (bs : List UInt8) : String := String.ofList (bs.map (fun b => Char.ofNat b.toNat))

open YgmVerif in
def handleOut (line : String) : String :=
  match words line with
  | "buf" :: l :: rest =>
    match l.toNat?, rest.mapM unhex with
    | some L, some lines => ("chunks " ++ hexs (Out.bufferedAppend L lines)).trimAscii.toString
    | _, _ => "bad-op"
  | "file" :: a :: old :: l :: rest =>
    let old? : Option (Option (List UInt8)) := if old = "none" then some none else (unhex old).map some
    match a.toNat?, old?, l.toNat?, rest.mapM unhex with
    | some a, some old, some L, some lines =>
      match Out.fileAfter (a != 0) old L lines with
      | none => "none"
      | some bs => hex bs
    | _, _, _, _ => "bad-op"
  | ["split", b] =>
    match unhex b with
    | some bs =>
      let (ls, rest) := Out.splitNl bs
      s!"lines {hexs ls} | {hex rest}"
    | none => "bad-op"
  | ["owner", h, n] =>
    match h.toNat?, n.toNat? with
    | some h, some n => if n = 0 then "trap" else toString (Out.owner (fun (x : Nat) => x) n h)
    | _, _ => "bad-op"
  | "pack" :: rest =>
    -- tokens: s:<hex> n:<nat> b:<0|1> m:<hex|dec|oct|boolalpha|noboolalpha>
    let tok (w : String) : Option Out.Tok :=
      match w.splitOn ":" with
      | ["s", h] => (unhex h).map Out.Tok.str
      | ["n", v] => v.toNat?.map Out.Tok.nat
      | ["b", v] => some (Out.Tok.bool (v != "0"))
      | ["m", "hex"] => some .hex | ["m", "dec"] => some .dec | ["m", "oct"] => some .oct
      | ["m", "boolalpha"] => some .boolalpha | ["m", "noboolalpha"] => some .noboolalpha
      | _ => none
    match rest.mapM tok with
    | some ts => hex (Out.pack ts)
    | none => "bad-op"
  | ["date", t] =>
    match t.toNat? with
    | some ts =>
      let c := Out.civilFromDays (ts / 86400)
      s!"{c.1} {c.2.1} {c.2.2} {asText (Out.datePath ts)}"
    | none => "bad-op"
  | _ => "bad-op"

/-- element of a local store on the wire: key bytes and an opaque value text -/
abbrev Elem := List UInt8 × String

def parseElem (w : String) : Option Elem :=
  match w.splitOn ":" with
  | [k] => (unhex k).map (fun b => (b, ""))
  | [k, v] => (unhex k).map (fun b => (b, v))
  | _ => none

def showElem (e : Elem) : String := if e.2 = "" then hex e.1 else s!"{hex e.1}:{e.2}"

def parseDisc (w : String) : Option YgmVerif.Ser.Disc :=
  if w = "tree" then some .tree else if w = "seq" then some .seq else none

open YgmVerif in
def handleSer (line : String) : String :=
  match words line with
  | ["fname", pre, r] =>
    match unhex pre, r.toNat? with
    | some p, some r => hex (Ser.rankFileName p r)
    | _, _ => "bad-op"
  | ["esc", b] =>
    match unhex b with
    | some bs => hex (Ser.escape bs)
    | none => "bad-op"
  | ["unesc", t] =>
    match unhex t with
    | some tok => match Ser.unescape tok with | some bs => hex bs | none => "err"
    | none => "bad-op"
  | ["load", t] =>
    match unhex t with
    | some tok => match Ser.cLoad tok with | some bs => hex bs | none => "err"
    | none => "bad-op"
  | "rebuild" :: d :: rest =>
    match parseDisc d, rest.mapM parseElem with
    | some d, some xs =>
      (" ".intercalate ((Ser.rebuild d (fun (e : Elem) => e.1) Ser.bytesLt xs).map showElem))
    | _, _ => "bad-op"
  | "rt" :: d :: n :: extra :: rest =>
    match parseDisc d, n.toNat?, rest.mapM parseElem with
    | some d, some n, some xs =>
      let c : Ser.Local Elem String := ⟨xs, extra⟩
      let old : Ser.Local Elem String := ⟨[([111, 108, 100], "old")], "old"⟩
      let img := Ser.serializeRank n c
      let r := Ser.deserializeRank d (fun (e : Elem) => e.1) Ser.bytesLt img old
      (s!"{img.commSize} {r.extra} " ++ " ".intercalate (r.items.map showElem)).trimAscii.toString
    | _, _, _ => "bad-op"
  | "rtfs" :: d :: n :: r :: extra :: rest =>
    match parseDisc d, n.toNat?, r.toNat?, rest.mapM parseElem with
    | some d, some n, some r, some xs =>
      -- every index of the prefix holds a stale image; the container has `n` ranks, rank `r` holds `xs`, the others nothing
      let stale : Ser.Files Elem String := fun _ => some ⟨[([115, 116, 97, 108, 101], "stale")], "stale", n + 3⟩
      let c : List (Ser.Local Elem String) := (List.range n).map (fun i => if i = r then ⟨xs, extra⟩ else ⟨[], extra⟩)
      let old : Ser.Local Elem String := ⟨[([111, 108, 100], "old")], "old"⟩
      let fs := Ser.writeAll stale c
      match (Ser.readAll d (fun (e : Elem) => e.1) Ser.bytesLt fs (List.replicate n old))[r]?, fs r with
      | some (some l), some img => (s!"{img.commSize} {l.extra} " ++ " ".intercalate (l.items.map showElem)).trimAscii.toString
      | _, _ => "nofile"
    | _, _, _, _ => "bad-op"
  | _ => "bad-op"

end Driver.OutSer
