import YgmVerif.Model.Part
import Driver.Util
/-! mode `part`: block partition queries.
  `table <len> <ranks>`   -> `owners o_0 .. o_{len-1} | starts s_0 .. s_{ranks-1} | sizes z_0 .. z_{ranks-1}`
  `owner <len> <ranks> <i>` -> owner or `trap`
  `hash <h> <nranks>`     -> h % nranks
-/
namespace Driver.Part
open YgmVerif.Part Driver

def handle (line : String) : String :=
  match words line with
  | "table" :: rest =>
    match nats? rest with
    | some [len, ranks] =>
      let owners := (List.range len).map (fun i => showOptNat (owner len ranks i))
      let starts := (List.range ranks).map (start len ranks)
      let sizes := (List.range ranks).map (localSize len ranks)
      s!"owners {" ".intercalate owners} | starts {joinNats starts} | sizes {joinNats sizes}"
    | _ => "bad-op"
  | "owner" :: rest =>
    match nats? rest with
    | some [len, ranks, i] => showOptNat (owner len ranks i)
    | _ => "bad-op"
  | "hash" :: rest =>
    match nats? rest with
    | some [h, n] => if n = 0 then "trap" else toString (hashOwner h n)
    | _ => "bad-op"
  | _ => "bad-op"

end Driver.Part
