import YgmVerif.Model.Atomic
import Driver.Util
/-! mode `atomic`: replay the control events (hooks prq / hnr / ex / im) of every rank through
`YgmVerif.Atomic.step`; the real values of the two flags reported by the hooks must equal the model's.
  `reset`  `pollBegin r <enable_interrupts>`  `pollEnd r`  `hnrBegin r <G>`  `hnrEnd r`
  `handlerBegin r <G> <enable_interrupts>`  `handlerEnd r`  `maskOn r`  `maskOff r` -/
namespace Driver.Atomic
open YgmVerif.Atomic Driver

abbrev DS := List (Nat × St)

def get (d : DS) (r : Nat) : St := ((d.find? (·.1 == r)).map (·.2)).getD St.init
def set (d : DS) (r : Nat) (s : St) : DS := (r, s) :: d.filter (·.1 != r)

def doStep (d : DS) (r : Nat) (l : Label) (name : String) : DS × String :=
  match step (get d r) l with
  | some s' => (set d r s', "ok")
  | none => (d, s!"reject {name}")

def handle (d : DS) (line : String) : DS × String :=
  match words line with
  | ["reset"] => ([], "ok")
  | [cmd, r] =>
    match r.toNat? with
    | none => (d, "bad-op")
    | some r =>
      match cmd with
      | "pollEnd" => doStep d r .pollEnd cmd
      | "hnrEnd" =>
        match (get d r).stack with
        | .bwalk :: _ => doStep d r .bwalkEnd cmd
        | _ => doStep d r .walkEnd cmd
      | "handlerEnd" => doStep d r .handlerEnd cmd
      | "maskOn" => doStep d r .maskOn cmd
      | "maskOff" => doStep d r .maskOff cmd
      | _ => (d, "bad-op")
  | ["pollBegin", r, en] =>
    match r.toNat?, en.toNat? with
    | some r, some en =>
      if (get d r).M != (en == 0) then (d, s!"mismatch pollBegin model-mask={(get d r).M} real-enable={en}")
      else doStep d r .pollBegin "pollBegin"
    | _, _ => (d, "bad-op")
  | ["hnrBegin", r, g] =>
    match r.toNat?, g.toNat? with
    | some r, some g =>
      match (get d r).stack with
      | [] =>
        match step (get d r) .bwalkBegin with
        | some s' => if g == 0 then (set d r s', "mismatch hnrBegin real-flag=0 model-flag=true (barrier path)") else (set d r s', "ok")
        | none => (d, "reject bwalkBegin")
      | _ =>
        if g == 0 then (d, "mismatch hnrBegin real-flag=0") else doStep d r .walkBegin "walkBegin"
    | _, _ => (d, "bad-op")
  | ["handlerBegin", r, g, en] =>
    match r.toNat?, g.toNat?, en.toNat? with
    | some r, some g, some en =>
      let s := get d r
      if s.G != (g != 0) || s.M != (en == 0) then
        (d, s!"mismatch handlerBegin model=(G={s.G},M={s.M}) real=(G={g},enable={en})")
      else doStep d r .handlerBegin "handlerBegin"
    | _, _, _ => (d, "bad-op")
  | _ => (d, "bad-op")

end Driver.Atomic
