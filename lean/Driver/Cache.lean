import YgmVerif.Model.Cache
import YgmVerif.PinnedCache
import Driver.Util
/-! modes `cache` (counting_set count cache) and `reduce` (reducing adapter): replay of the
event history of ONE rank of a real run through `YgmVerif.Cache.step` (variant `fixed`) or
`YgmVerif.PinnedCache.step` (variant `pinned`).

  cache:   `<variant> <nslots> | <tokens>`
  reduce:  `<variant> <nslots> <opid> <me> <k:owner,k:owner,...> | <tokens>`     opid 0 sum 1 max 2 xor 3 min 4 product mod 1000003 5 and 6 signed max
           `hop <p> <me> <dest>`  ->  next NLNR hop
  tokens:  `I k v` insert/reduce begins   `P k v` the real code packed (k, v)   `R` send returned
           `D` insert returned   `FB` / `FE` pre-barrier callback begins / ends   `B` barrier() returned
           `A k v` the owner executes a container operation (reduce only)
  answer:  `ok reg=<0|1> stack=<n> cache=<slot:k:v,..> out=<c:k:v,..> stored=<k:v,..>`
           (`c` = 1 for a container operation, 0 for an adapter message; out oldest first)
        or `reject <index> <token> <why>`
  In mode `cache` the count travels as an `int32_t` and is not visible in the real run, so `P`
  is compared by key only.
-/
namespace Driver.Cache
open YgmVerif.Cache Driver

structure Machine where
  σ : Type
  init : σ
  step : σ → Label Nat → Option σ
  pending : σ → Option (Msg Nat)
  reg : σ → Bool
  depth : σ → Nat
  cache : σ → CMap Nat

def fixedM (cfg : Cfg Nat) : Machine :=
  { σ := St Nat, init := .init, step := YgmVerif.Cache.step cfg, pending := YgmVerif.Cache.pending,
    reg := (·.reg), depth := (·.stack.length), cache := (·.cache) }

def pinnedM (cfg : YgmVerif.PinnedCache.PCfg Nat) : Machine :=
  { σ := YgmVerif.PinnedCache.PSt Nat, init := .init, step := YgmVerif.PinnedCache.step cfg,
    pending := YgmVerif.PinnedCache.pending cfg,
    reg := (·.reg), depth := (·.stack.length), cache := (·.cache) }

/-- operators of the harness; 3–6 have no neutral element among the values used (and the
value-initialised 0 is absorbing or dominating for them) -/
def opOf : Nat → Nat → Nat → Nat
  | 0 => (· + ·)
  | 1 => max
  | 2 => Nat.xor
  | 3 => min
  | 4 => fun a b => (a % 1000003) * (b % 1000003) % 1000003
  | 5 => Nat.land
  | _ => fun a b =>   -- max of 64-bit two's-complement values
    if (a + 9223372036854775808) % 18446744073709551616 > (b + 9223372036854775808) % 18446744073709551616 then a else b

structure Acc (M : Machine) where
  st : M.σ
  out : List (Msg Nat)        -- newest first
  stored : List (Key × Nat)

def showCache (c : CMap Nat) : String :=
  ",".intercalate (c.map (fun (s, (k, v)) => s!"{s}:{k}:{v}"))

def finish (M : Machine) (a : Acc M) : String :=
  let outs := a.out.reverse.map (fun m => s!"{if m.toContainer then 1 else 0}:{m.key}:{m.val}")
  let st := a.stored.map (fun (k, v) => s!"{k}:{v}")
  s!"ok reg={if M.reg a.st then 1 else 0} stack={M.depth a.st} cache={showCache (M.cache a.st)} out={",".intercalate outs} stored={",".intercalate st}"

/-- consume the tokens; `cmpVal` = compare the packed value too -/
partial def replay (M : Machine) (op : Nat → Nat → Nat) (cmpVal : Bool) (a : Acc M) (idx : Nat) : List String → String
  | [] => finish M a
  | "I" :: k :: v :: rest =>
    match k.toNat?, v.toNat? with
    | some k, some v =>
      match M.step a.st (.ins k v) with
      | some s => replay M op cmpVal { a with st := s } (idx + 1) rest
      | none => s!"reject {idx} I insert-not-enabled"
    | _, _ => "bad-op"
  | "P" :: k :: v :: rest =>
    match k.toNat?, v.toNat? with
    | some k, some v =>
      match M.pending a.st with
      | none => s!"reject {idx} P model-has-no-send-in-progress real={k}:{v}"
      | some m =>
        if m.key ≠ k ∨ (cmpVal ∧ m.val ≠ v) then s!"reject {idx} P model-would-send={m.key}:{m.val} real={k}:{v}"
        else
          match M.step a.st .pack with
          | some s => replay M op cmpVal { a with st := s, out := m :: a.out } (idx + 1) rest
          | none => s!"reject {idx} P pack-not-enabled"
    | _, _ => "bad-op"
  | "A" :: k :: v :: rest =>
    match k.toNat?, v.toNat? with
    | some k, some v => replay M op cmpVal { a with stored := storeReduce op a.stored k v } (idx + 1) rest
    | _, _ => "bad-op"
  | "R" :: rest => simple .ret "R" rest
  | "D" :: rest => simple .done "D" rest
  | "FB" :: rest => simple .fb "FB" rest
  | "FE" :: rest => simple .fe "FE" rest
  | "B" :: rest => simple .bar "B" rest
  | t :: _ => s!"bad-op {t}"
where
  simple (l : Label Nat) (name : String) (rest : List String) : String :=
    match M.step a.st l with
    | some s => replay M op cmpVal { a with st := s } (idx + 1) rest
    | none =>
      let p := match M.pending a.st with
        | some m => s!" model-waits-for-pack={m.key}:{m.val}"
        | none => ""
      s!"reject {idx} {name} not-enabled depth={M.depth a.st}{p}"

def start (M : Machine) (op : Nat → Nat → Nat) (cmpVal : Bool) (toks : List String) : String :=
  replay M op cmpVal { st := M.init, out := [], stored := [] } 0 toks

def splitBar (ws : List String) : List String × List String :=
  (ws.takeWhile (· ≠ "|"), (ws.dropWhile (· ≠ "|")).drop 1)

def handleCache (line : String) : String :=
  let (hd, toks) := splitBar (words line)
  match hd with
  | [variant, n] =>
    match n.toNat? with
    | some n =>
      if variant == "pinned" then start (pinnedM { csetCfg n with byRef := false }) (· + ·) false toks
      else start (fixedM (csetCfg n)) (· + ·) false toks
    | none => "bad-op"
  | _ => "bad-op"

def parseOwners (s : String) : List (Nat × Nat) :=
  (s.splitOn ",").filterMap (fun kv =>
    match kv.splitOn ":" with
    | [k, o] => match k.toNat?, o.toNat? with
      | some k, some o => some (k, o)
      | _, _ => none
    | _ => none)

def handleReduce (line : String) : String :=
  let (hd, toks) := splitBar (words line)
  match hd with
  | ["hop", p, me, d] =>
    match p.toNat?, me.toNat?, d.toNat? with
    | some p, some me, some d => toString (nlnrHop p me d)
    | _, _, _ => "bad-op"
  | [variant, n, opid, me, owners] =>
    match n.toNat?, opid.toNat?, me.toNat? with
    | some n, some opid, some me =>
      let tab := parseOwners owners
      -- a key outside the table is owned by nobody here (never bypasses)
      let owner : Key → Nat := fun k => match tab.lookup k with
        | some o => o
        | none => me + 1
      let op := opOf opid
      if variant == "pinned" then start (pinnedM { adapterCfg n op owner me with byRef := true }) op true toks
      else start (fixedM (adapterCfg n op owner me)) op true toks
    | _, _, _ => "bad-op"
  | _ => "bad-op"

end Driver.Cache
