import Driver.Util
import Driver.Lines
/-! `ygm_model_lines <mode>`: driver for the line_parser model (C18). -/
open Driver

def main (args : List String) : IO UInt32 := do
  let stdin ← IO.getStdin
  match args with
  | ["lines"] => stateLoop stdin Driver.Lines.handle []; return 0
  | _ => IO.eprintln "usage: ygm_model_lines lines"; return 2
