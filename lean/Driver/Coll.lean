import YgmVerif.Model.Coll
import Driver.Util
/-! mode `coll`: the collectives model (property C09).  Strings are written `_<chars>` (so `_` is the
empty string); a vector of items is one token `_item,item,…`.
  `subtree <n> <r>`                 -> ranks merged into rank r's value, in merge order
  `parent <r>`                      -> `<parent> <first_child> <second_child>`
  `tree <OP> <ty> v0 v1 …`          -> comm::all_reduce with the C++ operator OP on type ty: one value per rank
  `treecat _s0 _s1 …`               -> comm::all_reduce with string append
  `treeparen _s0 _s1 …`             -> comm::all_reduce with merge(a,b) = "(" a "." b ")"
  `treevec _v0 _v1 …`               -> comm::all_reduce with vector concatenation
  `allreduce <OP> <ty> v0 v1 …`     -> all_reduce_sum/min/max, sum/min/max/logical_*
  `prefix <ty> v0 v1 …`             -> prefix_sum
  `bcast <root> t0 t1 …`            -> POD bcast (tokens opaque) or `error`
  `bcastser <root> _s0 _s1 …`       -> serialised bcast through the byte-level model or `error`
  `mpibcastser <root> _s0 …`        -> comm::mpi_bcast
  `xfer _s`                         -> mpi_send of s followed by mpi_recv: what the receiver gets
  `fallreduce <OP> <f32|f64> b0 b1 …` -> the same wrappers on IEEE values given as hex bit patterns (`nan` canonical)
  `fprefix <f32|f64> b0 b1 …`       -> prefix_sum on IEEE values
  `ftree <OP> <f32|f64> b0 b1 …`    -> comm::all_reduce with the IEEE operator (nesting of the tree, not a fold)
  `freered <fn> a0 … a_{n-1} | f0 … f_{n-1}` -> result per rank of the free function fn called on variables holding a_i at
                                       the call and f_i after all outstanding asyncs (int64; flags 0/1 for logical_*)
  `issame t0 t1 …`                  -> is_same, one 0/1 per rank
  `typeof`                          -> `cty:DT:kind:bytes …`
  `prims <coll>`                    -> program of the collective, e.g. `barrier allreduce:SUM`
-/
namespace Driver.Coll
open YgmVerif.Coll Driver

def ints? (ws : List String) : Option (List Int) := ws.mapM (·.toInt?)

def joinInts (xs : List Int) : String := " ".intercalate (xs.map toString)

def op? : String → Option Op
  | "SUM" => some .SUM | "MIN" => some .MIN | "MAX" => some .MAX | "LAND" => some .LAND | "LOR" => some .LOR
  | _ => none

def ctyName : CTy → String
  | .char => "char" | .bool => "bool" | .i8 => "i8" | .i16 => "i16" | .i32 => "i32" | .i64 => "i64"
  | .u8 => "u8" | .u16 => "u16" | .u32 => "u32" | .u64 => "u64" | .f32 => "f32" | .f64 => "f64" | .ldouble => "ldouble"

def cty? (s : String) : Option CTy := CTy.all.find? (fun t => ctyName t == s)

def dtName : Dt → String
  | .CHAR => "CHAR" | .CXX_BOOL => "CXX_BOOL" | .INT8_T => "INT8_T" | .INT16_T => "INT16_T" | .INT32_T => "INT32_T"
  | .INT64_T => "INT64_T" | .UINT8_T => "UINT8_T" | .UINT16_T => "UINT16_T" | .UINT32_T => "UINT32_T"
  | .UINT64_T => "UINT64_T" | .FLOAT => "FLOAT" | .DOUBLE => "DOUBLE" | .LONG_DOUBLE => "LONG_DOUBLE"

def kindName : Kind → String
  | .char => "char" | .bool => "bool" | .sint => "sint" | .uint => "uint" | .float => "float"

def opName : Op → String
  | .SUM => "SUM" | .MIN => "MIN" | .MAX => "MAX" | .LAND => "LAND" | .LOR => "LOR"

def primName : Prim → String
  | .barrier => "barrier" | .allreduce o => "allreduce:" ++ opName o | .exscan o => "exscan:" ++ opName o
  | .bcast => "bcast" | .treeGather => "treegather"

def coll? : String → Option Coll
  | "sum" => some .sum | "min" => some .min | "max" => some .max | "prefix_sum" => some .prefixSum
  | "logical_and" => some .logicalAnd | "logical_or" => some .logicalOr | "bcast" => some .bcast
  | "is_same" => some .isSame | "all_reduce_sum" => some .commAllReduceSum | "all_reduce_min" => some .commAllReduceMin
  | "all_reduce_max" => some .commAllReduceMax | "all_reduce" => some .commAllReduce
  | _ => none

/-- `_abc` -> `abc` -/
def str? (w : String) : Option String := if w.startsWith "_" then some (w.drop 1).toString else none
def strs? (ws : List String) : Option (List String) := ws.mapM str?
def showStr (s : String) : String := "_" ++ s
def joinStrs (xs : List String) : String := " ".intercalate (xs.map showStr)

def vec? (w : String) : Option (List String) :=
  (str? w).map fun s => if s.isEmpty then [] else s.splitOn ","
def showVec (v : List String) : String := "_" ++ ",".intercalate v

/-- the serialiser stand-in of the byte-level bcast model: characters (round trip is the identity) -/
def charCodec : Codec String Char := { ser := fun s => s.toList, des := fun l => some (String.ofList l) }

def showOptStrs : Option (List (Option String)) → String
  | none => "error"
  | some l => " ".intercalate (l.map fun | none => "desfail" | some s => showStr s)

def hexDigit? (c : Char) : Option Nat :=
  if '0' ≤ c ∧ c ≤ '9' then some (c.toNat - '0'.toNat)
  else if 'a' ≤ c ∧ c ≤ 'f' then some (c.toNat - 'a'.toNat + 10)
  else none

def hex? (s : String) : Option Nat :=
  if s.isEmpty then none else s.toList.foldlM (fun acc c => (hexDigit? c).map (acc * 16 + ·)) 0

def hexOf (width n : Nat) : String :=
  let ds := (Nat.toDigits 16 n)
  String.ofList (List.replicate (width - ds.length) '0' ++ ds)

def f64s? (ws : List String) : Option (List Float) := ws.mapM fun w => (hex? w).map fun n => Float.ofBits n.toUInt64
def f32s? (ws : List String) : Option (List Float32) := ws.mapM fun w => (hex? w).map fun n => Float32.ofBits n.toUInt32
def showF64 (x : Float) : String := if x.isNaN then "nan" else hexOf 16 x.toBits.toNat
def showF32 (x : Float32) : String := if x.isNaN then "nan" else hexOf 8 x.toBits.toNat

def handle (line : String) : String :=
  match words line with
  | ["subtree", n, r] =>
    match nats? [n, r] with
    | some [n, r] => joinNats (subtreeList n r)
    | _ => "bad-op"
  | ["parent", r] =>
    match r.toNat? with
    | some r => joinNats [parent r, firstChild r, secondChild r]
    | none => "bad-op"
  | "tree" :: o :: t :: vs =>
    match op? o, cty? t, ints? vs with
    | some o, some t, some (x0 :: rest) => joinInts (treeReduceL (opInt t o) x0 rest)
    | _, _, _ => "bad-op"
  | "treecat" :: vs =>
    match strs? vs with
    | some (x0 :: rest) => joinStrs (treeReduceL (· ++ ·) x0 rest)
    | _ => "bad-op"
  | "treeparen" :: vs =>
    match strs? vs with
    | some (x0 :: rest) => joinStrs (treeReduceL parenMerge x0 rest)
    | _ => "bad-op"
  | "treevec" :: vs =>
    match vs.mapM vec? with
    | some (x0 :: rest) => " ".intercalate ((treeReduceL (· ++ ·) x0 rest).map showVec)
    | _ => "bad-op"
  | "allreduce" :: o :: t :: vs =>
    match op? o, cty? t, ints? vs with
    | some o, some t, some xs => joinInts (allReduceOp (opInt t o) xs)
    | _, _, _ => "bad-op"
  | "prefix" :: t :: vs =>
    match cty? t, ints? vs with
    | some t, some xs => joinInts (prefixSum 0 (addTy t) xs)
    | _, _ => "bad-op"
  | "bcast" :: root :: vs =>
    match root.toNat? with
    | some root => match bcastPod root vs with
      | some l => " ".intercalate l
      | none => "error"
    | none => "bad-op"
  | "bcastser" :: root :: vs =>
    match root.toNat?, strs? vs with
    | some root, some xs => showOptStrs (bcastSer charCodec '?' root xs)
    | _, _ => "bad-op"
  | "mpibcastser" :: root :: vs =>
    match root.toNat?, strs? vs with
    | some root, some xs => showOptStrs (mpiBcastSer charCodec '?' root xs)
    | _, _ => "bad-op"
  | ["xfer", v] =>
    match str? v with
    | some s => (match xfer charCodec s with | some r => showStr r | none => "desfail")
    | none => "bad-op"
  | "fallreduce" :: o :: "f64" :: vs =>
    match op? o, f64s? vs with
    | some o, some xs => " ".intercalate ((allReduceOp (opF64 o) xs).map showF64)
    | _, _ => "bad-op"
  | "fallreduce" :: o :: "f32" :: vs =>
    match op? o, f32s? vs with
    | some o, some xs => " ".intercalate ((allReduceOp (opF32 o) xs).map showF32)
    | _, _ => "bad-op"
  | "fprefix" :: "f64" :: vs =>
    match f64s? vs with
    | some xs => " ".intercalate ((prefixSum (Float.ofBits 0) (opF64 .SUM) xs).map showF64)
    | none => "bad-op"
  | "fprefix" :: "f32" :: vs =>
    match f32s? vs with
    | some xs => " ".intercalate ((prefixSum (Float32.ofBits 0) (opF32 .SUM) xs).map showF32)
    | none => "bad-op"
  | "ftree" :: o :: "f64" :: vs =>
    match op? o, f64s? vs with
    | some o, some (x0 :: rest) => " ".intercalate ((treeReduceL (opF64 o) x0 rest).map showF64)
    | _, _ => "bad-op"
  | "ftree" :: o :: "f32" :: vs =>
    match op? o, f32s? vs with
    | some o, some (x0 :: rest) => " ".intercalate ((treeReduceL (opF32 o) x0 rest).map showF32)
    | _, _ => "bad-op"
  | "freered" :: fn :: rest =>
    match coll? fn, ints? (rest.takeWhile (· ≠ "|")), ints? ((rest.dropWhile (· ≠ "|")).drop 1) with
    | some c, some atc, some fin =>
      let xs := contributed c atc fin
      match c with
      | .sum => joinInts (allReduceOp (opInt .i64 .SUM) xs)
      | .min => joinInts (allReduceOp (opInt .i64 .MIN) xs)
      | .max => joinInts (allReduceOp (opInt .i64 .MAX) xs)
      | .prefixSum => joinInts (prefixSum 0 (addTy .i64) xs)
      | .logicalAnd => joinInts (allReduceOp (opInt .bool .LAND) xs)
      | .logicalOr => joinInts (allReduceOp (opInt .bool .LOR) xs)
      | .isSame => " ".intercalate ((isSame (· == ·) xs).map fun b => if b then "1" else "0")
      | _ => "bad-op"
    | _, _, _ => "bad-op"
  | "issame" :: vs => " ".intercalate ((isSame (· == ·) vs).map fun b => if b then "1" else "0")
  | ["typeof"] =>
    " ".intercalate (CTy.all.map fun t =>
      s!"{ctyName t}:{dtName (mpiTypeof t)}:{kindName (mpiTypeof t).kind}:{(mpiTypeof t).bytes}")
  | ["prims", c] =>
    match coll? c with
    | some c => " ".intercalate (c.prims.map primName)
    | none => "bad-op"
  | _ => "bad-op"

end Driver.Coll
