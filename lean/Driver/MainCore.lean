import Driver.Util
import Driver.Part
import Driver.Barrier
import Driver.BarrierME
import Driver.Deliver
import Driver.Atomic
import Driver.Bytes
import Driver.Flush
/-! `ygm_model_core <mode>`: driver for the communicator-level models (C01 C02 C03 C07 C08 C10).
Separate executables per model group keep a check independent of unrelated models. -/
open Driver

def main (args : List String) : IO UInt32 := do
  let stdin ← IO.getStdin
  match args with
  | ["part"] => lineLoop stdin Driver.Part.handle; return 0
  | ["barrier"] => stateLoop stdin Driver.Barrier.handle Driver.Barrier.dummy; return 0
  | ["barrierme"] => stateLoop stdin Driver.BarrierME.handle Driver.BarrierME.dummy; return 0
  | ["deliver"] => stateLoop stdin Driver.Deliver.handle Driver.Deliver.dummy; return 0
  | ["atomic"] => stateLoop stdin Driver.Atomic.handle []; return 0
  | ["flush"] => stateLoop stdin Driver.Flush.handle ⟨YgmVerif.Flush.start 0 0 0, 2⟩; return 0
  | ["bytes"] => stateLoop stdin Driver.Bytes.handle ⟨0, []⟩; return 0
  | _ => IO.eprintln "usage: ygm_model_core <mode>"; return 2
