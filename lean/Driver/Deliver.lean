import YgmVerif.Model.Deliver
import YgmVerif.Model.Router
import YgmVerif.Model.RouterP
import Driver.Util
/-! mode `deliver`: replay the message-movement history of a real run through `YgmVerif.Deliver.step`.
Model uid = U*1000 + k (U = the harness's uid; k distinguishes mcast copies / broadcast legs).
  `init <n> <NONE|NR|NLNR> <p>`
  `async r U k dest direct`        -> `ok hop=<h>` (h = buffer the model put it in) | `reject async`
  `isend r hop U1,U2,..`           contents (multiset of U) of the buffer must equal the real physical message
  `recv r src U1,U2,..`            oldest in-flight physical message src->r must have these contents
  `execu r U` / `fwdu r U`         some entry with that U in r's walk is executed / forwarded
  `recvend r`   `final`
-/
namespace Driver.Deliver
open YgmVerif.Deliver YgmVerif Driver

structure DS where
  n : Nat
  nh : Nat → Nat → Nat
  s : St

def dummy : DS := ⟨0, fun _ d => d, St.init⟩

def parseList (w : String) : Option (List Nat) :=
  if w == "-" then some [] else (w.splitOn ",").mapM (·.toNat?)

def sortNats (xs : List Nat) : List Nat := (xs.toArray.qsort (· < ·)).toList

def usAt (s : St) (p : Entry → Bool) : List Nat := sortNats ((uidsAt s p).map (· / 1000))

def oldestSeq (s : St) (src dst : Nat) : Option Nat :=
  s.es.foldl (fun acc e => match e.loc with
    | .inWire a d k => if a == src && d == dst then (match acc with | none => some k | some m => some (min m k)) else acc
    | _ => acc) none

def doStep (d : DS) (l : Label) (name : String) : DS × String :=
  match step d.n d.nh d.s l with
  | some s' => ({ d with s := s' }, "ok")
  | none => (d, s!"reject {name}")

def handle (d : DS) (line : String) : DS × String :=
  match words line with
  | ["init", n, sch, p] =>
    match n.toNat?, p.toNat? with
    | some n, some p =>
      let scheme := if sch == "NR" then Router.Scheme.NR else if sch == "NLNR" then Router.Scheme.NLNR else Router.Scheme.NONE
      (⟨n, fun me dst => Router.nextHop scheme p me dst, St.init⟩, "ok")
    | _, _ => (d, "bad-op")
  | ["initp", n, sch, p, pl] =>
    -- the same, for a placement of ranks on nodes given by name (block | cyclic): next hops through RouterP's lookups
    match n.toNat?, p.toNat? with
    | some n, some p =>
      let scheme := if sch == "NR" then Router.Scheme.NR else if sch == "NLNR" then Router.Scheme.NLNR else Router.Scheme.NONE
      match RouterP.byName? pl (n / p) p with
      | some P => (⟨n, fun me dst => P.nextHop scheme me dst, St.init⟩, "ok")
      | none => (d, "bad-op")
    | _, _ => (d, "bad-op")
  | ["async", r, u, k, dest, dir] =>
    match r.toNat?, u.toNat?, k.toNat?, dest.toNat?, dir.toNat? with
    | some r, some u, some k, some dest, some dir =>
      let direct := dir != 0
      match step d.n d.nh d.s (.async r (u * 1000 + k) dest direct) with
      | some s' => ({ d with s := s' }, s!"ok hop={if direct then dest else d.nh r dest}")
      | none => (d, "reject async")
    | _, _, _, _, _ => (d, "bad-op")
  | ["isend", r, hop, us] =>
    match r.toNat?, hop.toNat?, parseList us with
    | some r, some hop, some us =>
      let have_ := usAt d.s (inBufOf r hop)
      if have_ != sortNats us then (d, s!"mismatch isend model-buffer={have_} real={sortNats us}")
      else doStep d (.isend r hop) "isend"
    | _, _, _ => (d, "bad-op")
  | ["recv", r, src, us] =>
    match r.toNat?, src.toNat?, parseList us with
    | some r, some src, some us =>
      match oldestSeq d.s src r with
      | none => (d, "reject recv nothing-in-flight")
      | some k =>
        let have_ := usAt d.s (inWireOf src r k)
        if have_ != sortNats us then (d, s!"mismatch recv model-oldest={have_} real={sortNats us}")
        else doStep d (.recvBegin r src k) "recvBegin"
    | _, _, _ => (d, "bad-op")
  | ["execu", r, u] =>
    match r.toNat?, u.toNat? with
    | some r, some u =>
      match d.s.es.find? (fun e => e.uid / 1000 == u && inWalkOf r e) with
      | some e => doStep d (.exec r e.uid) "exec"
      | none => (d, "reject exec not-in-walk")
    | _, _ => (d, "bad-op")
  | ["fwdu", r, u] =>
    match r.toNat?, u.toNat? with
    | some r, some u =>
      match d.s.es.find? (fun e => e.uid / 1000 == u && inWalkOf r e) with
      | some e => doStep d (.fwd r e.uid) "fwd"
      | none => (d, "reject fwd not-in-walk")
    | _, _ => (d, "bad-op")
  | ["recvend", r] => match r.toNat? with | some r => doStep d (.recvEnd r) "recvEnd" | none => (d, "bad-op")
  | ["final"] => (d, s!"quiescent={quiescent d.s} idle={(List.range d.n).all (fun r => !d.s.walking r)} entries={d.s.es.length} executed={d.s.executed.length}")
  | _ => (d, "bad-op")

end Driver.Deliver
