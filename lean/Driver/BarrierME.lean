import YgmVerif.Model.BarrierME
import Driver.Util
/-! mode `barrierme`: replay the event history of a whole multi-barrier run (overlapping barrier epochs, one global
sequence of reduction rounds) through `YgmVerif.BarrierME.step`.
  `init <n>`                      program start on n ranks (the model's fixed initial state); once, first line
  `issue r` `start r` `finish r` `regcb r` `runcb r k j` `enter r` `exit r`
  `contribute r <recvd> <sent>`   also compares the values the real rank contributed with the model's counters
  `result r <g0> <g1>`            also compares the reduction result the real rank consumed with the model's sums
  `state`                         dump
  `exit r` answers `ok after=<j>`: the rank posted j rounds beyond the K of the first quiescent state of this barrier
Answers: `ok …`, `reject <label>` (label not enabled: history not accepted), `mismatch …`. -/
namespace Driver.BarrierME
open YgmVerif.BarrierME Driver

structure DS where
  n : Nat
  s : Sys
  dk : Option (Nat × Nat) := none     -- (epoch e, K): the first state of barrier e that was quiescent had max rounds K

def dummy : DS := ⟨0, init, none⟩

/-- the hypothesis of `C02ME_rounds_after_quiescence` / `C02ME_all_exit` holds now: nothing undelivered, every rank idle inside the
same barrier; K = the rounds posted so far -/
def deadNow (d : DS) : Option (Nat × Nat) :=
  let rs := List.range d.n
  if d.n > 0 && d.s.und == 0 &&
      rs.all (fun r => d.s.inBar r && !d.s.busy r && d.s.cbs r == 0 && d.s.epoch r == d.s.epoch 0) then
    some (d.s.epoch 0, rs.foldl (fun m r => max m (d.s.rounds r)) 0)
  else none

def note (d : DS) : DS :=
  match deadNow d, d.dk with
  | some (e, k), some (e', _) => if e == e' then d else { d with dk := some (e, k) }
  | some x, none => { d with dk := some x }
  | none, _ => d

def doStep (d : DS) (l : Label) (name : String) : DS × String :=
  match step d.n d.s l with
  | some s' => (note { d with s := s' }, "ok")
  | none => (d, s!"reject {name}")

def handle (d : DS) (line : String) : DS × String :=
  match words line with
  | ["init", n] =>
    match n.toNat? with
    | some n => (⟨n, init, none⟩, "ok")
    | none => (d, "bad-op")
  | ["issue", r] => match r.toNat? with | some r => doStep d (.issue r) "issue" | none => (d, "bad-op")
  | ["start", r] => match r.toNat? with | some r => doStep d (.start r) "start" | none => (d, "bad-op")
  | ["finish", r] => match r.toNat? with | some r => doStep d (.finish r) "finish" | none => (d, "bad-op")
  | ["regcb", r] => match r.toNat? with | some r => doStep d (.regcb r) "regcb" | none => (d, "bad-op")
  | ["enter", r] => match r.toNat? with | some r => doStep d (.enter r) "enter" | none => (d, "bad-op")
  | ["exit", r] =>
    match r.toNat? with
    | some r =>
      let (d', o) := doStep d (.exit r) "exit"
      if o == "ok" then
        -- how many reduction rounds this rank posted beyond the K of the first quiescent state of its barrier (theorem: ≤ 2)
        match d.dk with
        | some (e, k) => if d.s.epoch r == e then (d', s!"ok after={d.s.rounds r - k} short={k - d.s.rounds r}") else (d', "ok nodead")
        | none => (d', "ok nodead")
      else (d', o)
    | none => (d, "bad-op")
  | ["runcb", r, k, j] =>
    match r.toNat?, k.toNat?, j.toNat? with
    | some r, some k, some j => doStep d (.runcb r k j) "runcb"
    | _, _, _ => (d, "bad-op")
  | ["contribute", r, a, b] =>
    match r.toNat?, a.toNat?, b.toNat? with
    | some r, some a, some b =>
      if d.s.recvd r != a || d.s.sent r != b then
        (d, s!"mismatch contribute model=({d.s.recvd r},{d.s.sent r}) real=({a},{b})")
      else doStep d (.contribute r) "contribute"
    | _, _, _ => (d, "bad-op")
  | ["result", r, a, b] =>
    match r.toNat?, a.toNat?, b.toNat? with
    | some r, some a, some b =>
      let k := d.s.got r
      match step d.n d.s (.result r) with
      | none => (d, "reject result")
      | some s' =>
        if d.s.accR k != a || d.s.accS k != b then
          ({ d with s := s' }, s!"mismatch result round={k} model=({d.s.accR k},{d.s.accS k}) real=({a},{b})")
        else (note { d with s := s' }, "ok")
    | _, _, _ => (d, "bad-op")
  | ["state"] =>
    let rs := (List.range d.n).map fun r =>
      s!"r{r}:s{d.s.sent r},r{d.s.recvd r},b{d.s.busy r},c{d.s.cbs r},in{d.s.inBar r},e{d.s.epoch r},ba{d.s.base r},rd{d.s.rounds r},g{d.s.got r},x{exitEnabled d.s r}"
    (d, s!"und={d.s.und} " ++ " ".intercalate rs)
  | _ => (d, "bad-op")

end Driver.BarrierME
