import YgmVerif.Model.Flush
import Driver.Util
/-! mode `flush`: replay one invocation of flush_all_local_and_process_incoming through `YgmVerif.Flush.step`.
  `begin cbs ub sq` ; `poll recvd ret cbs ub sq` ; `cb cbs ub sq` ; `flush b` ; `end`
The loop-exit transitions (endB/endC/endD) are silent in the real code; the driver inserts them when their
guard holds, so `end` is accepted only if the model's loop has also returned. -/
namespace Driver.Flush
open YgmVerif.Flush Driver

def tryStep (s : St) (l : Label) : St := (step s l).getD s

/-- insert the silent loop exits that are enabled -/
def settle (s : St) : St :=
  let s := if s.pc == .B && s.cbs == 0 then tryStep s .endB else s
  let s := if s.pc == .C && s.ub == 0 then tryStep s .endC else s
  let s := if s.pc == .D && s.sq == 0 then tryStep s .endD else s
  s

def mkPoll (ws : List Nat) : Option Poll :=
  match ws with
  | [a, b, c, d, e] => some ⟨a != 0, b != 0, c, d, e⟩
  | _ => none

/-- driver state: model state + number of polls seen since the last flush of loop C (each iteration of
that loop polls exactly twice: inside flush_send_buffer and explicitly) -/
structure DS where
  s : St
  c : Nat

def handle (d : DS) (line : String) : DS × String :=
  let s := d.s
  let ret := fun (s' : St) (c : Nat) (msg : String) => (({ s := s', c := c } : DS), msg)
  match words line with
  | "begin" :: rest =>
    match nats? rest with
    | some [c, u, q] => ret (start c u q) 2 "ok"
    | _ => ret s d.c "bad-op"
  | "poll" :: rest =>
    match (nats? rest).bind mkPoll with
    | some p =>
      -- a poll belongs to loop C while that loop is active (it follows a flush), else to A / D
      let inC := s.pc == .C && s.did && d.c < 2
      let s1 := if inC then s else settle s
      let lab := if inC then Label.pollC p else match s1.pc with
        | .A => Label.pollA p
        | _ => Label.pollD p
      match step s1 lab with
      | some s' => ret s' (if inC then d.c + 1 else 2) "ok"
      | none => ret s d.c s!"reject poll at pc={repr s1.pc} did={s1.did} cbs={s1.cbs} ub={s1.ub} sq={s1.sq}"
    | none => ret s d.c "bad-op"
  | "cb" :: rest =>
    match nats? rest with
    | some [c, u, q] =>
      match step s (.cb c u q) with
      | some s' => ret s' 2 "ok"
      | none => ret s d.c s!"reject cb at pc={repr s.pc} cbs={s.cbs}"
    | _ => ret s d.c "bad-op"
  | ["flush", b] =>
    match b.toNat? with
    | some b =>
      let s1 := if s.pc == .B && s.cbs == 0 then tryStep s .endB else s
      match step s1 (.flushC b) with
      | some s' => ret s' 0 "ok"
      | none => ret s d.c s!"reject flush at pc={repr s1.pc} ub={s1.ub} b={b}"
    | none => ret s d.c "bad-op"
  | ["end"] =>
    let s1 := settle (settle s)
    if s1.pc == .Done then ret s1 2 "ok" else ret s d.c s!"reject end at pc={repr s1.pc} did={s1.did} cbs={s1.cbs} ub={s1.ub} sq={s1.sq}"
  | _ => ret s d.c "bad-op"

end Driver.Flush
