import YgmVerif.Model.ArrayOps
import YgmVerif.Model.BagOps
import Driver.Util
/-! modes `array` and `bag`: one case (a whole script) per input line, one answer line.

mode `array`:  `<len> <ranks> <default> | tok tok …`
  tokens  `s:i:v p:i:v m:i:v x:i:v d:i:v a:i:v o:i:v e:i:v A:i:v O:i:v +:i -:i v:i:k`  updates (in execution order)
          `C` copy array 0 into array 1   `N:len:dv` array 1 := a fresh array of that length   `T:n` select target   `F` dump (index:value per rank)   `V` dump values
          `Z:len[:fill]` resize   `E:form:fam:c:salt:k` for_all with the emitting callback `harnessCallback`
  answer  dumps joined by ` # `; a dump = ranks joined by `|`; `trap` as soon as an update fails.

mode `bag`:    `<ranks> | tok tok …`
  tokens  `i:src:x  t:src:x:dest  v:src:dest:x,x,..|-`   inserts (issued, pending until a barrier)
          `B:sched`  `R:ords:obs`  `L:r:x,x,..`  `G:dests:obs`  `c`  `S`  `T:n`
          obs: what every rank observed during the operation = its vector after each message it executed
               (ranks joined by a slash, snapshots by `;`, items by `,`), from which the interleaving is derived
          `D` dump bags   `K` dump rebalance plan keys (`t=count` per rank)   `g:dest:order`   `a:order`
          sched/order: `-` = identity, `@` + observed vectors = derive, else comma list; ords: `desc` | `asc` | lists joined by `/`; dests: lists joined by `/`
  answer  dumps joined by ` # `; `trap` when an operation fails.
            `tb <ranks> | i:r:x V:t:k E:t D g:t,t,.. T:n S`   two tagged bags (`T:n` selects, `S` swaps): answers tags / dumps.
-/
namespace Driver.Arr
open Driver

def splitC (s : String) (c : String) : List String := (s.splitOn c).filter (· ≠ "")

def natList? (s : String) : Option (List Nat) := if s = "-" then some [] else (splitC s ",").mapM (·.toNat?)

def u64 (n : Nat) : UInt64 := UInt64.ofNat n

/-! ### array -/
open YgmVerif.ArrayOps in
def parseOp (c : String) (v : Nat) : Option Op :=
  match c with
  | "s" => some (.set (u64 v)) | "p" => some (.plus (u64 v)) | "m" => some (.minus (u64 v))
  | "x" => some (.mult (u64 v)) | "d" => some (.div (u64 v)) | "a" => some (.band (u64 v))
  | "o" => some (.bor (u64 v)) | "e" => some (.bxor (u64 v)) | "A" => some (.land (u64 v))
  | "O" => some (.lor (u64 v)) | "+" => some .inc | "-" => some .dec | "v" => some (.visit (u64 v))
  | "w" => some (.visit (u64 v))
  | _ => none

open YgmVerif.ArrayOps in
def dumpArr (a : Arr UInt64) : String :=
  "|".intercalate ((List.range a.ranks).map (fun r =>
    " ".intercalate ((presented a r).map (fun p => s!"{p.1}:{p.2.toNat}"))))

open YgmVerif.ArrayOps in
def dumpVals (a : Arr UInt64) : String :=
  "|".intercalate ((List.range a.ranks).map (fun r =>
    " ".intercalate ((presentedValues a r).map (fun v => toString v.toNat))))

open YgmVerif.ArrayOps in
structure AState where
  a0 : Arr UInt64
  a1 : Option (Arr UInt64)
  cur : Nat
  outs : List String
  trapped : Bool

open YgmVerif.ArrayOps in
def AState.target (s : AState) : Option (Arr UInt64) := if s.cur = 0 then some s.a0 else s.a1

open YgmVerif.ArrayOps in
def AState.put (s : AState) (a : Arr UInt64) : AState := if s.cur = 0 then { s with a0 := a } else { s with a1 := some a }

open YgmVerif.ArrayOps in
def arrayTok (s : AState) (tok : String) : AState :=
  if s.trapped then s else
  match tok.splitOn ":" with
  | ["C"] => { s with a1 := some (copy s.a0) }
  | ["N", n, dv] => { s with a1 := some (fresh (n.toNat?.getD 0) s.a0.ranks (u64 (dv.toNat?.getD 0))) }
  | ["T", n] => { s with cur := n.toNat?.getD 0 }
  | ["F"] => match s.target with
    | some a => { s with outs := s.outs ++ [dumpArr a] }
    | none => { s with trapped := true }
  | ["V"] => match s.target with
    | some a => { s with outs := s.outs ++ [dumpVals a] }
    | none => { s with trapped := true }
  | ["E", _, fam, c, salt, k] =>
    let mk? : Option (UInt64 → Op) := match fam with
      | "p" => some Op.plus | "x" => some Op.mult | "a" => some Op.band | "o" => some Op.bor | "e" => some Op.bxor
      | _ => none
    match mk?, c.toNat?, salt.toNat?, k.toNat?, s.target with
    | some mk, some c, some salt, some k, some a =>
      match run a (forAllMsgs a (harnessCallback a.len mk c salt k)) with
      | some a' => s.put a'
      | none => { s with trapped := true, outs := s.outs ++ ["trap"] }
    | _, _, _, _, _ => { s with trapped := true, outs := s.outs ++ ["bad-op"] }
  | "Z" :: n :: rest => match n.toNat?, s.target with
    | some n, some a => s.put (resize a n (match rest.head?.bind (·.toNat?) with | some f => u64 f | none => a.dv))
    | _, _ => { s with trapped := true, outs := s.outs ++ ["bad-op"] }
  | c :: i :: rest =>
    match i.toNat?, parseOp c ((rest.head?.bind (·.toNat?)).getD 0), s.target with
    | some i, some op, some a =>
      match apply a (Op.msg i op) with
      | some a' => s.put a'
      | none => { s with trapped := true, outs := s.outs ++ ["trap"] }
    | _, _, _ => { s with trapped := true, outs := s.outs ++ ["bad-op"] }
  | _ => { s with trapped := true, outs := s.outs ++ ["bad-op"] }

open YgmVerif.ArrayOps in
def handleArray (line : String) : String :=
  match line.splitOn "|" with
  | [hd, script] =>
    match nats? (words hd) with
    | some [len, ranks, dv] =>
      let s0 : AState := { a0 := fresh len ranks (u64 dv), a1 := none, cur := 0, outs := [], trapped := false }
      let s := (words script).foldl arrayTok s0
      " # ".intercalate s.outs
    | _ => "bad-op"
  | _ => "bad-op"

/-! ### bag -/
open YgmVerif.BagOps

def dumpBags (bags : List (List Nat)) : String :=
  "|".intercalate (bags.map (fun l => " ".intercalate (l.map toString)))

def listsOf (s : String) : Option (List (List Nat)) := (s.splitOn "/").mapM natList?

/-- search (not part of the model): an execution order of `msgs` that explains the observed
per-rank vectors `post`, given the vectors `pre` before the messages ran.  Greedy on first items
(the generated items are distinct); whatever cannot be placed is appended in issue order, so the
answer is always a permutation and a wrong guess only shows up as a disagreement. -/
def deriveSched (pre : List (List Nat)) (msgs : List (Msg Nat)) (post : List (List Nat)) : List Nat :=
  let idx := List.range msgs.length
  let go := fun (acc : List Nat) (r : Nat) =>
    let tail0 := (post.getD r []).drop (pre.getD r []).length
    let rec loop (fuel : Nat) (tail : List Nat) (acc : List Nat) : List Nat :=
      match fuel, tail with
      | 0, _ => acc
      | _, [] => acc
      | fuel + 1, x :: _ =>
        match idx.find? (fun k => !acc.contains k && (match msgs[k]? with
            | some m => m.dest == r && m.items.head? == some x
            | none => false)) with
        | none => acc
        | some k => loop fuel (tail.drop ((msgs[k]?.map (·.items.length)).getD 1)) (acc ++ [k])
    loop (msgs.length + 1) tail0 acc
  let placed := (List.range post.length).foldl go []
  placed ++ idx.filter (fun k => !placed.contains k)

/-- a dash = identity; `@` followed by observed vectors (ranks joined by a slash) = derive; else explicit comma list -/
def schedOf (s : String) (pre : List (List Nat)) (msgs : List (Msg Nat)) : Option (List Nat) :=
  if s = "-" then some (List.range msgs.length)
  else if s.startsWith "@" then (listsOf (s.drop 1).toString).map (deriveSched pre msgs)
  else natList? s

structure BState where
  st : List (St Nat)      -- two bags
  cur : Nat
  outs : List String
  trapped : Bool

def BState.get (s : BState) : St Nat := s.st.getD s.cur { bag := empty 0, pending := [] }
def BState.put (s : BState) (x : St Nat) : BState := { s with st := s.st.set s.cur x }
def BState.fail (s : BState) (w : String) : BState := { s with trapped := true, outs := s.outs ++ [w] }
def BState.stepOp (s : BState) (o : Op Nat) : BState :=
  match step s.get o with
  | some x => s.put x
  | none => s.fail "trap"

/-- the keys of every rank's `to_send`, with counts -/
def planKeys (b : Bag Nat) : List (List (Nat × Nat)) :=
  (List.range b.ranks).map (fun r =>
    let pre := prefixOf (sizes b) r
    let sz := (b.bags.getD r []).length
    (sendKeys (total b) b.ranks pre sz r).map (fun t => (t, sendCount (total b) b.ranks pre sz r t)))

/-! interleavings of `rebalance` / `global_shuffle`: search code (not part of the model) that turns the
per-rank observations into a global event list for `Net.run`.  A wrong guess only shows as a disagreement. -/

inductive Loc where
  | pop
  | shuf (ds : List Nat)
  | rcv (first : Nat)

def commonPrefixLen : List Nat → List Nat → Nat
  | a :: as, b :: bs => if a = b then commonPrefixLen as bs + 1 else 0
  | _, _ => 0

/-- local sequence of one rank in a rebalance: vector before, sizes of its pops in order, snapshots -/
def localsR (cur : List Nat) (pops : List Nat) : List (List Nat) → List Loc
  | [] => pops.map (fun _ => Loc.pop)
  | snap :: rest =>
    let keep := commonPrefixLen snap cur
    let j := ((List.range (pops.length + 1)).find? (fun j =>
      (pops.take j).sum ≤ cur.length && cur.length - (pops.take j).sum == keep)).getD 0
    let x := ((snap.drop keep).head?).getD 0
    List.replicate j Loc.pop ++ [Loc.rcv x] ++ localsR snap (pops.drop j) rest

/-- local sequence of one rank in a global_shuffle: it drew `ds.length` ranks, so that many items were in its
vector when it swapped out; each message brings one item (the last of the snapshot) -/
def localsG (v0 : List Nat) (ds : List Nat) (snaps : List (List Nat)) : List Loc :=
  let pre := ds.length - v0.length
  let firsts := snaps.map (fun sn => sn.getLast?.getD 0)
  (firsts.take pre).map Loc.rcv ++ [Loc.shuf ds] ++ (firsts.drop pre).map Loc.rcv

def locEvent (st : Net Nat) (r : Nat) : Loc → Option Ev
  | .pop => some (.act r [])
  | .shuf ds => some (.act r ds)
  | .rcv x =>
    ((List.range st.flight.length).find? (fun k => match st.flight[k]? with
      | some m => m.dest == r && m.items.head? == some x
      | none => false)).map Ev.recv

/-- greedy merge of the local sequences into one global sequence accepted by `Net.step` -/
def mergeLocals : Nat → Net Nat → List (List Loc) → List Ev
  | 0, _, _ => []
  | fuel + 1, st, locals =>
    let cand := (List.range locals.length).findSome? (fun r =>
      match locals[r]? with
      | some (l :: rest) =>
        match locEvent st r l with
        | some e => (st.step e).map (fun st' => (e, st', locals.set r rest))
        | none => none
      | _ => none)
    match cand with
    | some (e, st', locals') => e :: mergeLocals fuel st' locals'
    | none => []

/-- observations: ranks joined by a slash, snapshots by `;`, items by `,`, a dash for none -/
def obsOf (s : String) : Option (List (List (List Nat))) :=
  (s.splitOn "/").mapM (fun r => if r = "-" then some [] else (r.splitOn ";").mapM natList?)

/-- arrival order of the ranks' vectors at `dest` that explains an observed gather result -/
def orderOf (s : String) (b : Bag Nat) (dest : Nat) : Option (List Nat) :=
  let msgs : List (Msg Nat) := (List.range b.ranks).map (fun r => { dest := dest, items := b.bags.getD r [] })
  if s.startsWith "@" then
    (natList? (s.drop 1).toString).map (fun res =>
      deriveSched (List.replicate b.ranks []) msgs ((List.range b.ranks).map (fun r => if r = dest then res else [])))
  else schedOf s [] msgs

def bagTok (s : BState) (tok : String) : BState :=
  if s.trapped then s else
  let cur := s.get
  match tok.splitOn ":" with
  | ["i", src, x] => match src.toNat?, x.toNat? with
    | some src, some x => s.stepOp (.insRR src x)
    | _, _ => s.fail "bad-op"
  | ["t", src, x, d] => match src.toNat?, x.toNat?, d.toNat? with
    | some src, some x, some d => s.stepOp (.insTo src d x)
    | _, _, _ => s.fail "bad-op"
  | ["v", src, d, xs] => match src.toNat?, d.toNat?, natList? xs with
    | some src, some d, some xs => s.stepOp (.insVec src d xs)
    | _, _, _ => s.fail "bad-op"
  | ["B", sc] => match schedOf sc cur.bag.bags cur.pending with
    | some sc => s.stepOp (.barrier sc)
    | none => s.fail "bad-op"
  | ["R", ords, obs] =>
    let keysc := planKeys cur.bag
    let keys := keysc.map (fun l => l.map (·.1))
    let ords? : Option (List (List Nat)) :=
      if ords = "asc" then some keys else if ords = "desc" then some (keys.map List.reverse) else listsOf ords
    match ords?, obsOf obs with
    | some ords, some obs =>
      let b := cur.bag
      let locals := (List.range b.ranks).map (fun r =>
        let pre := prefixOf (sizes b) r
        let sz := (b.bags.getD r []).length
        localsR (b.bags.getD r []) ((ords.getD r []).map (sendCount (total b) b.ranks pre sz r)) (obs.getD r []))
      let evs := mergeLocals (4 * (total b) + 4 * b.ranks * b.ranks + 8) (rebalanceInit b ords) locals
      s.stepOp (.rebalance ords evs)
    | _, _ => s.fail "bad-op"
  | ["L", r, new] => match r.toNat?, natList? new with
    | some r, some new => s.stepOp (.lshuffle r new)
    | _, _ => s.fail "bad-op"
  | ["G", dests, obs] =>
    match listsOf dests, obsOf obs with
    | some dests, some obs =>
      let b := cur.bag
      let locals := (List.range b.bags.length).map (fun r => localsG (b.bags.getD r []) (dests.getD r []) (obs.getD r []))
      let st0 : Net Nat := { bags := b.bags, todo := b.bags.map (fun _ => [Act.shuf]), flight := [] }
      let evs := mergeLocals (4 * (total b) + 4 * b.ranks + 8) st0 locals
      s.stepOp (.gshuffle evs)
    | _, _ => s.fail "bad-op"
  | ["c"] => s.stepOp .clear
  | ["S"] =>
    match s.st with
    | [x, y] => if x.pending.isEmpty && y.pending.isEmpty then
        let p := swap x.bag y.bag
        { s with st := [{ x with bag := p.1 }, { y with bag := p.2 }] }
      else s.fail "trap"
    | _ => s.fail "bad-op"
  | ["T", n] => { s with cur := n.toNat?.getD 0 }
  | ["D"] => { s with outs := s.outs ++ [dumpBags cur.bag.bags] }
  | ["K"] => { s with outs := s.outs ++ ["|".intercalate ((planKeys cur.bag).map (fun l =>
      " ".intercalate (l.map (fun p => s!"{p.1}={p.2}"))))] }
  | ["g", d, ord] => match d.toNat?, orderOf ord cur.bag (d.toNat?.getD 0) with
    | some d, some ord => match gatherTo cur.bag d ord with
      | some res => { s with outs := s.outs ++ [dumpBags res] }
      | none => s.fail "trap"
    | _, _ => s.fail "bad-op"
  | ["a", ord] => match orderOf ord cur.bag 0 with
    | some ord => match gatherAll cur.bag ord with
      | some res => { s with outs := s.outs ++ [dumpBags res] }
      | none => s.fail "trap"
    | none => s.fail "bad-op"
  | _ => s.fail "bad-op"

/-- tagged bag script -/
structure TState where
  tb : TBag Nat
  other : TBag Nat      -- the second tagged bag (`T:n` selects, `S` swaps)
  cur : Nat
  outs : List String

def tbTok (s : TState) (tok : String) : TState :=
  match tok.splitOn ":" with
  | ["T", n] =>
    let n := n.toNat?.getD 0
    if n = s.cur then s else { s with tb := s.other, other := s.tb, cur := n }
  | ["S"] => let p := TBag.swap s.tb s.other; { s with tb := p.1, other := p.2 }
  | ["i", r, x] => match r.toNat?, x.toNat? with
    | some r, some x => let p := s.tb.insert r x; { s with tb := p.1, outs := s.outs ++ [s!"tag {p.2}"] }
    | _, _ => { s with outs := s.outs ++ ["bad-op"] }
  | ["V", t, k] => match t.toNat?, k.toNat? with
    | some t, some k => { s with tb := s.tb.visitIfExists t (fun v => (v + k) % 2 ^ 64) }
    | _, _ => { s with outs := s.outs ++ ["bad-op"] }
  | ["E", t] => match t.toNat? with
    | some t => { s with tb := s.tb.erase t }
    | none => { s with outs := s.outs ++ ["bad-op"] }
  | ["D"] =>
    let l := s.tb.store.mergeSort (fun a b => a.1 ≤ b.1)
    { s with outs := s.outs ++ ["store " ++ " ".intercalate (l.map (fun p => s!"{p.1}:{p.2}"))] }
  | ["g", ts] => match natList? ts with
    | some ts =>
      let ts := ts.mergeSort (· ≤ ·) |>.eraseDups
      { s with outs := s.outs ++ ["get " ++ " ".intercalate (ts.flatMap (fun t => (s.tb.get t).map (fun v => s!"{t}:{v}")))] }
    | none => { s with outs := s.outs ++ ["bad-op"] }
  | _ => { s with outs := s.outs ++ ["bad-op"] }

def handleBag (line : String) : String :=
  match line.splitOn "|" with
  | [hd, script] =>
    match words hd with
    | ["tb", ranks] =>
      let s := (words script).foldl tbTok { tb := TBag.empty (ranks.toNat?.getD 0), other := TBag.empty (ranks.toNat?.getD 0),
                                            cur := 0, outs := [] }
      " # ".intercalate s.outs
    | [ranks] =>
      match ranks.toNat? with
      | some ranks =>
        let s0 : BState := { st := [{ bag := empty ranks, pending := [] }, { bag := empty ranks, pending := [] }],
                             cur := 0, outs := [], trapped := false }
        let s := (words script).foldl bagTok s0
        " # ".intercalate s.outs
      | none => "bad-op"
    | _ => "bad-op"
  | _ => "bad-op"

end Driver.Arr
