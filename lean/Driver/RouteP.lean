import YgmVerif.Model.RouterP
import Driver.Util
/-! placement-generic commands of mode `route` (`<PL>` = `block` | `cyclic`), mirroring the
block-only ones of `Driver/Route.lean`:
  `playout <PL> <N> <p> <me>`            -> `nl <node> <loc> | strided … | local … | r2n … | r2l …`
  `phops <PL> <N> <p> <me>`              -> `NONE h_0 … h_{n-1} | NR … | NLNR …`   (nextHop to every d)
  `pnexthop <SCH> <PL> <N> <p> <me> <d>` -> the next hop (one number)
  `proutes <SCH> <PL> <N> <p> <s>`       -> `r_0 | r_1 | …` route s→d for every d
  `proute <SCH> <PL> <N> <p> <s> <d>`    -> the route
  `poffhops <SCH> <PL> <N> <p> <s> <d>`  -> `a>b …` off-node hops
  `phopsleft <SCH> <PL> <N> <p> <x> <d>` -> number of sends still needed
-/
namespace Driver.RouteP
open YgmVerif.Router (Scheme)
open YgmVerif.RouterP Driver

def scheme? : String → Option Scheme
  | "NONE" => some .NONE
  | "NR" => some .NR
  | "NLNR" => some .NLNR
  | _ => none

def showPairs (l : List (Nat × Nat)) : String :=
  " ".intercalate (l.map (fun h => s!"{h.1}>{h.2}"))

/-- `none` when the line is not one of the placement-generic commands -/
def handle? (ws : List String) : Option String :=
  match ws with
  | "playout" :: pl :: rest =>
    match nats? rest with
    | some [N, p, me] =>
      match byName? pl N p with
      | some P =>
        some s!"nl {P.nodeOf me} {P.locOf me} | strided {joinNats (P.stridedTable me)} | local {joinNats (P.localTable me)} | r2n {joinNats P.rankToNode} | r2l {joinNats P.rankToLocal}"
      | none => some "bad-op"
    | _ => some "bad-op"
  | "phops" :: pl :: rest =>
    match nats? rest with
    | some [N, p, me] =>
      match byName? pl N p with
      | some P =>
        let tab := fun sch => joinNats ((List.range P.size).map (P.nextHop sch me))
        some s!"NONE {tab .NONE} | NR {tab .NR} | NLNR {tab .NLNR}"
      | none => some "bad-op"
    | _ => some "bad-op"
  | "pnexthop" :: sch :: pl :: rest =>
    match scheme? sch, nats? rest with
    | some sc, some [N, p, me, d] =>
      match byName? pl N p with
      | some P => some (toString (P.nextHop sc me d))
      | none => some "bad-op"
    | _, _ => some "bad-op"
  | "proutes" :: sch :: pl :: rest =>
    match scheme? sch, nats? rest with
    | some sc, some [N, p, s] =>
      match byName? pl N p with
      | some P => some (" | ".intercalate ((List.range P.size).map (fun d => joinNats (P.route sc s d))))
      | none => some "bad-op"
    | _, _ => some "bad-op"
  | "proute" :: sch :: pl :: rest =>
    match scheme? sch, nats? rest with
    | some sc, some [N, p, s, d] =>
      match byName? pl N p with
      | some P => some (joinNats (P.route sc s d))
      | none => some "bad-op"
    | _, _ => some "bad-op"
  | "poffhops" :: sch :: pl :: rest =>
    match scheme? sch, nats? rest with
    | some sc, some [N, p, s, d] =>
      match byName? pl N p with
      | some P => some (showPairs (P.offHops sc s d))
      | none => some "bad-op"
    | _, _ => some "bad-op"
  | "phopsleft" :: sch :: pl :: rest =>
    match scheme? sch, nats? rest with
    | some sc, some [N, p, x, d] =>
      match byName? pl N p with
      | some P => some (toString (P.hopsLeft sc x d))
      | none => some "bad-op"
    | _, _ => some "bad-op"
  | _ => none

end Driver.RouteP
