import YgmVerif.Model.MapOps
import YgmVerif.Model.SetOps
import Driver.Util
/-! modes `map` and `set`: run `MapOps.apply` / `SetOps.apply` (through `Dist.run`) on operation
sequences, search for a sequential order that explains an observed outcome, answer queries.

Fields of a line are separated by `|`, items inside a field by `;`, tokens by blanks.  Every key,
value and argument is a token `=<text>` (so the empty string is `=`).

mode `map` (kinds = key kind + value kind, each `s` (string) or `i` (int64), e.g. `ss`, `is`, `si`):
  `run|kinds|=dflt|state|ops`                     -> `state|emitted|cbs`
  `explain|kinds|=dflt|state|ops|state'|cbs'`     -> `ok i j …|emitted`  or  `none`
       (a permutation of `ops` whose execution from `state` ends in exactly `state'` and logs exactly `cbs'`;
        an op item may start with `@<source>`: items of one source keep their listed order — per-sender FIFO)
  `q|kinds|state|size` / `count =k` / `gatheru =k…` / `gatherm =k…` / `topk n`  -> answer
  state: `=k =v;…`   ops: `ins =k =v` `insm =k =v` `iim =k =v` `vis =k n =a` `visg =k n =a`
  `vie =k n =a` `iev =k =v n =a` `red =k =v n` `era =k`
  cbs: `s n =k =v =a` `o n =k =v =new =a` `g n =k =a =v…`
mode `set` (kind `s` or `i`):
  `run|kind|state|ops` -> `state|emitted|cbs`;  `explain|kind|state|ops|state'|cbs'`;
  `consume|kind|vis|state` -> `state|cbs` (consume_all with producing callbacks, to exhaustion)
  `q|kind|state|size` / `count =k`
  state: `=k;…`  ops: `ins =k` `insm =k` `era =k` `ieim =k n =a` `ieic =k n =a` `eim =k n =a`
  `eic =k n =a` `pop =k n`   cbs: `x n =k =a` `c n =k`
-/
namespace Driver.MapSet
open YgmVerif Driver

def unq (t : String) : Option String := if t.startsWith "=" then some (t.drop 1).toString else none
def q (s : String) : String := "=" ++ s
def fields (line : String) : List String := (line.trimAscii.toString.splitOn "|")
def items (f : String) : List (List String) := ((f.splitOn ";").map words).filter (· ≠ [])
def joinItems (xs : List String) : String := ";".intercalate xs

def modulus : Nat := 1000003
def toN (s : String) : Nat := (s.toInt?.getD 0).toNat
def ofN (n : Nat) : String := toString (n % modulus)
/-- value kind `u` (uint64_t): arithmetic wraps modulo 2^64 -/
def ofU (n : Nat) : String := toString (n % 18446744073709551616)

/-- derived key a callback addresses -/
def dk (kkind : Char) (k : String) : String :=
  if kkind = 'i' then toString (k.toInt?.getD 0 + 1000000)
  else if kkind = 'u' then ofU (toN k + 1000000)
  else k ++ "~"

def smax (a b : String) : String := if a < b then b else a
def smin (a b : String) : String := if b < a then b else a

/-! the concrete user lambdas the harness (harness/mapset.cpp) registers — same table there -/
def mapUser (kk vk : Char) : MapOps.User String String String :=
  if vk = 'i' || vk = 'u' then
    let ofN := if vk = 'u' then ofU else ofN
    { visitor := fun vis k v a => match vis with
        | 1 => (ofN (3 * toN v + toN a), [])
        | 2 => (v, [.reduce (dk kk k) v 1])
        | 3 => (ofN (toN a + 7 * toN v), [.visit (dk kk k) 1 a])
        | 4 => (v, [.insertMulti (dk kk k) v])
        | _ => (v, [])
      visitor2 := fun vis k v n a => match vis with
        | 1 => (ofN (5 * toN v + 3 * toN n + toN a), [])
        | 2 => (v, [.reduce (dk kk k) n 1])
        | _ => (v, [])
      visitorG := fun vis k vs a => match vis with
        | 1 => (vs.map (fun v => ofN (toN v + toN a)), [])
        | 4 => (vs, [.insertMulti (dk kk k) (ofN ((vs.map toN).sum))])
        | 5 => (vs.reverse, [])
        | _ => (vs, [])
      reducer := fun rop x y => match rop with
        | 0 => ofN (2 * toN x + toN y)
        | 1 => if toN x < toN y then y else x
        | _ => ofN (toN x + toN y) }
  else
    { visitor := fun vis k v a => match vis with
        | 1 => (v ++ a, [])
        | 2 => (v, [.reduce (dk kk k) v 1])
        | 3 => (a ++ v, [.visit (dk kk k) 1 a])
        | 4 => (v, [.insertMulti (dk kk k) v])
        | _ => (v, [])
      visitor2 := fun vis k v n a => match vis with
        | 1 => (v ++ n ++ a, [])
        | 2 => (v, [.reduce (dk kk k) n 1])
        | _ => (v, [])
      visitorG := fun vis k vs a => match vis with
        | 1 => (vs.map (· ++ a), [])
        | 4 => (vs, [.insertMulti (dk kk k) (String.join vs)])
        | 5 => (vs.reverse, [])
        | _ => (vs, [])
      reducer := fun rop x y => match rop with
        | 0 => x ++ y
        | 1 => smax x y
        | _ => smin x y }

def setUser (kk : Char) : SetOps.User String String :=
  { exe := fun vis k a => match vis with
      | 2 => [.insert (dk kk k)]
      | 3 => [.insertExeIfMissing (dk kk k) 0 a]
      | _ => []
    consume := fun vis k => match vis with
      -- producers: two generations of fresh keys
      | 1 => if kk = 'i' then (if (k.toInt?.getD 0) < 5000000 then [.insert (toString (k.toInt?.getD 0 + 3000000))] else [])
             else if kk = 'u' then (if toN k % 4 < 2 then [.insert (ofU (toN k + 1))] else [])
             else (if k.endsWith "^^" then [] else [.insert (k ++ "^")])
      | 6 => if kk = 'i' then (if (k.toInt?.getD 0) < 5000000 then [.insertMulti (toString (k.toInt?.getD 0 + 3000000))] else [])
             else if kk = 'u' then (if toN k % 4 < 2 then [.insertMulti (ofU (toN k + 1))] else [])
             else (if k.endsWith "^^" then [] else [.insertMulti (k ++ "^")])
      | _ => [] }

/-! parsing / printing -/
def parsePairs (f : String) : Option (MapOps.Assoc String String) :=
  (items f).mapM (fun ws => match ws with
    | [k, v] => do pure ((← unq k), (← unq v))
    | _ => none)
def showPairs (m : List (String × String)) : String :=
  joinItems (m.map (fun p => s!"{q p.1} {q p.2}"))

def parseMapOp (ws : List String) : Option (MapOps.Op String String String) :=
  match ws with
  | ["ins", k, v] => do pure (.insert (← unq k) (← unq v))
  | ["insm", k, v] => do pure (.insertMulti (← unq k) (← unq v))
  | ["iim", k, v] => do pure (.insertIfMissing (← unq k) (← unq v))
  | ["vis", k, n, a] => do pure (.visit (← unq k) (← n.toNat?) (← unq a))
  | ["visg", k, n, a] => do pure (.visitGroup (← unq k) (← n.toNat?) (← unq a))
  | ["vie", k, n, a] => do pure (.visitIfExists (← unq k) (← n.toNat?) (← unq a))
  | ["iev", k, v, n, a] => do pure (.elseVisit (← unq k) (← unq v) (← n.toNat?) (← unq a))
  | ["red", k, v, n] => do pure (.reduce (← unq k) (← unq v) (← n.toNat?))
  | ["era", k] => do pure (.erase (← unq k))
  | _ => none
def showMapOp : MapOps.Op String String String → String
  | .insert k v => s!"ins {q k} {q v}"
  | .insertMulti k v => s!"insm {q k} {q v}"
  | .insertIfMissing k v => s!"iim {q k} {q v}"
  | .visit k n a => s!"vis {q k} {n} {q a}"
  | .visitGroup k n a => s!"visg {q k} {n} {q a}"
  | .visitIfExists k n a => s!"vie {q k} {n} {q a}"
  | .elseVisit k v n a => s!"iev {q k} {q v} {n} {q a}"
  | .reduce k v n => s!"red {q k} {q v} {n}"
  | .erase k => s!"era {q k}"
def parseMapCb (ws : List String) : Option (MapOps.Cb String String String) :=
  match ws with
  | ["s", n, k, v, a] => do pure (.single (← n.toNat?) (← unq k) (← unq v) (← unq a))
  | ["o", n, k, v, nw, a] => do pure (.offered (← n.toNat?) (← unq k) (← unq v) (← unq nw) (← unq a))
  | "g" :: n :: k :: a :: vs => do pure (.group (← n.toNat?) (← unq k) (← vs.mapM unq) (← unq a))
  | _ => none
def showMapCb : MapOps.Cb String String String → String
  | .single n k v a => s!"s {n} {q k} {q v} {q a}"
  | .offered n k v nw a => s!"o {n} {q k} {q v} {q nw} {q a}"
  | .group n k vs a => " ".intercalate (["g", toString n, q k, q a] ++ vs.map q)

def kindsOf (s : String) : Char × Char :=
  match s.toList with
  | [a, b] => (a, b)
  | [a] => (a, 's')
  | _ => ('s', 's')

/-- all orders of `xs` (with the positions chosen), depth first -/
def pickEach {α : Type} : List α → List (α × List α)
  | [] => []
  | x :: r => (x, r) :: (pickEach r).map (fun p => (p.1, x :: p.2))

/-- an item of `explain` may start with `@<source>`: operations with the same source (one issuing rank, in program
order) reach an owner in that order (per-sender FIFO of the messaging layer), so only interleavings that keep the
listed order within every source are searched.  No tag = unconstrained. -/
def splitSrc (ws : List String) : String × List String :=
  match ws with
  | w :: r => if w.startsWith "@" then (w, r) else ("", ws)
  | [] => ("", [])

/-- choices for the next operation: the first remaining one of every source (and every untagged one) -/
def pickFifo {α : Type} : List (String × α) → List String → List ((String × α) × List (String × α))
  | [], _ => []
  | x :: r, seen =>
    let tl := (pickFifo r (if x.1 = "" then seen else x.1 :: seen)).map (fun p => (p.1, x :: p.2))
    if x.1 ≠ "" && seen.contains x.1 then tl else (x, r) :: tl

def searchOrder {σ Op Cb : Type} (c : Dist.Container σ Op Cb) (good : Dist.Out σ Op Cb → Bool) :
    Nat → σ → List (String × Nat × Op) → List Nat → List Op → List Cb → Option (List Nat × List Op)
  | 0, _, _, _, _, _ => none
  | fuel + 1, s, rest, chosen, em, cbs =>
    match rest with
    | [] => if good ⟨s, em, cbs⟩ then some (chosen.reverse, em) else none
    | _ =>
      (pickFifo rest []).firstM (fun p =>
        let r := c.apply s p.1.2.2
        searchOrder c good fuel r.1 p.2 (p.1.2.1 :: chosen) (em ++ r.2.1) (cbs ++ r.2.2))

def tagOps {Op : Type} (srcs : List String) (os : List Op) : List (String × Nat × Op) :=
  (srcs.zip ((List.range os.length).zip os))

def keyLe (kind : Char) (a b : String) : Bool :=
  if kind = 'i' || kind = 'u' then decide (a.toInt?.getD 0 ≤ b.toInt?.getD 0) else decide (a ≤ b)
def keyLt (kind : Char) (a b : String) : Bool :=
  if kind = 'i' || kind = 'u' then decide (a.toInt?.getD 0 < b.toInt?.getD 0) else decide (a < b)

/-- comparator the harness passes to `topk`: larger value first, ties by smaller key -/
def topkLe (kk vk : Char) (a b : String × String) : Bool :=
  keyLt vk b.2 a.2 || (a.2 == b.2 && keyLe kk a.1 b.1)

def handleMap (line : String) : String :=
  match fields line with
  | ["run", kinds, d, st, ops] =>
    match unq d, parsePairs st, (items ops).mapM parseMapOp with
    | some d, some m, some os =>
      let (kk, vk) := kindsOf kinds
      let o := Dist.run (MapOps.container (mapUser kk vk) d) m os
      s!"{showPairs o.state}|{joinItems (o.emitted.map showMapOp)}|{joinItems (o.cbs.map showMapCb)}"
    | _, _, _ => "bad-op"
  | ["explain", kinds, d, st, ops, st', cbs'] =>
    let its := (items ops).map splitSrc
    match unq d, parsePairs st, (its.map (·.2)).mapM parseMapOp, parsePairs st', (items cbs').mapM parseMapCb with
    | some d, some m, some os, some m', some cs =>
      let (kk, vk) := kindsOf kinds
      let c := MapOps.container (mapUser kk vk) d
      let good := fun (o : Dist.Out _ _ _) => decide (o.state = m') && decide (o.cbs = cs)
      match searchOrder c good (os.length + 1) m (tagOps (its.map (·.1)) os) [] [] [] with
      | some (ord, em) => s!"ok {joinNats ord}|{joinItems (em.map showMapOp)}"
      | none => "none"
    | _, _, _, _, _ => "bad-op"
  | ["q", kinds, st, qy] =>
    match parsePairs st with
    | some m =>
      let (kk, vk) := kindsOf kinds
      match words qy with
      | ["size"] => toString (MapOps.size m)
      | ["count", k] => match unq k with
        | some k => toString (MapOps.count m k)
        | none => "bad-op"
      | "gatheru" :: ks => match ks.mapM unq with
        | some ks => showPairs (MapOps.allGatherMap m ks)
        | none => "bad-op"
      | "gatherm" :: ks => match ks.mapM unq with
        | some ks => showPairs (MapOps.allGatherMulti m ks)
        | none => "bad-op"
      | ["topk", n] => match n.toNat? with
        | some n => showPairs (MapOps.topk n (topkLe kk vk) m)
        | none => "bad-op"
      | ["forall"] => showPairs (MapOps.forAll m)
      | ["clear"] => showPairs (MapOps.clear m)
      | _ => "bad-op"
    | none => "bad-op"
  | _ => "bad-op"

/-! set -/
def parseKeys (f : String) : Option (List String) :=
  (items f).mapM (fun ws => match ws with
    | [k] => unq k
    | _ => none)
def showKeys (s : List String) : String := joinItems (s.map q)
def parseSetOp (ws : List String) : Option (SetOps.Op String String) :=
  match ws with
  | ["ins", k] => do pure (.insert (← unq k))
  | ["insm", k] => do pure (.insertMulti (← unq k))
  | ["era", k] => do pure (.erase (← unq k))
  | ["ieim", k, n, a] => do pure (.insertExeIfMissing (← unq k) (← n.toNat?) (← unq a))
  | ["ieic", k, n, a] => do pure (.insertExeIfContains (← unq k) (← n.toNat?) (← unq a))
  | ["eim", k, n, a] => do pure (.exeIfMissing (← unq k) (← n.toNat?) (← unq a))
  | ["eic", k, n, a] => do pure (.exeIfContains (← unq k) (← n.toNat?) (← unq a))
  | ["pop", k, n] => do pure (.pop (← unq k) (← n.toNat?))
  | _ => none
def showSetOp : SetOps.Op String String → String
  | .insert k => s!"ins {q k}"
  | .insertMulti k => s!"insm {q k}"
  | .erase k => s!"era {q k}"
  | .insertExeIfMissing k n a => s!"ieim {q k} {n} {q a}"
  | .insertExeIfContains k n a => s!"ieic {q k} {n} {q a}"
  | .exeIfMissing k n a => s!"eim {q k} {n} {q a}"
  | .exeIfContains k n a => s!"eic {q k} {n} {q a}"
  | .pop k n => s!"pop {q k} {n}"
def parseSetCb (ws : List String) : Option (SetOps.Cb String String) :=
  match ws with
  | ["x", n, k, a] => do pure (.exe (← n.toNat?) (← unq k) (← unq a))
  | ["c", n, k] => do pure (.consumed (← n.toNat?) (← unq k))
  | _ => none
def showSetCb : SetOps.Cb String String → String
  | .exe n k a => s!"x {n} {q k} {q a}"
  | .consumed n k => s!"c {n} {q k}"

def sortKeys (s : List String) : List String := s.mergeSort (fun a b => decide (a ≤ b))

def handleSet (line : String) : String :=
  match fields line with
  | ["run", kind, st, ops] =>
    match parseKeys st, (items ops).mapM parseSetOp with
    | some s, some os =>
      let o := Dist.run (SetOps.container (setUser (kindsOf kind).1)) s os
      s!"{showKeys o.state}|{joinItems (o.emitted.map showSetOp)}|{joinItems (o.cbs.map showSetCb)}"
    | _, _ => "bad-op"
  | ["explain", kind, st, ops, st', cbs'] =>
    let its := (items ops).map splitSrc
    match parseKeys st, (its.map (·.2)).mapM parseSetOp, parseKeys st', (items cbs').mapM parseSetCb with
    | some s, some os, some s', some cs =>
      let c := SetOps.container (setUser (kindsOf kind).1)
      let tgt := sortKeys s'
      let good := fun (o : Dist.Out _ _ _) => decide (sortKeys o.state = tgt) && decide (o.cbs = cs)
      match searchOrder c good (os.length + 1) s (tagOps (its.map (·.1)) os) [] [] [] with
      | some (ord, em) => s!"ok {joinNats ord}|{joinItems (em.map showSetOp)}"
      | none => "none"
    | _, _, _, _ => "bad-op"
  | ["consume", kind, vis, st] =>
    match vis.trimAscii.toString.toNat?, parseKeys st with
    | some vis, some s =>
      let u := setUser (kindsOf kind).1
      let r := SetOps.consumeIter u vis (4 * s.length + 8) s []
      s!"{showKeys r.1}|{joinItems (r.2.map showSetCb)}"
    | _, _ => "bad-op"
  | ["consumeq", kind, vis, st] =>
    match vis.trimAscii.toString.toNat?, parseKeys st with
    | some vis, some s =>
      let o := SetOps.consumeAll (setUser (kindsOf kind).1) vis s
      s!"{showKeys o.state}|{joinItems (o.emitted.map showSetOp)}|{joinItems (o.cbs.map showSetCb)}"
    | _, _ => "bad-op"
  | ["q", _, st, qy] =>
    match parseKeys st with
    | some s =>
      match words qy with
      | ["size"] => toString (SetOps.size s)
      | ["count", k] => match unq k with
        | some k => toString (SetOps.count s k)
        | none => "bad-op"
      | ["forall"] => showKeys (SetOps.forAll s)
      | _ => "bad-op"
    | none => "bad-op"
  | _ => "bad-op"

end Driver.MapSet
