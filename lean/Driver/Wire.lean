import YgmVerif.Model.Wire
import Driver.Util
/-! mode `wire`: the executable definitions of `YgmVerif.Wire` behind a line protocol.

Type description (prefix tokens):
  `u8 u16 u32 u64 i8 i16 i32 i64 bool f32 f64 str ptr json unit | op K | vec T | set T | map K V |
   pair A B | tup N T1 .. TN`
Value description (tokens, directed by the type; the same token stream is what `emit` prints):
  numbers in decimal (floats by bit pattern), bool `0|1`, strings / raw bytes `x<hex>`,
  containers `n e1 .. en` (map elements `k v`), pair/tuple members back to back,
  json `kind payload` with kinds `0 null | 1 b | 2 int | 3 uint | 4 bits | 5 x<hex> | 6 n v.. | 7 n (x<key> v)..`

Operations (one answer line each):
  `ser <ty> | <val>`                      -> `x<hex of ser v> <1 if des t (ser v ++ [0xab]) = (v,[0xab])>`
  `tbl <lid> <k> | N T1..TN`              -> `ok`      (registers what handler `lid` reads)
  `enc <routed> <bcast> <dest> <lid> x<fn> | N T1..TN | <vals>`
                                          -> `x<hex of asyncAppend/queueAppend on []> <1 if = encodeMsg>`
  `parse <routed> <me> x<hex>`            -> items `E size dest lid x<fn> <vals>` / `F size dest x<forwardCopy [] ..>`
                                             joined by ` ; `, or `none`
  `hop <me> x<hex>`                       -> `x<hex of everything re-buffered>` or `none`
-/
namespace Driver.Wire
open YgmVerif.Wire Driver

def hexDigit (n : Nat) : Char := if n < 10 then Char.ofNat (48 + n) else Char.ofNat (87 + n)

def hex (bs : Bytes) : String :=
  bs.foldl (fun s b => (s.push (hexDigit (b.toNat / 16))).push (hexDigit (b.toNat % 16))) "x"

def hexVal (c : Char) : Option Nat :=
  let n := c.toNat
  if 48 ≤ n ∧ n ≤ 57 then some (n - 48)
  else if 97 ≤ n ∧ n ≤ 102 then some (n - 87)
  else if 65 ≤ n ∧ n ≤ 70 then some (n - 55)
  else none

/-- `x<hex>` -> bytes -/
def unhex (s : String) : Option Bytes :=
  if !s.startsWith "x" then none else
  let st := (s.drop 1).foldl (fun (st : Option Nat × Bytes × Bool) c =>
    match st with
    | (_, _, false) => st
    | (pend, acc, true) =>
      match hexVal c with
      | none => (none, [], false)
      | some v =>
        match pend with
        | none => (some v, acc, true)
        | some hi => (none, UInt8.ofNat (16 * hi + v) :: acc, true)) ((none : Option Nat), ([] : Bytes), true)
  match st with
  | (none, acc, true) => some acc.reverse
  | _ => none

partial def parseTy : List String → Option (Ty × List String)
  | [] => none
  | t :: r =>
    match t with
    | "u8" => some (.u 1, r) | "u16" => some (.u 2, r) | "u32" => some (.u 4, r) | "u64" => some (.u 8, r)
    | "i8" => some (.i 1, r) | "i16" => some (.i 2, r) | "i32" => some (.i 4, r) | "i64" => some (.i 8, r)
    | "bool" => some (.bool, r) | "f32" => some (.f32, r) | "f64" => some (.f64, r)
    | "str" => some (.str, r) | "ptr" => some (.ptr, r) | "json" => some (.json, r) | "unit" => some (.unit, r)
    | "op" => match r with
      | k :: r' => k.toNat?.map fun n => (.raw n, r')
      | [] => none
    | "vec" => (parseTy r).map fun (a, r') => (.vec a, r')
    | "set" => (parseTy r).map fun (a, r') => (.set a, r')
    | "map" => match parseTy r with
      | some (a, r1) => (parseTy r1).map fun (b, r2) => (.map a b, r2)
      | none => none
    | "pair" => match parseTy r with
      | some (a, r1) => (parseTy r1).map fun (b, r2) => (.pair a b, r2)
      | none => none
    | "tup" => match r with
      | k :: r' => match k.toNat? with
        | some n => (parseTys n r' []).map fun (ts, r2) => (Ty.tuple ts, r2)
        | none => none
      | [] => none
    | _ => none
where
  parseTys : Nat → List String → List Ty → Option (List Ty × List String)
    | 0, r, acc => some (acc.reverse, r)
    | n+1, r, acc => match parseTy r with
      | some (t, r') => parseTys n r' (t :: acc)
      | none => none

/-- `N T1 .. TN` -/
def parseTyList (ws : List String) : Option (List Ty × List String) :=
  match ws with
  | k :: r => match k.toNat? with
    | some n => parseTy.parseTys n r []
    | none => none
  | [] => none

def loopN {α : Type} (f : List String → Option (α × List String)) : Nat → List String → List α → Option (List α × List String)
  | 0, r, acc => some (acc.reverse, r)
  | n+1, r, acc => match f r with
    | some (v, r') => loopN f n r' (v :: acc)
    | none => none

def tokNat (ws : List String) : Option (Nat × List String) :=
  match ws with
  | w :: r => w.toNat?.map fun n => (n, r)
  | [] => none

def tokBytes (ws : List String) : Option (Bytes × List String) :=
  match ws with
  | w :: r => (unhex w).map fun b => (b, r)
  | [] => none

def tokBool (ws : List String) : Option (Val × List String) :=
  match ws with
  | "0" :: r => some (.bool false, r)
  | "1" :: r => some (.bool true, r)
  | _ => none

def tokInt (k : Nat) (ws : List String) : Option (Val × List String) :=
  match ws with
  | w :: r => w.toInt?.map fun z => (.i k z, r)
  | [] => none

partial def parseJson (ws : List String) : Option (Val × List String) :=
  match tokNat ws with
  | none => none
  | some (tag, r) =>
    let payload : Option (Val × List String) :=
      match tag with
      | 0 => some (.unit, r)
      | 1 => tokBool r
      | 2 => tokInt 8 r
      | 3 => (tokNat r).map fun (n, r') => (.u 8 n, r')
      | 4 => (tokNat r).map fun (n, r') => (.f 8 n, r')
      | 5 => (tokBytes r).map fun (b, r') => (.str b, r')
      | 6 => match tokNat r with
        | some (n, r') => (loopN parseJson n r' []).map fun (vs, r2) => (.seq vs, r2)
        | none => none
      | 7 => match tokNat r with
        | some (n, r') =>
          (loopN (fun ws => match tokBytes ws with
            | some (key, r1) => (parseJson r1).map fun (j, r2) => (Val.pair (.str key) j, r2)
            | none => none) n r' []).map fun (vs, r2) => (.seq vs, r2)
        | none => none
      | _ => none
    payload.map fun (p, r') => (.pair (.u 1 tag) p, r')

def parseVal : Ty → List String → Option (Val × List String)
  | .unit, ws => some (.unit, ws)
  | .u k, ws => (tokNat ws).map fun (n, r) => (.u k n, r)
  | .i k, ws => tokInt k ws
  | .bool, ws => tokBool ws
  | .f32, ws => (tokNat ws).map fun (n, r) => (.f 4 n, r)
  | .f64, ws => (tokNat ws).map fun (n, r) => (.f 8 n, r)
  | .str, ws => (tokBytes ws).map fun (b, r) => (.str b, r)
  | .vec t, ws => match tokNat ws with
    | some (n, r) => (loopN (parseVal t) n r []).map fun (vs, r') => (.seq vs, r')
    | none => none
  | .set t, ws => match tokNat ws with
    | some (n, r) => (loopN (parseVal t) n r []).map fun (vs, r') => (.seq vs, r')
    | none => none
  | .map k v, ws => match tokNat ws with
    | some (n, r) =>
      (loopN (fun ws => match parseVal k ws with
        | some (a, r1) => (parseVal v r1).map fun (b, r2) => (Val.pair a b, r2)
        | none => none) n r []).map fun (vs, r') => (.seq vs, r')
    | none => none
  | .pair a b, ws => match parseVal a ws with
    | some (x, r1) => (parseVal b r1).map fun (y, r2) => (.pair x y, r2)
    | none => none
  | .ptr, ws => (tokNat ws).map fun (n, r) => (.ptr n, r)
  | .raw _, ws => (tokBytes ws).map fun (b, r) => (.raw b, r)
  | .json, ws => parseJson ws

def parseVals : List Ty → List String → Option (List Val × List String)
  | [], ws => some ([], ws)
  | t :: ts, ws => match parseVal t ws with
    | some (v, r) => (parseVals ts r).map fun (vs, r') => (v :: vs, r')
    | none => none

/-! tokens of a value, pushed on a reversed accumulator -/
mutual
def emit : Val → List String → List String
  | .unit, acc => acc
  | .u _ n, acc => toString n :: acc
  | .i _ z, acc => toString z :: acc
  | .bool b, acc => (if b then "1" else "0") :: acc
  | .f _ n, acc => toString n :: acc
  | .str bs, acc => hex bs :: acc
  | .seq vs, acc => emitList vs (toString vs.length :: acc)
  | .pair a b, acc => emit b (emit a acc)
  | .ptr n, acc => toString n :: acc
  | .raw bs, acc => hex bs :: acc
def emitList : List Val → List String → List String
  | [], acc => acc
  | v :: vs, acc => emitList vs (emit v acc)
end

def showVals (vs : List Val) : String := " ".intercalate (emitList vs []).reverse

mutual
def beq : Val → Val → Bool
  | .unit, .unit => true
  | .u k n, .u k' n' => k == k' && n == n'
  | .i k z, .i k' z' => k == k' && z == z'
  | .bool b, .bool b' => b == b'
  | .f k n, .f k' n' => k == k' && n == n'
  | .str a, .str b => a == b
  | .seq a, .seq b => beqList a b
  | .pair a b, .pair a' b' => beq a a' && beq b b'
  | .ptr n, .ptr n' => n == n'
  | .raw a, .raw b => a == b
  | _, _ => false
def beqList : List Val → List Val → Bool
  | [], [] => true
  | a :: as, b :: bs => beq a b && beqList as bs
  | _, _ => false
end

/-- split the words of a line at the `|` tokens -/
def sections (ws : List String) : List (List String) :=
  let (cur, done) := ws.foldl (fun (st : List String × List (List String)) w =>
    if w == "|" then ([], st.1.reverse :: st.2) else (w :: st.1, st.2)) ([], [])
  (cur.reverse :: done).reverse

abbrev TblState := List (Nat × Nat × List Ty)

def lookup (st : TblState) : Table := fun lid =>
  match st.find? (fun e => e.1 == lid) with
  | some (_, k, tys) => some (k, tys)
  | none => none

def showItem : Item → String
  | .exec size dest lid fn args =>
    let a := showVals args
    s!"E {size} {dest} {lid} {hex fn}" ++ (if a.isEmpty then "" else " " ++ a)
  | .fwd size dest payload => s!"F {size} {dest} {hex (forwardCopy [] size dest payload)}"

def flag (b : Bool) : String := if b then "1" else "0"

def handle (st : TblState) (line : String) : TblState × String :=
  match sections (words line) with
  | [("ser" :: tyw), valw] =>
    match parseTy tyw with
    | some (t, []) =>
      match parseVal t valw with
      | some (v, []) =>
        let bs := ser v
        let ok := match des t (bs ++ [0xab]) with
          | some (v', [r]) => beq v v' && r == 0xab
          | _ => false
        (st, s!"{hex bs} {flag ok}")
      | _ => (st, "bad-val")
    | _ => (st, "bad-ty")
  | [["tbl", lid, k], tysw] =>
    match lid.toNat?, k.toNat?, parseTyList tysw with
    | some l, some kk, some (tys, []) => ((l, kk, tys) :: st, "ok")
    | _, _, _ => (st, "bad-op")
  | [["enc", routed, bcast, dest, lid, fnh], tysw, valw] =>
    match dest.toNat?, lid.toNat?, unhex fnh, parseTyList tysw with
    | some d, some l, some fn, some (tys, []) =>
      match parseVals tys valw with
      | some (args, []) =>
        let m : Msg := { bcast := bcast == "1", dest := d, lid := l, fn := fn, args := args }
        let r := routed == "1"
        let built := buildOne r m
        (st, s!"{hex built} {flag (built == encodeMsg r m)}")
      | _ => (st, "bad-val")
    | _, _, _, _ => (st, "bad-op")
  | [["parse", routed, me, h]] =>
    match me.toInt?, unhex h with
    | some meI, some bs =>
      match parseBuffer (routed == "1") (lookup st) meI bs with
      | some items => (st, " ; ".intercalate (items.map showItem))
      | none => (st, "none")
    | _, _ => (st, "bad-op")
  | [["hop", me, h]] =>
    match me.toInt?, unhex h with
    | some meI, some bs =>
      match hopBytes (lookup st) meI bs with
      | some out => (st, hex out)
      | none => (st, "none")
    | _, _ => (st, "bad-op")
  | _ => (st, "bad-op")
where
  /-- the mechanism the code uses to put one message into an empty send buffer -/
  buildOne (routed : Bool) (m : Msg) : Bytes :=
    if m.bcast then queueAppend routed [] m else asyncAppend routed [] m

end Driver.Wire
