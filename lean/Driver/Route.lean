import YgmVerif.Model.Router
import YgmVerif.Model.Bcast
import Driver.Util
/-! mode `route`: layout tables, next-hop tables, routes, broadcast legs.
  `layout <N> <p> <me>`      -> `nl <node> <loc> | strided … | local … | r2n … | r2l …`
  `hops <N> <p> <me>`        -> `NONE h_0 … h_{n-1} | NR … | NLNR …`     (nextHop to every d)
  `routes <SCH> <N> <p> <s>` -> `r_0 | r_1 | …` route s→d for every d (ranks separated by blanks)
  `route <SCH> <N> <p> <s> <d>` -> the route
  `offhops <SCH> <N> <p> <s> <d>` -> `a>b …` off-node hops
  `bcast <N> <p> <o>`        -> `legs s>d:k … | exec r …`
  `mcast <src> <d_1> … <d_k>` -> `exec d_1 … d_k`
-/
namespace Driver.Route
open YgmVerif.Router YgmVerif.Bcast Driver

def scheme? : String → Option Scheme
  | "NONE" => some .NONE
  | "NR" => some .NR
  | "NLNR" => some .NLNR
  | _ => none

def showPairs (l : List (Nat × Nat)) : String :=
  " ".intercalate (l.map (fun h => s!"{h.1}>{h.2}"))

def handle (line : String) : String :=
  match words line with
  | "layout" :: rest =>
    match nats? rest with
    | some [N, p, me] =>
      s!"nl {node p me} {loc p me} | strided {joinNats (stridedTable N p me)} | local {joinNats (localTable p me)} | r2n {joinNats (rankToNode N p)} | r2l {joinNats (rankToLocal N p)}"
    | _ => "bad-op"
  | "hops" :: rest =>
    match nats? rest with
    | some [N, p, me] =>
      let tab := fun sch => joinNats ((List.range (N * p)).map (nextHop sch p me))
      s!"NONE {tab .NONE} | NR {tab .NR} | NLNR {tab .NLNR}"
    | _ => "bad-op"
  | "routes" :: sch :: rest =>
    match scheme? sch, nats? rest with
    | some sc, some [N, p, s] =>
      " | ".intercalate ((List.range (N * p)).map (fun d => joinNats (route sc p s d)))
    | _, _ => "bad-op"
  | "route" :: sch :: rest =>
    match scheme? sch, nats? rest with
    | some sc, some [_, p, s, d] => joinNats (route sc p s d)
    | _, _ => "bad-op"
  | "offhops" :: sch :: rest =>
    match scheme? sch, nats? rest with
    | some sc, some [_, p, s, d] => showPairs (offHops sc p s d)
    | _, _ => "bad-op"
  | "bcast" :: rest =>
    match nats? rest with
    | some [N, p, o] =>
      let legs := (bcastLegs N p o).map (fun g => s!"{g.src}>{g.dst}:{g.stage}")
      s!"legs {" ".intercalate legs} | exec {joinNats (bcastExec N p o)}"
    | _ => "bad-op"
  | "mcast" :: rest =>
    match nats? rest with
    | some (src :: dests) => s!"exec {joinNats (mcastExec src dests)}"
    | _ => "bad-op"
  | _ => "bad-op"

end Driver.Route
