import YgmVerif.Model.Router
import YgmVerif.Model.Bcast
import YgmVerif.Model.BcastP
import Driver.Util
import Driver.RouteP
/-! mode `route`: layout tables, next-hop tables, routes, broadcast legs.
  `layout <N> <p> <me>`      -> `nl <node> <loc> | strided … | local … | r2n … | r2l …`
  `hops <N> <p> <me>`        -> `NONE h_0 … h_{n-1} | NR … | NLNR …`     (nextHop to every d)
  `routes <SCH> <N> <p> <s>` -> `r_0 | r_1 | …` route s→d for every d (ranks separated by blanks)
  `route <SCH> <N> <p> <s> <d>` -> the route
  `offhops <SCH> <N> <p> <s> <d>` -> `a>b …` off-node hops
  `bcast <N> <p> <o>`        -> `legs s>d:k … | exec r …`
  `layoutp <block|cyclic> <N> <p> <me>` -> the tables of `layout <N> <p> <me>` read off the `YgmVerif.BcastP.Placement`
  `bcastp <block|cyclic> <N> <p> <o>` -> the same through the lookup tables of the placement (`YgmVerif.BcastP`)
  `bcastpold <block|cyclic> <N> <p> <o>` -> … with the remote loop as it was before the repair (`+= local_size²`)
  `mcast <src> <d_1> … <d_k>` -> `exec d_1 … d_k`
-/
namespace Driver.Route
open YgmVerif.Router YgmVerif.Bcast Driver

def scheme? : String → Option Scheme
  | "NONE" => some .NONE
  | "NR" => some .NR
  | "NLNR" => some .NLNR
  | _ => none

def showPairs (l : List (Nat × Nat)) : String :=
  " ".intercalate (l.map (fun h => s!"{h.1}>{h.2}"))

/-- the placements the harness can run: N, p ↦ lookup tables -/
def placement? : String → Option (Nat → Nat → YgmVerif.BcastP.Placement)
  | "block" => some (fun _ p => YgmVerif.BcastP.block p)
  | "cyclic" => some (fun N _ => YgmVerif.BcastP.cyclic N)
  | _ => none

def handle (line : String) : String :=
  match words line with
  | "layout" :: rest =>
    match nats? rest with
    | some [N, p, me] =>
      s!"nl {node p me} {loc p me} | strided {joinNats (stridedTable N p me)} | local {joinNats (localTable p me)} | r2n {joinNats (rankToNode N p)} | r2l {joinNats (rankToLocal N p)}"
    | _ => "bad-op"
  | "hops" :: rest =>
    match nats? rest with
    | some [N, p, me] =>
      let tab := fun sch => joinNats ((List.range (N * p)).map (nextHop sch p me))
      s!"NONE {tab .NONE} | NR {tab .NR} | NLNR {tab .NLNR}"
    | _ => "bad-op"
  | "routes" :: sch :: rest =>
    match scheme? sch, nats? rest with
    | some sc, some [N, p, s] =>
      " | ".intercalate ((List.range (N * p)).map (fun d => joinNats (route sc p s d)))
    | _, _ => "bad-op"
  | "route" :: sch :: rest =>
    match scheme? sch, nats? rest with
    | some sc, some [_, p, s, d] => joinNats (route sc p s d)
    | _, _ => "bad-op"
  | "offhops" :: sch :: rest =>
    match scheme? sch, nats? rest with
    | some sc, some [_, p, s, d] => showPairs (offHops sc p s d)
    | _, _ => "bad-op"
  | "bcast" :: rest =>
    match nats? rest with
    | some [N, p, o] =>
      let legs := (bcastLegs N p o).map (fun g => s!"{g.src}>{g.dst}:{g.stage}")
      s!"legs {" ".intercalate legs} | exec {joinNats (bcastExec N p o)}"
    | _ => "bad-op"
  | "layoutp" :: pl :: rest =>
    match placement? pl, nats? rest with
    | some mkP, some [N, p, me] =>
      let P := mkP N p
      let all := List.range (N * p)
      s!"nl {P.nodeId me} {P.localId me} | strided {joinNats (YgmVerif.BcastP.stridedRanks P N me)} | local {joinNats (YgmVerif.BcastP.localRanks P p me)} | r2n {joinNats (all.map P.nodeId)} | r2l {joinNats (all.map P.localId)}"
    | _, _ => "bad-op"
  | "bcastp" :: pl :: rest =>
    match placement? pl, nats? rest with
    | some mkP, some [N, p, o] =>
      let legs := (YgmVerif.BcastP.bcastLegs N p (mkP N p) o).map (fun g => s!"{g.src}>{g.dst}:{g.stage}")
      s!"legs {" ".intercalate legs} | exec {joinNats (YgmVerif.BcastP.bcastExec N p (mkP N p) o)}"
    | _, _ => "bad-op"
  | "bcastpold" :: pl :: rest =>
    match placement? pl, nats? rest with
    | some mkP, some [N, p, o] =>
      let legs := (YgmVerif.BcastP.bcastLegsOld N p (mkP N p) o).map (fun g => s!"{g.src}>{g.dst}:{g.stage}")
      s!"legs {" ".intercalate legs} | exec {joinNats (YgmVerif.BcastP.bcastExecOld N p (mkP N p) o)}"
    | _, _ => "bad-op"
  | "mcast" :: rest =>
    match nats? rest with
    | some (src :: dests) => s!"exec {joinNats (mcastExec src dests)}"
    | _ => "bad-op"
  | ws => (Driver.RouteP.handle? ws).getD "bad-op"   -- placement-generic commands (Driver/RouteP.lean)

end Driver.Route
