import Driver.Util
import Driver.Part
import Driver.Route
import Driver.DSet
import Driver.Coll
/-! `ygm_model <mode>`: runs the executable definitions of `YgmVerif.Model.*`
(the very definitions the theorems in `YgmVerif.Props.*` are about) behind a
one-line-in / one-line-out protocol. -/
open Driver

def main (args : List String) : IO UInt32 := do
  let stdin ← IO.getStdin
  match args with
  | ["part"] => lineLoop stdin Driver.Part.handle; return 0
  | ["route"] => lineLoop stdin Driver.Route.handle; return 0
  | ["dset"] => lineLoop stdin Driver.DSet.handle; return 0
  | ["coll"] => lineLoop stdin Driver.Coll.handle; return 0
  | _ => IO.eprintln "usage: ygm_model <mode>"; return 2
