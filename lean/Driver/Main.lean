import Driver.Util
import Driver.Part
/-! `ygm_model <mode>`: runs the executable definitions of `YgmVerif.Model.*`
(the very definitions the theorems in `YgmVerif.Props.*` are about) behind a
one-line-in / one-line-out protocol. -/
open Driver

def main (args : List String) : IO UInt32 := do
  let stdin ← IO.getStdin
  match args with
  | ["part"] => lineLoop stdin Driver.Part.handle; return 0
  | _ => IO.eprintln "usage: ygm_model <mode>"; return 2
