import Driver.Util
import Driver.Part
import Driver.Barrier
import Driver.Bytes
import Driver.Atomic
import Driver.Deliver
import Driver.Route
import Driver.DSet
import Driver.Coll
import Driver.MapSet
import Driver.Lines
import Driver.Arr
import Driver.Wire
import Driver.Cache
import Driver.OutSer
/-! `ygm_model <mode>`: runs the executable definitions of `YgmVerif.Model.*`
(the very definitions the theorems in `YgmVerif.Props.*` are about) behind a
one-line-in / one-line-out protocol. -/
open Driver

def main (args : List String) : IO UInt32 := do
  let stdin ← IO.getStdin
  match args with
  | ["part"] => lineLoop stdin Driver.Part.handle; return 0
  | ["deliver"] => stateLoop stdin Driver.Deliver.handle Driver.Deliver.dummy; return 0
  | ["atomic"] => stateLoop stdin Driver.Atomic.handle []; return 0
  | ["bytes"] => stateLoop stdin Driver.Bytes.handle ⟨0, []⟩; return 0
  | ["barrier"] => stateLoop stdin Driver.Barrier.handle Driver.Barrier.dummy; return 0
  | ["route"] => lineLoop stdin Driver.Route.handle; return 0
  | ["dset"] => lineLoop stdin Driver.DSet.handle; return 0
  | ["coll"] => lineLoop stdin Driver.Coll.handle; return 0
  | ["map"] => lineLoop stdin Driver.MapSet.handleMap; return 0
  | ["set"] => lineLoop stdin Driver.MapSet.handleSet; return 0
  | ["lines"] => stateLoop stdin Driver.Lines.handle []; return 0
  | ["array"] => lineLoop stdin Driver.Arr.handleArray; return 0
  | ["bag"] => lineLoop stdin Driver.Arr.handleBag; return 0
  | ["wire"] => stateLoop stdin Driver.Wire.handle []; return 0
  | ["cache"] => lineLoop stdin Driver.Cache.handleCache; return 0
  | ["reduce"] => lineLoop stdin Driver.Cache.handleReduce; return 0
  | ["out"] => lineLoop stdin Driver.OutSer.handleOut; return 0
  | ["ser"] => lineLoop stdin Driver.OutSer.handleSer; return 0
  | _ => IO.eprintln "usage: ygm_model <mode>"; return 2
