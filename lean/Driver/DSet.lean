import YgmVerif.Model.DSet
import Driver.Util
/-! mode `dset`: the disjoint_set message system.

  `run <fifo|lifo|rand> <seed> <tok> ...`   executes a script on `YgmVerif.DSet`:
      `u:a:b`  async_union(a,b)              `x:a:b`  async_union_and_execute(a,b,cb)
      `B`      barrier: deliver until nothing is in flight (fifo: oldest first = what one
               rank does; rand: a seeded random in-flight message each time; with `rand`
               a few random deliveries also happen after every `u`/`x`)
      `F:i,j`  all_find({i,j,..})  (compress)     `A`  all_compress
      `K`      clear(): barrier as `B`, then `DSet.clear` (callbacks / merges / issued restart)
      `D`      emit a section `d item:rank:parent:root ... ; n <num_sets> <size> ; c a:b ... ; m <merges> ; ab <0|1> ; st <deliveries>`
    answer: the sections joined by ` | `
  `check item:rank:parent ...`   -> `lex <0|1> closed <0|1>` : the decidable invariants on a dump
-/
namespace Driver.DSet
open YgmVerif.DSet Driver

structure Run where
  s : State
  rng : Nat
  steps : Nat := 0
  out : List String := []

def lcg (x : Nat) : Nat := (x * 6364136223846793005 + 1442695040888963407) % 18446744073709551616

def insertSorted (x : Nat) : List Nat → List Nat
  | [] => [x]
  | y :: ys => if x ≤ y then x :: y :: ys else y :: insertSorted x ys

def sortNats (l : List Nat) : List Nat := l.foldl (fun acc x => insertSorted x acc) []

def section_ (r : Run) : String :=
  let s := r.s
  let items := sortNats s.dom
  let d := items.map (fun x => s!"{x}:{rank s x}:{parent s x}:{root s x}")
  let c := s.cbs.reverse.map (fun (a, b) => s!"{a}:{b}")
  s!"d {" ".intercalate d} ; n {numSets s} {size s} ; c {" ".intercalate c} ; m {s.mergeLog.length} ; ab {if s.aborted then 1 else 0} ; st {r.steps}"

partial def drain (sched : String) (r : Run) : Run :=
  match r.s.msgs.length with
  | 0 => r
  | n =>
    if sched == "fifo" then drain sched { r with s := deliver r.s 0, steps := r.steps + 1 }
    else if sched == "lifo" then drain sched { r with s := deliver r.s (n - 1), steps := r.steps + 1 }
    else
      let g := lcg r.rng
      drain sched { r with s := deliver r.s ((g / 8589934592) % n), rng := g, steps := r.steps + 1 }

def someDeliveries (r : Run) : Run :=
  let g := lcg r.rng
  let k := (g / 8589934592) % 4
  (List.range k).foldl (fun r _ =>
    let n := r.s.msgs.length
    if n = 0 then r else
      let g := lcg r.rng
      { r with s := deliver r.s ((g / 8589934592) % n), rng := g, steps := r.steps + 1 }) { r with rng := g }

def natsOf (t : String) : Option (List Nat) := ((t.splitOn ",").filter (· ≠ "")).mapM (·.toNat?)

def stepTok (sched : String) (r : Run) (tok : String) : Option Run :=
  match tok.splitOn ":" with
  | ["u", a, b] => do
    let a ← a.toNat?; let b ← b.toNat?
    let r := { r with s := issue r.s false a b }
    pure (if sched == "rand" then someDeliveries r else r)
  | ["x", a, b] => do
    let a ← a.toNat?; let b ← b.toNat?
    let r := { r with s := issue r.s true a b }
    pure (if sched == "rand" then someDeliveries r else r)
  | ["B"] => some (drain sched r)
  | ["D"] => some { r with out := section_ r :: r.out }
  | ["A"] => some { r with s := compressAll r.s }
  | ["K"] =>
    -- clear(): the barrier first (deliver until nothing is in flight), then `DSet.clear`
    let r := drain sched r
    some { r with s := clear r.s }
  | ["F", l] => do
    let l ← natsOf l
    pure { r with s := l.foldl compress r.s }
  | ["F"] => some r
  | _ => none

def parseTriple (t : String) : Option (Nat × Int × Nat) :=
  match t.splitOn ":" with
  | [a, r, p] => do
    let a ← a.toNat?; let r ← r.toInt?; let p ← p.toNat?
    pure (a, r, p)
  | _ => none

def handle (line : String) : String :=
  match words line with
  | "run" :: sched :: seed :: toks =>
    match seed.toNat? with
    | none => "bad-op"
    | some sd =>
      let r0 : Run := { s := init, rng := sd }
      match toks.foldlM (stepTok sched) r0 with
      | none => "bad-op"
      | some r => " | ".intercalate r.out.reverse
  | "check" :: toks =>
    match toks.mapM parseTriple with
    | none => "bad-op"
    | some l =>
      let s := ofDump l
      s!"lex {if checkLex s then 1 else 0} closed {if checkClosed s then 1 else 0}"
  | _ => "bad-op"

end Driver.DSet
