/-! Shared helpers of the line-protocol driver. -/
namespace Driver

def words (line : String) : List String :=
  (line.trimAscii.toString.splitOn " ").filter (· ≠ "")

def nats? (ws : List String) : Option (List Nat) := ws.mapM (·.toNat?)

def showOptNat : Option Nat → String
  | none => "trap"
  | some n => toString n

def joinNats (xs : List Nat) : String := " ".intercalate (xs.map toString)

/-- generic stdin loop: one output line per input line -/
partial def lineLoop (h : IO.FS.Stream) (f : String → String) : IO Unit := do
  let line ← h.getLine
  if line.isEmpty then return ()
  IO.println (f line)
  lineLoop h f

/-- stateful stdin loop -/
partial def stateLoop {σ} (h : IO.FS.Stream) (f : σ → String → σ × String) (s : σ) : IO Unit := do
  let line ← h.getLine
  if line.isEmpty then return ()
  let (s', out) := f s line
  IO.println out
  stateLoop h f s'

end Driver
