import YgmVerif.Model.Bytes
import Driver.Util
/-! mode `bytes`: per-rank replay of buffering / flushing through the functions of `YgmVerif.Bytes`.
  `reset <cap>`
  `asyncMain r hop b`     -> `ok unsent=<u> pending=<p> sends=<hop:bytes,..>`   (buffer + flush_to_capacity)
  `asyncHandler r hop b`  -> `ok unsent=<u>`                                      (buffer only)
  `walkEnd r`             -> `ok unsent=.. pending=.. sends=..`                   (flush_to_capacity)
  `flushFront r`          -> `ok … sends=..`                                      (flush point: front buffer)
  `sendDone r b`          -> `ok pending=..` | `reject`
  `state r`               -> `unsent=.. pending=..` -/
namespace Driver.Bytes
open YgmVerif.Bytes Driver

structure DS where
  cap : Nat
  rs : List (Nat × St)

def get (d : DS) (r : Nat) : St := ((d.rs.find? (·.1 == r)).map (·.2)).getD { q := [], pending := 0 }
def set (d : DS) (r : Nat) (s : St) : DS := { d with rs := (r, s) :: d.rs.filter (·.1 != r) }

def showSends (q : Q) : String :=
  if q.isEmpty then "-" else ",".intercalate (q.map fun (h, b) => s!"{h}:{b}")

def report (s : St) (sent : Q) : String := s!"ok unsent={total s.q} pending={s.pending} sends={showSends sent}"

def handle (d : DS) (line : String) : DS × String :=
  match words line with
  | ["reset", c] => match c.toNat? with | some c => (⟨c, []⟩, "ok") | none => (d, "bad-op")
  | ["asyncMain", r, hop, b] =>
    match r.toNat?, hop.toNat?, b.toNat? with
    | some r, some hop, some b => let (s', sent) := asyncMain d.cap (get d r) hop b; (set d r s', report s' sent)
    | _, _, _ => (d, "bad-op")
  | ["asyncHandler", r, hop, b] =>
    match r.toNat?, hop.toNat?, b.toNat? with
    | some r, some hop, some b => let s' := asyncHandler (get d r) hop b; (set d r s', report s' [])
    | _, _, _ => (d, "bad-op")
  | ["walkEnd", r] =>
    match r.toNat? with
    | some r => let (s', sent) := walkEnd d.cap (get d r); (set d r s', report s' sent)
    | none => (d, "bad-op")
  | ["flushFront", r] =>
    match r.toNat? with
    | some r => let (s', sent) := flushFront (get d r); (set d r s', report s' sent)
    | none => (d, "bad-op")
  | ["add", r, hop, b] =>
    match r.toNat?, hop.toNat?, b.toNat? with
    | some r, some hop, some b => let s' := asyncHandler (get d r) hop b; (set d r s', s!"ok unsent={total s'.q}")
    | _, _, _ => (d, "bad-op")
  | ["capsend", r, hop, b] =>
    -- a send inside flush_to_capacity: one `flushStep`; it must carry the model's front buffer, whole
    match r.toNat?, hop.toNat?, b.toNat? with
    | some r, some hop, some b =>
      match flushStep d.cap (get d r) with
      | none => (d, s!"reject early-send unsent={total (get d r).q} cap={d.cap}")
      | some (s', sent) =>
        if sent != [(hop, b)] then (d, s!"mismatch capsend model-front={showSends sent} real={hop}:{b}")
        else (set d r s', "ok")
    | _, _, _ => (d, "bad-op")
  | ["pointsend", r, hop, b] =>
    match r.toNat?, hop.toNat?, b.toNat? with
    | some r, some hop, some b =>
      -- a flush point may send the buffer of any buffered destination, whole (`flushHop`)
      match flushHop (get d r) hop with
      | none => (d, s!"mismatch pointsend no-buffer-for-hop={hop} model-queue={showSends (get d r).q}")
      | some (s', sent) =>
        if sent != [(hop, b)] then (d, s!"mismatch pointsend model={showSends sent} real={hop}:{b}")
        else (set d r s', "ok")
    | _, _, _ => (d, "bad-op")
  | ["capend", r, u, p] =>
    -- flush_to_capacity has finished: the loop is disabled and both counters equal the real ones
    match r.toNat?, u.toNat?, p.toNat? with
    | some r, some u, some p =>
      let s := get d r
      if (flushStep d.cap s).isSome then (d, s!"reject flush-incomplete unsent={total s.q} cap={d.cap}")
      else if total s.q != u || s.pending != p then (d, s!"mismatch counters model=({total s.q},{s.pending}) real=({u},{p})")
      else (d, "ok")
    | _, _, _ => (d, "bad-op")
  | ["check", r, u, p] =>
    match r.toNat?, u.toNat?, p.toNat? with
    | some r, some u, some p =>
      let s := get d r
      if total s.q != u || s.pending != p then (d, s!"mismatch counters model=({total s.q},{s.pending}) real=({u},{p})")
      else (d, "ok")
    | _, _, _ => (d, "bad-op")
  | ["sendDone", r, b] =>
    match r.toNat?, b.toNat? with
    | some r, some b =>
      match sendDone (get d r) b with
      | some s' => (set d r s', s!"ok pending={s'.pending}")
      | none => (d, "reject sendDone")
    | _, _ => (d, "bad-op")
  | ["state", r] =>
    match r.toNat? with
    | some r => (d, s!"unsent={total (get d r).q} pending={(get d r).pending}")
    | none => (d, "bad-op")
  | _ => (d, "bad-op")

end Driver.Bytes
