// simmpi: deterministic simulated MPI for running the real YGM headers.
// One process per rank (fork), a lock-step coordinator (the parent) that owns all
// message/collective state and takes exactly one seeded scheduling decision at a
// time, so a run is a function of (program, environment, seed).  See DESIGN.md §3.
//
// Environment: SIMMPI_NODES, SIMMPI_PPN, SIMMPI_SEED, SIMMPI_POLICY
// (uniform|racer|starve|late|burst), SIMMPI_EAGER_PCT (0 = always rendezvous),
// SIMMPI_MAX_STEPS, SIMMPI_LIVELOCK (steps without a progress event),
// SIMMPI_LOG (file), SIMMPI_LOG_BYTES (payload bytes hex-dumped per isend, -1 = all).
#include "mpi.h"
#include <sys/socket.h>
#include <sys/wait.h>
#include <unistd.h>
#include <signal.h>
#include <cstdio>
#include <cstdlib>
#include <cstring>
#include <string>
#include <vector>
#include <deque>
#include <map>
#include <memory>
#include <algorithm>
#include <chrono>
#include <cstdarg>
#include <cerrno>
#include <sstream>
#include <poll.h>
#include <sys/prctl.h>
#include <sys/resource.h>

namespace {

enum Op : int32_t {
  OP_COMM_SIZE = 1, OP_COMM_RANK, OP_ISEND, OP_IRECV, OP_ICOLL, OP_CANCEL, OP_LOG, OP_COMM_FREE,
  OP_TEST = 100, OP_WAITSOME, OP_WAIT, OP_COLL, OP_FINALIZE, OP_GATE
};
enum OpExtra : int32_t { OP_COMM_COMPARE = 20, OP_REQ_FREE = 21 };
enum CollKind : int32_t { CK_BARRIER = 1, CK_ALLREDUCE, CK_ALLGATHER, CK_EXSCAN, CK_BCAST, CK_DUP, CK_SPLIT, CK_SCAN };

struct Hdr { int32_t op; int32_t a[7]; uint64_t len; };

// ---------------------------------------------------------------- io helpers
void wr(int fd, const void* p, size_t n) {
  const char* c = (const char*)p;
  while (n) { ssize_t k = ::write(fd, c, n); if (k <= 0) { if (errno == EINTR) continue; _exit(97); } c += k; n -= k; }
}
bool rd(int fd, void* p, size_t n) {
  char* c = (char*)p;
  while (n) { ssize_t k = ::read(fd, c, n); if (k == 0) return false; if (k < 0) { if (errno == EINTR) continue; return false; } c += k; n -= k; }
  return true;
}

size_t dtsize(int dt) {
  switch (dt) {
    case MPI_BYTE: case MPI_CHAR: case MPI_CXX_BOOL: case MPI_INT8_T: case MPI_UINT8_T: return 1;
    case MPI_INT16_T: case MPI_UINT16_T: return 2;
    case MPI_INT32_T: case MPI_UINT32_T: case MPI_FLOAT: case MPI_INT: return 4;
    case MPI_INT64_T: case MPI_UINT64_T: case MPI_DOUBLE: case MPI_UNSIGNED_LONG: case MPI_UNSIGNED_LONG_LONG: case MPI_LONG_LONG: return 8;
    case MPI_LONG_DOUBLE: return sizeof(long double);
  }
  return 1;
}

// ================================================================= client side
int g_fd = -1; int g_world_rank = -1; int g_world_size = 0; bool g_inited = false;
int g_next_req = 1;
struct CReq { int kind; void* buf; size_t cap; uint64_t sum = 0; };   // kind 0 send, 1 recv, 2 coll
// MPI usage rules the real code must obey but a copying simulation would otherwise never notice:
//  * a send buffer must not be modified before the send completes (checksum at post, re-checked at completion);
//  * the buffers of two active receives must not overlap;
//  * a posted receive buffer has undefined content until completion (its head is poisoned at post time) and must not be written by
//    the application while the receive is active (the poison is verified at completion and at MPI_Cancel).
uint64_t bufsum(const void* b, size_t n) { const unsigned char* p = (const unsigned char*)b; uint64_t h = 1469598103934665603ULL; for (size_t i = 0; i < n; ++i) { h ^= p[i]; h *= 1099511628211ULL; } return h; }
[[noreturn]] void usage_error(const char* what) { fprintf(stderr, "SIMMPI-USAGE-ERROR: %s\n", what); fflush(stderr); abort(); }
std::map<int, CReq> g_reqs;

struct Reply { Hdr h; std::vector<char> data; };
Reply call(int op, std::initializer_list<int> a, const void* payload = nullptr, size_t len = 0) {
  Hdr h{}; h.op = op; int i = 0; for (int x : a) h.a[i++] = x; h.len = len;
  wr(g_fd, &h, sizeof h); if (len) wr(g_fd, payload, len);
  Reply r; if (!rd(g_fd, &r.h, sizeof r.h)) _exit(98);
  r.data.resize(r.h.len); if (r.h.len && !rd(g_fd, r.data.data(), r.h.len)) _exit(98);
  return r;
}
// an active receive owns its buffer: the application must not write into it between the post and the completion (the head was
// poisoned at post time; anything else there now — e.g. pages zero-filled by madvise(MADV_DONTNEED) — was put there by the application)
static void check_recv_poison(const void* b, size_t cap) {
  if (!b || !cap) return;
  const unsigned char* q = (const unsigned char*)b; size_t m = std::min<size_t>(cap, 65536);
  for (size_t i = 0; i < m; ++i) if (q[i] != 0xA5) usage_error("receive buffer modified while the receive was active");
}
// a completion record inside a reply payload: [int32 reqid][int32 src][int32 tag][uint64 n][n bytes]
size_t apply_completion(const char* p, MPI_Status* st) {
  int32_t id, src, tag; uint64_t n; memcpy(&id, p, 4); memcpy(&src, p + 4, 4); memcpy(&tag, p + 8, 4); memcpy(&n, p + 12, 8);
  auto it = g_reqs.find(id);
  if (it != g_reqs.end()) {
    if (it->second.kind == 0 && it->second.buf && bufsum(it->second.buf, it->second.cap) != it->second.sum) usage_error("send buffer modified before the send completed");
    if (it->second.kind == 1) check_recv_poison(it->second.buf, it->second.cap);
    if (it->second.kind != 0 && n) memcpy(it->second.buf, p + 20, std::min<size_t>(n, it->second.cap));
    g_reqs.erase(it);
  }
  if (st) { st->MPI_SOURCE = src; st->MPI_TAG = tag; st->MPI_ERROR = 0; st->_count = (int)n; }
  return 20 + n;
}

}  // namespace

extern "C" {
int MPI_Init(int*, char***) { g_inited = true; return MPI_SUCCESS; }
int MPI_Initialized(int* f) { *f = 1; return MPI_SUCCESS; }
int MPI_Finalize() { call(OP_FINALIZE, {}); return MPI_SUCCESS; }
int MPI_Abort(MPI_Comm, int code) { _exit(code ? code : 1); }
double MPI_Wtime() { return std::chrono::duration<double>(std::chrono::steady_clock::now().time_since_epoch()).count(); }
int MPI_Error_string(int, char* s, int* len) { if (s) s[0] = 0; if (len) *len = 0; return MPI_SUCCESS; }
int MPI_Comm_size(MPI_Comm c, int* s) { *s = call(OP_COMM_SIZE, {c}).h.a[0]; return MPI_SUCCESS; }
int MPI_Comm_rank(MPI_Comm c, int* r) { *r = call(OP_COMM_RANK, {c}).h.a[0]; return MPI_SUCCESS; }
int MPI_Comm_free(MPI_Comm* c) { call(OP_COMM_FREE, {*c}); *c = MPI_COMM_NULL; return MPI_SUCCESS; }

static int coll(int kind, MPI_Comm c, int dt, int op, int count, int root, const void* in, size_t inlen, void* out, size_t outlen, int x = 0, int y = 0) {
  Reply r = call(OP_COLL, {c, kind, dt, op, count, root, x}, in, inlen);
  (void)y;
  if (out && outlen) memcpy(out, r.data.data(), std::min(outlen, r.data.size()));
  return r.h.a[0];
}
int MPI_Barrier(MPI_Comm c) { coll(CK_BARRIER, c, 0, 0, 0, 0, nullptr, 0, nullptr, 0); return MPI_SUCCESS; }
int MPI_Comm_dup(MPI_Comm c, MPI_Comm* n) { *n = coll(CK_DUP, c, 0, 0, 0, 0, nullptr, 0, nullptr, 0); return MPI_SUCCESS; }
int MPI_Comm_split(MPI_Comm c, int color, int key, MPI_Comm* n) { int ck[2] = {color, key}; *n = coll(CK_SPLIT, c, 0, 0, 0, 0, ck, sizeof ck, nullptr, 0); return MPI_SUCCESS; }
int MPI_Comm_split_type(MPI_Comm c, int, int key, MPI_Info, MPI_Comm* n) { int ck[2] = {-7777, key}; *n = coll(CK_SPLIT, c, 0, 0, 0, 0, ck, sizeof ck, nullptr, 0); return MPI_SUCCESS; }
int MPI_Allreduce(const void* s, void* r, int n, MPI_Datatype dt, MPI_Op op, MPI_Comm c) { coll(CK_ALLREDUCE, c, dt, op, n, 0, s, n * dtsize(dt), r, n * dtsize(dt)); return MPI_SUCCESS; }
int MPI_Exscan(const void* s, void* r, int n, MPI_Datatype dt, MPI_Op op, MPI_Comm c) {
  std::vector<char> tmp(n * dtsize(dt)); int has = coll(CK_EXSCAN, c, dt, op, n, 0, s, n * dtsize(dt), tmp.data(), tmp.size());
  if (has) memcpy(r, tmp.data(), tmp.size());   // rank 0: recvbuf untouched (undefined by the standard)
  return MPI_SUCCESS; }
int MPI_Scan(const void* s, void* r, int n, MPI_Datatype dt, MPI_Op op, MPI_Comm c) { coll(CK_SCAN, c, dt, op, n, 0, s, n * dtsize(dt), r, n * dtsize(dt)); return MPI_SUCCESS; }
int MPI_Allgather(const void* s, int sn, MPI_Datatype sdt, void* r, int rn, MPI_Datatype rdt, MPI_Comm c) {
  int sz; MPI_Comm_size(c, &sz); coll(CK_ALLGATHER, c, sdt, 0, sn, 0, s, sn * dtsize(sdt), r, (size_t)sz * rn * dtsize(rdt)); return MPI_SUCCESS; }
int MPI_Bcast(void* b, int n, MPI_Datatype dt, int root, MPI_Comm c) { coll(CK_BCAST, c, dt, 0, n, root, b, n * dtsize(dt), b, n * dtsize(dt)); return MPI_SUCCESS; }

static int post_send(const void* b, int n, MPI_Datatype dt, int dest, int tag, MPI_Comm c, int sync, MPI_Request* rq) {
  int id = g_next_req++; g_reqs[id] = CReq{0, const_cast<void*>(b), (size_t)n * dtsize(dt), bufsum(b, (size_t)n * dtsize(dt))};
  call(OP_ISEND, {c, dest, tag, sync, id}, b, n * dtsize(dt)); *rq = id; return MPI_SUCCESS; }
int MPI_Isend(const void* b, int n, MPI_Datatype dt, int d, int t, MPI_Comm c, MPI_Request* r) { return post_send(b, n, dt, d, t, c, 0, r); }
int MPI_Issend(const void* b, int n, MPI_Datatype dt, int d, int t, MPI_Comm c, MPI_Request* r) { return post_send(b, n, dt, d, t, c, 1, r); }
int MPI_Irecv(void* b, int n, MPI_Datatype dt, int src, int tag, MPI_Comm c, MPI_Request* rq) {
  { const char* lo = (const char*)b; const char* hi = lo + (size_t)n * dtsize(dt);
    for (auto& kv : g_reqs) if (kv.second.kind == 1 && kv.second.cap && hi > lo) { const char* l2 = (const char*)kv.second.buf; const char* h2 = l2 + kv.second.cap; if (lo < h2 && l2 < hi) usage_error("two active receives use overlapping buffers"); } }
  // the content of a posted receive buffer is undefined until the receive completes (MPI may write into it at any time):
  // poison its head so that code which keeps reading a buffer it has already re-posted does not get away with it
  if (b && n > 0) memset(b, 0xA5, std::min<size_t>((size_t)n * dtsize(dt), 65536));
  int id = g_next_req++; g_reqs[id] = CReq{1, b, n * dtsize(dt)};
  uint64_t cap = n * dtsize(dt); call(OP_IRECV, {c, src, tag, id, (int)(cap & 0x7fffffff), (int)(cap >> 31)}); *rq = id; return MPI_SUCCESS; }
int MPI_Iallreduce(const void* s, void* r, int n, MPI_Datatype dt, MPI_Op op, MPI_Comm c, MPI_Request* rq) {
  int id = g_next_req++; g_reqs[id] = CReq{2, r, n * dtsize(dt)};
  call(OP_ICOLL, {c, CK_ALLREDUCE, dt, op, n, id}, s, n * dtsize(dt)); *rq = id; return MPI_SUCCESS; }
int MPI_Ibarrier(MPI_Comm c, MPI_Request* rq) { int id = g_next_req++; g_reqs[id] = CReq{2, nullptr, 0}; call(OP_ICOLL, {c, CK_BARRIER, 0, 0, 0, id}, nullptr, 0); *rq = id; return MPI_SUCCESS; }
int MPI_Comm_compare(MPI_Comm a, MPI_Comm b, int* res) { *res = call((Op)OP_COMM_COMPARE, {a, b}).h.a[0]; return MPI_SUCCESS; }
// freeing the request of a send that has not completed leaves the buffer in MPI's hands for an unknown time; with a rendezvous /
// synchronous send that is a use-after-free waiting to happen when the buffer is a local (the usual reason to free the request)
int MPI_Request_free(MPI_Request* rq) { if (*rq == MPI_REQUEST_NULL) return MPI_SUCCESS; int done = call((Op)OP_REQ_FREE, {*rq}).h.a[0]; auto it = g_reqs.find(*rq);
  if (it != g_reqs.end() && it->second.kind == 0 && !done) usage_error("MPI_Request_free on a send that has not completed: the send buffer must stay untouched for an unknown time");
  g_reqs.erase(*rq); *rq = MPI_REQUEST_NULL; return MPI_SUCCESS; }
int MPI_Cancel(MPI_Request* rq) { auto it = g_reqs.find(*rq); if (it != g_reqs.end() && it->second.kind == 1) check_recv_poison(it->second.buf, it->second.cap); call(OP_CANCEL, {*rq}); g_reqs.erase(*rq); return MPI_SUCCESS; }
int MPI_Get_count(const MPI_Status* st, MPI_Datatype dt, int* n) { *n = st->_count / (int)dtsize(dt); return MPI_SUCCESS; }
int MPI_Test(MPI_Request* rq, int* flag, MPI_Status* st) {
  if (*rq == MPI_REQUEST_NULL) { *flag = 1; return MPI_SUCCESS; }
  Reply r = call(OP_TEST, {*rq}); *flag = r.h.a[0];
  if (*flag) { apply_completion(r.data.data(), st); *rq = MPI_REQUEST_NULL; }
  return MPI_SUCCESS; }
static int wait_one(MPI_Request* rq, MPI_Status* st) { Reply r = call(OP_WAIT, {*rq}); apply_completion(r.data.data(), st); *rq = MPI_REQUEST_NULL; return MPI_SUCCESS; }
int MPI_Waitsome(int n, MPI_Request* rqs, int* outcount, int* idx, MPI_Status* sts) {
  std::vector<int32_t> ids(rqs, rqs + n);
  Reply r = call(OP_WAITSOME, {n}, ids.data(), n * 4);
  int k = r.h.a[0]; *outcount = k; const char* p = r.data.data();
  for (int i = 0; i < k; ++i) { int32_t which; memcpy(&which, p, 4); p += 4; idx[i] = which; p += apply_completion(p, sts ? &sts[i] : nullptr); rqs[which] = MPI_REQUEST_NULL; }
  return MPI_SUCCESS; }
int MPI_Send(const void* b, int n, MPI_Datatype dt, int d, int t, MPI_Comm c) { MPI_Request r; post_send(b, n, dt, d, t, c, 0, &r); return wait_one(&r, nullptr); }
int MPI_Recv(void* b, int n, MPI_Datatype dt, int s, int t, MPI_Comm c, MPI_Status* st) { MPI_Request r; MPI_Irecv(b, n, dt, s, t, c, &r); return wait_one(&r, st); }
// the receive is posted before the send, so two ranks exchanging with each other cannot block each other under any completion mode
int MPI_Sendrecv(const void* sb, int sn, MPI_Datatype sdt, int dest, int stag, void* rb, int rn, MPI_Datatype rdt, int src, int rtag, MPI_Comm c, MPI_Status* st) {
  MPI_Request rr, sr; MPI_Irecv(rb, rn, rdt, src, rtag, c, &rr); post_send(sb, sn, sdt, dest, stag, c, 0, &sr); wait_one(&sr, nullptr); return wait_one(&rr, st); }
void simmpi_log(const char* line) { call(OP_LOG, {}, line, strlen(line)); }
// directed schedules: block the calling rank until the coordinator has observed a condition (or max_steps scheduling
// steps have passed: a gate never deadlocks a run).  kind 0: rank `who`, after logging the harness line "E <epoch>", has
// posted >= count non-blocking collectives;  kind 1: >= count further messages have been delivered to rank `who`
void simmpi_gate(int kind, int who, int epoch, int count, int max_steps) { call(OP_GATE, {kind, who, epoch, count, max_steps}); }
}

// ============================================================== coordinator
namespace {
struct Rng { uint64_t s; uint64_t next() { uint64_t z = (s += 0x9e3779b97f4a7c15ULL); z = (z ^ (z >> 30)) * 0xbf58476d1ce4e5b9ULL; z = (z ^ (z >> 27)) * 0x94d049bb133111ebULL; return z ^ (z >> 31); } uint64_t below(uint64_t n) { return next() % n; } };

struct Msg { int id; int comm; int src; int dst; int tag; std::vector<char> data; bool sync; bool eager; int sreq; bool matched = false; long t_enq = 0; };
struct Req { int owner; int id; int kind; bool done = false; bool cancelled = false;
  // recv
  int comm = 0, src = 0, tag = 0; uint64_t cap = 0; std::shared_ptr<Msg> msg;
  // send
  std::shared_ptr<Msg> smsg;
  // coll
  int seq = 0; };
struct CollInst { int kind = 0, dt = 0, op = 0, count = 0, root = 0; int arrived = 0; std::vector<std::vector<char>> contrib; std::vector<char> have; bool computed = false; std::vector<std::vector<char>> result; std::vector<int> ret; };
struct Comm { std::vector<int> members; std::vector<int> seq; std::map<int, CollInst> inst; };
struct RankSt { int fd; pid_t pid; bool reaped = false; int state; /*0 running 1 blocked 2 done*/ Hdr h; std::vector<char> payload; std::map<int, std::shared_ptr<Req>> reqs; std::vector<std::shared_ptr<Req>> posted; std::vector<std::shared_ptr<Msg>> unexpected; int epoch = -1; long icolls = 0; long delivered = 0; long gate_base = 0, gate_t0 = 0; };

struct Coord {
  int N = 1, P = 1, n = 1; Rng rng{1}; std::vector<RankSt> rk; std::map<int, Comm> comms; int next_comm = 2; int next_msg = 1;
  std::map<std::pair<int, std::pair<int, int>>, std::deque<std::shared_ptr<Msg>>> chan;  // (comm,(src,dst)) -> in flight
  FILE* log = nullptr; long t = 0; long max_steps = 5000000; int eager_pct = 50; long logbytes = 256; long idle_false = 0;
  std::string policy = "uniform"; int racer = 0; long livelock_k = 400000; long since_progress = 0; long n_deliver = 0, n_complete = 0, n_answer = 0, n_false = 0;
  std::string verdict = "ok"; time_t t_start = time(nullptr); long wall_budget = 900; long immediate_run = 0, spin_k = 1500000; std::map<long, long> deviate; long decision = 0;

  bool cyclic = false;   // SIMMPI_PLACEMENT=cyclic: world rank r lives on node r % N (round-robin) instead of r / P (block)
  long icoll_idle = 0, icoll_idle_k = 4000;   // consecutive UNBALANCED 16-byte all-reductions (YGM's (received, sent) totals differ) since the last point-to-point activity / harness event: rounds that never end
  int hold_dst = -1; long hold_steps = 0;   // SIMMPI_HOLD=<dst>:<steps>: a message to dst is not delivered during its first <steps> scheduling steps (directed schedules)
  long log_written = 0, log_budget = 768L << 20;   // runaway handlers must not fill the disk
  void L(const char* fmt, ...) { if (!log) return; if (log_written > log_budget) { if (verdict == "ok") verdict = "log-budget"; return; }
    va_list ap; va_start(ap, fmt); log_written += fprintf(log, "%ld ", t); log_written += vfprintf(log, fmt, ap); fputc('\n', log); va_end(ap); }
  std::string hex(const std::vector<char>& d) { static const char* H = "0123456789abcdef"; std::string s; size_t m = logbytes < 0 ? d.size() : std::min<size_t>(d.size(), logbytes); for (size_t i = 0; i < m; ++i) { s += H[(d[i] >> 4) & 15]; s += H[d[i] & 15]; } if (m < d.size()) s += "+"; return s; }
  int crank(int comm, int world) { auto& m = comms[comm].members; return (int)(std::find(m.begin(), m.end(), world) - m.begin()); }

  void reply(int r, Hdr h, const void* p = nullptr, size_t len = 0) { h.len = len; wr(rk[r].fd, &h, sizeof h); if (len) wr(rk[r].fd, p, len); }

  bool match(const Req& q, const Msg& m) { return q.comm == m.comm && (q.src == MPI_ANY_SOURCE || comms[q.comm].members[q.src] == m.src) && (q.tag == MPI_ANY_TAG || q.tag == m.tag); }
  void bind(std::shared_ptr<Req> q, std::shared_ptr<Msg> m) {
    if (m->data.size() > q->cap) { verdict = "config-truncation"; }
    q->done = true; q->msg = m; m->matched = true;
    L("match dst=%d src=%d msg=%d bytes=%zu recvreq=%d", m->dst, m->src, m->id, m->data.size(), q->id);
  }
  void arrive(std::shared_ptr<Msg> m) {
    auto& R = rk[m->dst];
    for (size_t i = 0; i < R.posted.size(); ++i) if (match(*R.posted[i], *m)) { auto q = R.posted[i]; R.posted.erase(R.posted.begin() + i); bind(q, m); return; }
    R.unexpected.push_back(m); L("unexpected dst=%d src=%d msg=%d", m->dst, m->src, m->id);
  }
  std::vector<char> completion(Req& q) {
    std::vector<char> out(20); int32_t id = q.id, src = -1, tag = -1; uint64_t nbytes = 0; const char* d = nullptr;
    if (q.kind == 1 && q.msg) { src = crank(q.comm, q.msg->src); tag = q.msg->tag; nbytes = q.msg->data.size(); d = q.msg->data.data(); }
    static std::vector<char> collres;
    if (q.kind == 2) { auto& in = comms[q.comm].inst[q.seq]; collres = in.result[crank(q.comm, q.owner)]; nbytes = collres.size(); d = collres.data();
      if (nbytes == 16) { uint64_t v[2]; memcpy(v, d, 16); L("iallreduce_done r=%d comm=%d seq=%d v0=%llu v1=%llu", q.owner, q.comm, q.seq, (unsigned long long)v[0], (unsigned long long)v[1]); } }
    memcpy(&out[0], &id, 4); memcpy(&out[4], &src, 4); memcpy(&out[8], &tag, 4); memcpy(&out[12], &nbytes, 8);
    if (nbytes) out.insert(out.end(), d, d + nbytes);
    return out;
  }
  template <class T> static void red(std::vector<char>& acc, const std::vector<char>& x, int op) {
    size_t k = acc.size() / sizeof(T); T* a = (T*)acc.data(); const T* b = (const T*)x.data();
    for (size_t i = 0; i < k; ++i) switch (op) { case MPI_SUM: a[i] = a[i] + b[i]; break; case MPI_MIN: a[i] = std::min(a[i], b[i]); break; case MPI_MAX: a[i] = std::max(a[i], b[i]); break; case MPI_LAND: a[i] = (T)(a[i] && b[i]); break; case MPI_LOR: a[i] = (T)(a[i] || b[i]); break; } }
  void reduce(std::vector<char>& acc, const std::vector<char>& x, int dt, int op) {
    switch (dt) {
      case MPI_CXX_BOOL: case MPI_UINT8_T: case MPI_BYTE: red<uint8_t>(acc, x, op); break; case MPI_INT8_T: case MPI_CHAR: red<int8_t>(acc, x, op); break;
      case MPI_INT16_T: red<int16_t>(acc, x, op); break; case MPI_UINT16_T: red<uint16_t>(acc, x, op); break;
      case MPI_INT32_T: case MPI_INT: red<int32_t>(acc, x, op); break; case MPI_UINT32_T: red<uint32_t>(acc, x, op); break;
      case MPI_INT64_T: case MPI_LONG_LONG: red<int64_t>(acc, x, op); break; case MPI_UINT64_T: case MPI_UNSIGNED_LONG: case MPI_UNSIGNED_LONG_LONG: red<uint64_t>(acc, x, op); break;
      case MPI_FLOAT: red<float>(acc, x, op); break; case MPI_DOUBLE: red<double>(acc, x, op); break; case MPI_LONG_DOUBLE: red<long double>(acc, x, op); break; } }
  void compute(int cid, CollInst& in) {
    Comm& c = comms[cid]; int m = (int)c.members.size(); in.result.assign(m, {}); in.ret.assign(m, 0); in.computed = true;
    switch (in.kind) {
      case CK_BARRIER: break;
      case CK_ALLREDUCE: { auto acc = in.contrib[0]; for (int i = 1; i < m; ++i) reduce(acc, in.contrib[i], in.dt, in.op); for (int i = 0; i < m; ++i) in.result[i] = acc;
        // a count-based barrier whose totals stay unbalanced while nothing moves any more will never terminate
        if (acc.size() == 16) { uint64_t v[2]; memcpy(v, acc.data(), 16); if (v[0] != v[1]) { if (++icoll_idle > icoll_idle_k && verdict == "ok") verdict = "livelock"; } else icoll_idle = 0; }
        break; }
      case CK_EXSCAN: { std::vector<char> acc; for (int i = 0; i < m; ++i) { if (i > 0) { in.result[i] = acc; in.ret[i] = 1; } if (i == 0) acc = in.contrib[0]; else reduce(acc, in.contrib[i], in.dt, in.op); } break; }
      case CK_SCAN: { std::vector<char> acc; for (int i = 0; i < m; ++i) { if (i == 0) acc = in.contrib[0]; else reduce(acc, in.contrib[i], in.dt, in.op); in.result[i] = acc; } break; }
      case CK_ALLGATHER: { std::vector<char> all; for (int i = 0; i < m; ++i) all.insert(all.end(), in.contrib[i].begin(), in.contrib[i].end()); for (int i = 0; i < m; ++i) in.result[i] = all; break; }
      case CK_BCAST: for (int i = 0; i < m; ++i) in.result[i] = in.contrib[in.root]; break;
      case CK_DUP: { int id = next_comm++; comms[id].members = c.members; comms[id].seq.assign(m, 0); for (int i = 0; i < m; ++i) in.ret[i] = id; break; }
      case CK_SPLIT: { std::map<int, std::vector<std::pair<int, int>>> groups;  // color -> (key, idx)
        for (int i = 0; i < m; ++i) { int ck[2]; memcpy(ck, in.contrib[i].data(), 8); int color = ck[0] == -7777 ? (cyclic ? c.members[i] % N : c.members[i] / P) : ck[0]; groups[color].push_back({ck[1], i}); }
        for (auto& g : groups) { std::sort(g.second.begin(), g.second.end()); int id = next_comm++; for (auto& ki : g.second) { comms[id].members.push_back(c.members[ki.second]); in.ret[ki.second] = id; } comms[id].seq.assign(g.second.size(), 0); } break; }
    }
  }
  // register a collective contribution; returns seq
  int contribute(int r, int cid, int kind, int dt, int op, int count, int root, const std::vector<char>& data) {
    Comm& c = comms[cid]; int me = crank(cid, r); int seq = c.seq[me]++; CollInst& in = c.inst[seq];
    if (in.arrived == 0) { in.kind = kind; in.dt = dt; in.op = op; in.count = count; in.root = root; in.contrib.assign(c.members.size(), {}); in.have.assign(c.members.size(), 0); }
    else if (in.kind != kind) { verdict = "collective-mismatch"; }
    in.contrib[me] = data; in.have[me] = 1; in.arrived++;
    if (in.arrived == (int)c.members.size()) compute(cid, in);
    return seq;
  }

  // handle one request from a running rank; returns true if the rank stays running (immediate call)
  bool handle(int r) {
    RankSt& R = rk[r]; Hdr& h = R.h; auto& pl = R.payload; Hdr out{};
    // a rank that keeps issuing non-blocking requests (log lines, posts) without ever reaching a blocking MPI call spins
    if (h.op < OP_TEST && ++immediate_run > spin_k && verdict == "ok") verdict = "livelock";
    if (h.op == OP_ISEND || h.op == OP_IRECV || h.op == OP_ICOLL || h.op == OP_LOG || h.op == OP_COLL || h.op == OP_FINALIZE) since_progress = 0;
    switch (h.op) {
      case OP_COMM_SIZE: out.a[0] = (int)comms[h.a[0]].members.size(); reply(r, out); return true;
      case OP_COMM_RANK: out.a[0] = crank(h.a[0], r); reply(r, out); return true;
      case OP_COMM_FREE: reply(r, out); return true;
      case OP_LOG: icoll_idle = 0; L("h r=%d %.*s", r, (int)pl.size(), pl.data());
        if (pl.size() > 2 && pl[0] == 'E' && pl[1] == ' ') { R.epoch = atoi(std::string(pl.data() + 2, pl.size() - 2).c_str()); R.icolls = 0; }
        reply(r, out); return true;
      case OP_GATE: R.gate_t0 = t; R.gate_base = (h.a[0] == 1 && h.a[1] >= 0 && h.a[1] < n) ? rk[h.a[1]].delivered : 0; return false;
      case OP_ISEND: { icoll_idle = 0;
        if (h.a[1] < 0 || h.a[1] >= (int)comms[h.a[0]].members.size()) {   // MPI_ERR_RANK: a real MPI aborts the job
          L("invalid-rank r=%d comm=%d dest=%d", r, h.a[0], h.a[1]); if (verdict == "ok") verdict = "invalid-rank: r" + std::to_string(r) + " sends to rank " + std::to_string(h.a[1]) + " of a communicator of " + std::to_string(comms[h.a[0]].members.size());
          reply(r, out); return true; }
        auto m = std::make_shared<Msg>(); m->id = next_msg++; m->comm = h.a[0]; m->src = r; m->dst = comms[h.a[0]].members[h.a[1]]; m->tag = h.a[2]; m->sync = h.a[3]; m->data = pl; m->eager = (int)rng.below(100) < eager_pct; m->sreq = h.a[4]; m->t_enq = t;
        auto q = std::make_shared<Req>(); q->owner = r; q->id = h.a[4]; q->kind = 0; q->smsg = m; R.reqs[q->id] = q; chan[{m->comm, {m->src, m->dst}}].push_back(m);
        L("isend r=%d dst=%d comm=%d msg=%d bytes=%zu sync=%d eager=%d data=%s", r, m->dst, m->comm, m->id, pl.size(), (int)m->sync, (int)m->eager, hex(pl).c_str()); reply(r, out); return true; }
      case OP_IRECV: { auto q = std::make_shared<Req>(); q->owner = r; q->id = h.a[3]; q->kind = 1; q->comm = h.a[0]; q->src = h.a[1]; q->tag = h.a[2]; q->cap = (uint64_t)h.a[4] | ((uint64_t)h.a[5] << 31); R.reqs[q->id] = q;
        L("irecv r=%d comm=%d req=%d", r, q->comm, q->id);
        bool bound = false; for (size_t i = 0; i < R.unexpected.size(); ++i) if (match(*q, *R.unexpected[i])) { auto m = R.unexpected[i]; R.unexpected.erase(R.unexpected.begin() + i); bind(q, m); bound = true; break; }
        if (!bound) R.posted.push_back(q); reply(r, out); return true; }
      case OP_ICOLL: { R.icolls++; auto q = std::make_shared<Req>(); q->owner = r; q->id = h.a[5]; q->kind = 2; q->comm = h.a[0]; R.reqs[q->id] = q;
        q->seq = contribute(r, h.a[0], h.a[1], h.a[2], h.a[3], h.a[4], 0, pl);
        if (pl.size() == 16) { uint64_t v[2]; memcpy(v, pl.data(), 16); L("iallreduce r=%d comm=%d seq=%d v0=%llu v1=%llu", r, q->comm, q->seq, (unsigned long long)v[0], (unsigned long long)v[1]); } else L("icoll r=%d comm=%d seq=%d", r, q->comm, q->seq);
        reply(r, out); return true; }
      case OP_COMM_COMPARE: { auto& A = comms[h.a[0]].members; auto& B = comms[h.a[1]].members; int v = 3;
        if (h.a[0] == h.a[1]) v = 0; else if (A == B) v = 1; else { auto a2 = A, b2 = B; std::sort(a2.begin(), a2.end()); std::sort(b2.begin(), b2.end()); if (a2 == b2) v = 2; }
        out.a[0] = v; reply(r, out); return true; }
      case OP_REQ_FREE: { auto it = R.reqs.find(h.a[0]); int done = 1; if (it != R.reqs.end()) { Req& q = *it->second; done = (q.kind != 0) || q.done || (q.smsg->eager && !q.smsg->sync) || q.smsg->matched; R.reqs.erase(it); }
        out.a[0] = done; reply(r, out); return true; }
      case OP_CANCEL: { auto it = R.reqs.find(h.a[0]); if (it != R.reqs.end()) { it->second->cancelled = true; R.posted.erase(std::remove(R.posted.begin(), R.posted.end(), it->second), R.posted.end()); R.reqs.erase(it); } reply(r, out); return true; }
      case OP_COLL: { int seq = contribute(r, h.a[0], h.a[1], h.a[2], h.a[3], h.a[4], h.a[5], pl); h.a[6] = seq; L("coll r=%d comm=%d kind=%d seq=%d", r, h.a[0], h.a[1], seq); return false; }
      default: return false;  // TEST WAITSOME WAIT FINALIZE: scheduled
    }
  }
  bool reqdone(int r, int id) { auto it = rk[r].reqs.find(id); if (it == rk[r].reqs.end()) return true; Req& q = *it->second; if (q.kind == 2) { auto& in = comms[q.comm].inst[q.seq]; return in.computed; } return q.done; }

  struct Act { int kind; int r; std::pair<int, std::pair<int, int>> ch; int req; int weight; };  // 0 answer-progress 1 answer-false 2 deliver 3 complete-send
  bool answerable(int r, bool& isfalse) {
    RankSt& R = rk[r]; Hdr& h = R.h; isfalse = false;
    switch (h.op) {
      case OP_TEST: if (!reqdone(r, h.a[0])) isfalse = true; return true;
      case OP_WAIT: return reqdone(r, h.a[0]);
      case OP_WAITSOME: { int n = h.a[0]; const int32_t* ids = (const int32_t*)R.payload.data(); for (int i = 0; i < n; ++i) if (ids[i] != MPI_REQUEST_NULL && reqdone(r, ids[i])) return true; return false; }
      case OP_COLL: return comms[h.a[0]].inst[h.a[6]].computed;
      case OP_FINALIZE: return true;
      case OP_GATE: { if (t - R.gate_t0 > (long)h.a[4]) return true; int who = h.a[1]; if (who < 0 || who >= n) return true;
        if (h.a[0] == 0) return rk[who].epoch > h.a[2] || (rk[who].epoch == h.a[2] && rk[who].icolls >= h.a[3]) || rk[who].state == 2;
        return rk[who].delivered - R.gate_base >= h.a[3]; }
    }
    return false;
  }
  void answer(int r) {
    RankSt& R = rk[r]; Hdr h = R.h; Hdr out{};
    switch (h.op) {
      case OP_TEST: { if (reqdone(r, h.a[0])) { auto q = R.reqs[h.a[0]]; auto c = completion(*q); R.reqs.erase(h.a[0]); out.a[0] = 1; L("test r=%d req=%d kind=%d -> 1", r, q->id, q->kind); reply(r, out, c.data(), c.size()); } else { out.a[0] = 0; reply(r, out); } break; }
      case OP_WAIT: { auto q = R.reqs[h.a[0]]; auto c = completion(*q); R.reqs.erase(h.a[0]); L("wait r=%d req=%d kind=%d", r, q->id, q->kind); reply(r, out, c.data(), c.size()); break; }
      case OP_WAITSOME: { int n = h.a[0]; std::vector<int32_t> ids((const int32_t*)R.payload.data(), (const int32_t*)R.payload.data() + n); std::vector<char> pay; int k = 0; std::string which;
        for (int i = 0; i < n; ++i) if (ids[i] != MPI_REQUEST_NULL && reqdone(r, ids[i])) { auto q = R.reqs[ids[i]]; int32_t w = i; pay.insert(pay.end(), (char*)&w, (char*)&w + 4); auto c = completion(*q); pay.insert(pay.end(), c.begin(), c.end()); R.reqs.erase(ids[i]); ++k; which += std::to_string(q->kind) + ":" + std::to_string(q->id) + ","; }
        out.a[0] = k; L("waitsome r=%d done=%s", r, which.c_str()); reply(r, out, pay.data(), pay.size()); break; }
      case OP_COLL: { auto& in = comms[h.a[0]].inst[h.a[6]]; int me = crank(h.a[0], r); out.a[0] = in.ret[me]; L("colldone r=%d comm=%d seq=%d", r, h.a[0], h.a[6]); reply(r, out, in.result[me].data(), in.result[me].size()); break; }
      case OP_FINALIZE: reply(r, out); break;
      case OP_GATE: L("gate r=%d kind=%d who=%d %s", r, h.a[0], h.a[1], (t - R.gate_t0 > (long)h.a[4]) ? "timeout" : "open"); reply(r, out); break;
    }
    R.state = 0;
  }
  // read requests from rank r until it blocks or exits
  void pump(int r) {
    RankSt& R = rk[r];
    while (R.state == 0) {
      if (verdict != "ok") return;
      // wait for the running rank's next request, but give up when our own parent is gone or the wall budget is spent
      while (true) {
        struct pollfd pf{R.fd, POLLIN, 0}; int pr = ::poll(&pf, 1, 1000);
        if (pr > 0) break;
        if (getppid() == 1) { verdict = "orphaned"; return; }
        if (time(nullptr) - t_start > wall_budget) { verdict = "wall-budget"; return; }
      }
      if (!rd(R.fd, &R.h, sizeof R.h)) { R.state = 2; int st = 0; waitpid(R.pid, &st, 0); R.reaped = true;
        bool clean = WIFEXITED(st) && WEXITSTATUS(st) == 0; L("exit r=%d clean=%d", r, (int)clean);
        if (!clean && verdict == "ok") verdict = "rank-failed: r" + std::to_string(r) + (WIFSIGNALED(st) ? " signal " + std::to_string(WTERMSIG(st)) : " exit " + std::to_string(WEXITSTATUS(st)));
        return; }
      R.payload.resize(R.h.len); if (R.h.len && !rd(R.fd, R.payload.data(), R.h.len)) { R.state = 2; return; }
      if (!handle(r)) R.state = 1;
    }
  }
  // wait-for signature of every blocked rank (used to identify deadlocks)
  std::string signature() {
    std::string sig;
    for (int r = 0; r < n; ++r) {
      RankSt& R = rk[r]; char b[160];
      if (R.state == 2) { snprintf(b, sizeof b, "r%d:done ", r); sig += b; continue; }
      size_t unmatched_to = 0; for (auto& kv : chan) if (kv.first.second.second == r) unmatched_to += kv.second.size();
      const char* op = R.h.op == OP_TEST ? "test" : R.h.op == OP_WAIT ? "wait" : R.h.op == OP_WAITSOME ? "waitsome" : R.h.op == OP_COLL ? "coll" : R.h.op == OP_FINALIZE ? "finalize" : R.h.op == OP_GATE ? "gate" : "?";
      if (R.h.op == OP_COLL) snprintf(b, sizeof b, "r%d:coll(kind=%d,comm=%d,inflight_to=%zu,unexp=%zu) ", r, R.h.a[1], R.h.a[0], unmatched_to, R.unexpected.size());
      else if (R.h.op == OP_WAIT) { auto it = R.reqs.find(R.h.a[0]); int k = it == R.reqs.end() ? -1 : it->second->kind; snprintf(b, sizeof b, "r%d:wait(kind=%d,inflight_to=%zu,unexp=%zu) ", r, k, unmatched_to, R.unexpected.size()); }
      else snprintf(b, sizeof b, "r%d:%s(inflight_to=%zu,unexp=%zu) ", r, op, unmatched_to, R.unexpected.size());
      sig += b;
    }
    return sig;
  }
  int weight(const Act& a) {
    // base weights: answer 8, false answer 1, deliver 8, send completion 6
    int w = a.kind == 0 ? 8 : a.kind == 1 ? 1 : a.kind == 2 ? 8 : 6;
    if (policy == "racer") { if (a.kind <= 1) w = (a.r == racer) ? w * 16 : w; }
    else if (policy == "starve") { if (a.kind == 3) w = 1; if (a.kind == 1) w = 4; }
    else if (policy == "late") { if (a.kind == 2) { int dst = a.ch.second.second; bool waiting = rk[dst].state == 1 && (rk[dst].h.op == OP_WAITSOME || rk[dst].h.op == OP_WAIT); w = waiting ? 24 : 1; } }
    else if (policy == "burst") { bool phase = ((t / 64) & 1) != 0; if (a.kind == 2 || a.kind == 3) w = phase ? 32 : 1; else if (a.kind == 0) w = phase ? 1 : 32; }
    return w;
  }
  int run() {
    for (int r = 0; r < n; ++r) pump(r);
    long falses_in_row = 0;
    while (true) {
      bool alldone = true; for (auto& R : rk) if (R.state != 2) alldone = false;
      if (alldone) break;
      if (verdict != "ok") break;
      if (++t > max_steps) { verdict = "step-budget"; break; }
      if (++since_progress > livelock_k) { verdict = "livelock"; break; }
      immediate_run = 0;
      std::vector<Act> acts;
      for (int r = 0; r < n; ++r) if (rk[r].state == 1) { bool f; if (answerable(r, f)) acts.push_back(Act{f ? 1 : 0, r, {}, 0, 0}); }
      bool held = false;
      for (auto& kv : chan) if (!kv.second.empty()) { if (kv.first.second.second == hold_dst && t - kv.second.front()->t_enq < hold_steps) { held = true; continue; } acts.push_back(Act{2, 0, kv.first, 0, 0}); }
      if (held && acts.empty()) for (auto& kv : chan) if (!kv.second.empty()) acts.push_back(Act{2, 0, kv.first, 0, 0});   // never hold when nothing else can happen
      for (int r = 0; r < n; ++r) for (auto& kv : rk[r].reqs) { Req& q = *kv.second; if (q.kind == 0 && !q.done && ((q.smsg->eager && !q.smsg->sync) || q.smsg->matched)) acts.push_back(Act{3, r, {}, q.id, 0}); }
      bool only_false = true; for (auto& a : acts) if (a.kind != 1) only_false = false;
      // a gate must never turn a live run into a deadlock: when nothing (or nothing but unsuccessful tests) is enabled, open the gates
      if (acts.empty() || (only_false && falses_in_row > 64L * n)) {
        bool opened = false; for (int r = 0; r < n; ++r) if (rk[r].state == 1 && rk[r].h.op == OP_GATE) { rk[r].h.a[4] = -1; acts.push_back(Act{0, r, {}, 0, 0}); opened = true; }
        if (opened) only_false = false; }
      if (acts.empty()) { verdict = "deadlock"; break; }
      if (only_false && !held) { if (++falses_in_row > 256L * n) { verdict = "deadlock-spin"; break; } } else falses_in_row = 0;
      long tot = 0; for (auto& a : acts) { a.weight = weight(a); tot += a.weight; }
      size_t i = 0;
      { long pick = (long)rng.below(tot); for (; i < acts.size(); ++i) { if (pick < acts[i].weight) break; pick -= acts[i].weight; } }
      // systematic (delay-bounded) exploration: at decision j deviate from the seeded choice by a positions
      { auto dv = deviate.find(decision); if (dv != deviate.end()) { i = (i + (size_t)dv->second) % acts.size(); L("deviate decision=%ld by=%ld of=%zu", decision, dv->second, acts.size()); } }
      ++decision;
      Act a = acts[i];
      if (a.kind == 0) { n_answer++; since_progress = 0; answer(a.r); pump(a.r); }
      else if (a.kind == 1) { n_false++; answer(a.r); pump(a.r); }
      else if (a.kind == 2) { n_deliver++; since_progress = 0; icoll_idle = 0; auto m = chan[a.ch].front(); chan[a.ch].pop_front(); L("deliver msg=%d src=%d dst=%d", m->id, m->src, m->dst); rk[m->dst].delivered++; arrive(m); }
      else { n_complete++; since_progress = 0; auto q = rk[a.r].reqs[a.req]; q->done = true; L("sendcomplete r=%d req=%d msg=%d", a.r, q->id, q->smsg->id); }
    }
    return 0;
  }
};
}  // namespace

int main(int argc, char** argv) {
  Coord C; const char* e;
  C.N = (e = getenv("SIMMPI_NODES")) ? atoi(e) : 1; C.P = (e = getenv("SIMMPI_PPN")) ? atoi(e) : 1; C.n = C.N * C.P;
  C.rng.s = (e = getenv("SIMMPI_SEED")) ? strtoull(e, 0, 10) : 1; if ((e = getenv("SIMMPI_EAGER_PCT"))) C.eager_pct = atoi(e);
  if ((e = getenv("SIMMPI_MAX_STEPS"))) C.max_steps = atol(e); if ((e = getenv("SIMMPI_LOG_BYTES"))) C.logbytes = atol(e);
  if ((e = getenv("SIMMPI_LOG"))) C.log = fopen(e, "w");
  if ((e = getenv("SIMMPI_POLICY"))) C.policy = e; if ((e = getenv("SIMMPI_WALL_S"))) C.wall_budget = atol(e); if ((e = getenv("SIMMPI_SPIN"))) C.spin_k = atol(e);
  if ((e = getenv("SIMMPI_DEVIATE"))) { std::string fs(e), tok; std::stringstream ss(fs); while (std::getline(ss, tok, ',')) { size_t c = tok.find(':'); if (c != std::string::npos) C.deviate[atol(tok.substr(0, c).c_str())] = atol(tok.substr(c + 1).c_str()); } } if ((e = getenv("SIMMPI_MAX_LOG_MB"))) C.log_budget = atol(e) << 20; if ((e = getenv("SIMMPI_LIVELOCK"))) C.livelock_k = atol(e);
  if ((e = getenv("SIMMPI_ICOLL_IDLE"))) C.icoll_idle_k = atol(e);
  if ((e = getenv("SIMMPI_PLACEMENT"))) C.cyclic = std::string(e) == "cyclic";
  if ((e = getenv("SIMMPI_HOLD"))) { if (sscanf(e, "%d:%ld", &C.hold_dst, &C.hold_steps) != 2) C.hold_dst = -1; }
  C.racer = (int)(C.rng.s % (uint64_t)C.n);
  signal(SIGPIPE, SIG_IGN);
  C.rk.resize(C.n); C.comms[MPI_COMM_WORLD].members.resize(C.n); C.comms[MPI_COMM_WORLD].seq.assign(C.n, 0);
  for (int r = 0; r < C.n; ++r) C.comms[MPI_COMM_WORLD].members[r] = r;
  fflush(stdout); fflush(stderr);
  for (int r = 0; r < C.n; ++r) {
    int sv[2]; socketpair(AF_UNIX, SOCK_STREAM, 0, sv);
    pid_t pid = fork();
    if (pid == 0) { prctl(PR_SET_PDEATHSIG, SIGKILL); if (const char* asmb = getenv("SIMMPI_AS_MB")) { struct rlimit rl; rl.rlim_cur = rl.rlim_max = (rlim_t)atol(asmb) << 20; setrlimit(RLIMIT_AS, &rl); } close(sv[0]); for (int q = 0; q < r; ++q) close(C.rk[q].fd); if (C.log) fclose(C.log); g_fd = sv[1]; g_world_rank = r; g_world_size = C.n; int rc = sim_main(argc, argv); fflush(stdout); fflush(stderr); _exit(rc); }
    close(sv[1]); C.rk[r].fd = sv[0]; C.rk[r].pid = pid; C.rk[r].state = 0;
  }
  C.run();
  std::string presig = (C.verdict == "ok") ? std::string() : C.signature();
  int bad = 0; std::string exits;
  for (int r = 0; r < C.n; ++r) { if (C.rk[r].reaped) continue; if (C.verdict != "ok") kill(C.rk[r].pid, SIGKILL); int st = 0; waitpid(C.rk[r].pid, &st, 0); if (C.verdict == "ok" && !(WIFEXITED(st) && WEXITSTATUS(st) == 0)) { bad++; exits += " r" + std::to_string(r) + "=" + (WIFSIGNALED(st) ? "sig" + std::to_string(WTERMSIG(st)) : "exit" + std::to_string(WEXITSTATUS(st))); } }
  if (bad && C.verdict == "ok") C.verdict = "rank-failed:" + exits;
  std::string sig = presig;
  printf("SIMMPI verdict=%s steps=%ld deliver=%ld complete=%ld answer=%ld false=%ld\n", C.verdict.c_str(), C.t, C.n_deliver, C.n_complete, C.n_answer, C.n_false);
  if (!sig.empty()) printf("SIMMPI blocked %s\n", sig.c_str());
  if (C.log) { fprintf(C.log, "%ld verdict %s\n", C.t, C.verdict.c_str()); fclose(C.log); }
  return C.verdict == "ok" ? 0 : 3;
}
