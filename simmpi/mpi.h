// simmpi: deterministic simulated MPI (prototype). Only what YGM uses.
#pragma once
#include <cstddef>
#include <cstdint>
extern "C" {
typedef int MPI_Comm; typedef int MPI_Datatype; typedef int MPI_Op; typedef int MPI_Request; typedef int MPI_Info;
struct MPI_Status { int MPI_SOURCE; int MPI_TAG; int MPI_ERROR; int _count; };
#define MPI_SUCCESS 0
#define MPI_ERR_OTHER 15
#define MPI_COMM_NULL 0
#define MPI_COMM_WORLD 1
#define MPI_REQUEST_NULL (-1)
#define MPI_INFO_NULL 0
#define MPI_ANY_SOURCE (-1)
#define MPI_ANY_TAG (-1)
#define MPI_UNDEFINED (-32766)
#define MPI_COMM_TYPE_SHARED 1
#define MPI_STATUS_IGNORE ((MPI_Status*)0)
#define MPI_STATUSES_IGNORE ((MPI_Status*)0)
enum { MPI_BYTE=1, MPI_CHAR, MPI_CXX_BOOL, MPI_INT8_T, MPI_INT16_T, MPI_INT32_T, MPI_INT64_T, MPI_UINT8_T, MPI_UINT16_T, MPI_UINT32_T, MPI_UINT64_T, MPI_FLOAT, MPI_DOUBLE, MPI_LONG_DOUBLE, MPI_INT, MPI_UNSIGNED_LONG, MPI_UNSIGNED_LONG_LONG, MPI_LONG_LONG };
enum { MPI_SUM=1, MPI_MIN, MPI_MAX, MPI_LAND, MPI_LOR };
int MPI_Init(int*, char***); int MPI_Initialized(int*); int MPI_Finalize(); int MPI_Abort(MPI_Comm,int);
int MPI_Comm_size(MPI_Comm,int*); int MPI_Comm_rank(MPI_Comm,int*); int MPI_Comm_dup(MPI_Comm,MPI_Comm*); int MPI_Comm_free(MPI_Comm*);
int MPI_Comm_split(MPI_Comm,int,int,MPI_Comm*); int MPI_Comm_split_type(MPI_Comm,int,int,MPI_Info,MPI_Comm*);
int MPI_Allgather(const void*,int,MPI_Datatype,void*,int,MPI_Datatype,MPI_Comm);
int MPI_Allreduce(const void*,void*,int,MPI_Datatype,MPI_Op,MPI_Comm);
int MPI_Iallreduce(const void*,void*,int,MPI_Datatype,MPI_Op,MPI_Comm,MPI_Request*); int MPI_Ibarrier(MPI_Comm, MPI_Request*);
#define MPI_IDENT 0
#define MPI_CONGRUENT 1
#define MPI_SIMILAR 2
#define MPI_UNEQUAL 3
int MPI_Comm_compare(MPI_Comm, MPI_Comm, int*); int MPI_Request_free(MPI_Request*);
int MPI_Exscan(const void*,void*,int,MPI_Datatype,MPI_Op,MPI_Comm); int MPI_Scan(const void*,void*,int,MPI_Datatype,MPI_Op,MPI_Comm);
int MPI_Bcast(void*,int,MPI_Datatype,int,MPI_Comm); int MPI_Barrier(MPI_Comm);
int MPI_Send(const void*,int,MPI_Datatype,int,int,MPI_Comm); int MPI_Recv(void*,int,MPI_Datatype,int,int,MPI_Comm,MPI_Status*);
int MPI_Sendrecv(const void*,int,MPI_Datatype,int,int,void*,int,MPI_Datatype,int,int,MPI_Comm,MPI_Status*);
int MPI_Isend(const void*,int,MPI_Datatype,int,int,MPI_Comm,MPI_Request*); int MPI_Issend(const void*,int,MPI_Datatype,int,int,MPI_Comm,MPI_Request*);
int MPI_Irecv(void*,int,MPI_Datatype,int,int,MPI_Comm,MPI_Request*);
int MPI_Test(MPI_Request*,int*,MPI_Status*); int MPI_Waitsome(int,MPI_Request*,int*,int*,MPI_Status*);
int MPI_Cancel(MPI_Request*); int MPI_Get_count(const MPI_Status*,MPI_Datatype,int*);
double MPI_Wtime(); int MPI_Error_string(int,char*,int*);
// harness side
void simmpi_gate(int kind, int who, int epoch, int count, int max_steps);   // directed schedules (see simmpi.cpp)
void simmpi_log(const char* line);          // goes into the coordinator's totally ordered log
int  sim_main(int argc, char** argv);       // defined by the harness; runs in every rank process
}
