#!/bin/sh
# Build the framework from files on disk only (offline): Lean library + driver, simmpi object.
set -e
cd "$(dirname "$0")/.."
mkdir -p .build evidence
(cd lean && lake build)
python3 - <<'PY'
import sys, os
sys.path.insert(0, os.path.join(os.getcwd(), "checks"))
from lib import common as C
C.simmpi_obj()
print("setup ok")
PY
