#!/usr/bin/env python3
"""Run the checks against the seeded breaking changes under /verif/seeded/<name>/patch.diff.

For each change: copy /repo/include to a scratch directory, apply the patch there, run the quick check of the
property it breaks (and any extra ones given with --also) with YGM_REPO pointing at the copy, record which
check reported what in seeded/<name>/result.json, and delete the copy.  /repo itself is never touched.

usage: run_seeded.py [name ...] [--tier quick|thorough] [--also C03,C01] [--all-props]
"""
import json
import os
import re
import shutil
import subprocess
import sys
import tempfile

HERE = os.path.dirname(os.path.abspath(__file__))
VERIF = os.path.dirname(HERE)
SEEDED = os.path.join(VERIF, "seeded")
ALL = ["C%02d" % i for i in range(1, 21)]


def run_one(name, tier, also, all_props):
    d = os.path.join(SEEDED, name)
    meta = json.load(open(os.path.join(d, "meta.json")))
    props = [meta["property"]] + [p for p in also if p != meta["property"]]
    if all_props:
        props = [meta["property"]] + [p for p in ALL if p != meta["property"]]
    tmp = tempfile.mkdtemp(prefix="ygmseed-")
    out = {"name": name, "property": meta["property"], "tier": tier, "checks": {}}
    try:
        shutil.copytree("/repo/include", os.path.join(tmp, "include"))
        r = subprocess.run(["patch", "-p1", "-d", tmp, "-i", os.path.join(d, "patch.diff")], capture_output=True, text=True)
        if r.returncode != 0:
            out["error"] = "patch does not apply: " + (r.stdout + r.stderr)[-400:]
            return out
        env = dict(os.environ, YGM_REPO=tmp, YGM_VERIF_EVIDENCE_DIR=os.path.join(tmp, "evidence"))
        for p in props:
            if not os.path.exists(os.path.join(HERE, "props", p.lower() + ".py")):
                continue
            r = subprocess.run([sys.executable, os.path.join(HERE, "check.py"), p, tier], capture_output=True, text=True, env=env, cwd=VERIF, timeout=3600)
            viol = [l for l in r.stdout.split("\n") if l.startswith("VIOLATION")]
            kinds = []
            for v in viol:
                m = re.search(r"replay=(\S+)", v)
                kind = "no-failing-input-found" if v.rstrip().endswith("no-failing-input-found") else "failing-input"
                what = ""
                if m and os.path.exists(m.group(1)):
                    try:
                        rd = json.load(open(m.group(1)))
                        what = rd.get("signature") or "; ".join((x.get("relation") or x.get("theorem") or "") + ": " + str(x.get("what"))[:160] for x in rd.get("no_longer_checks", [])[:2])
                    except Exception:
                        pass
                kinds.append({"kind": kind, "what": what})
            out["checks"][p] = {"exit": r.returncode, "violations": kinds[:3], "summary": (r.stdout.strip().split("\n") or [""])[-1][:300]}
    finally:
        shutil.rmtree(tmp, ignore_errors=True)
    own = out["checks"].get(meta["property"], {})
    out["detected"] = bool(own.get("violations")) or any(c.get("violations") for c in out["checks"].values())
    out["detected_by_own_check"] = bool(own.get("violations"))
    json.dump(out, open(os.path.join(d, "result.json"), "w"), indent=1)
    # restore the evidence files of the unchanged tree is the caller's job (re-run the checks on /repo before committing)
    return out


def main():
    args = sys.argv[1:]
    tier, also, all_props, names = "quick", [], False, []
    i = 0
    while i < len(args):
        if args[i] == "--tier":
            tier = args[i + 1]
            i += 2
        elif args[i] == "--also":
            also = args[i + 1].split(",")
            i += 2
        elif args[i] == "--all-props":
            all_props = True
            i += 1
        else:
            names.append(args[i])
            i += 1
    if not names:
        names = sorted(n for n in os.listdir(SEEDED) if os.path.exists(os.path.join(SEEDED, n, "patch.diff")))
    for n in names:
        o = run_one(n, tier, also, all_props)
        own = o["checks"].get(o["property"], {})
        print(n, "DETECTED" if o.get("detected") else "MISSED", o.get("error", ""),
              {p: [v["kind"] + ":" + v["what"][:60] for v in c["violations"]] for p, c in o["checks"].items() if c["violations"]})


if __name__ == "__main__":
    main()
