#!/usr/bin/env python3
"""Regenerate the seeded-change table of DESIGN.md (between the SEEDED-TABLE markers) from seeded/*/{meta,result,confirm}.json."""
import json
import os
import re

HERE = os.path.dirname(os.path.abspath(__file__))
VERIF = os.path.dirname(HERE)
SEEDED = os.path.join(VERIF, "seeded")
rows = []
for n in sorted(os.listdir(SEEDED)):
    d = os.path.join(SEEDED, n)
    if not os.path.exists(os.path.join(d, "meta.json")):
        continue
    meta = json.load(open(os.path.join(d, "meta.json")))
    res = json.load(open(os.path.join(d, "result.json"))) if os.path.exists(os.path.join(d, "result.json")) else {}
    conf = json.load(open(os.path.join(d, "confirm.json"))) if os.path.exists(os.path.join(d, "confirm.json")) else {}
    by = []
    for p, c in (res.get("checks") or {}).items():
        for v in c.get("violations", [])[:1]:
            by.append(f"{p}: {v['kind']} ({v['what'][:50]})")
    needs = str(meta.get("needs_to_manifest", ""))[:150].replace("|", "/").replace("\n", " ")
    what = str(meta.get("what_it_breaks", meta.get("name", "")))[:150].replace("|", "/").replace("\n", " ")
    c = "yes" if conf.get("confirmed") else ("pending" if not conf else "NO: " + str(conf.get("error") or conf.get("suite", {}).get("line") or "")[:40])
    rows.append(f"| {n} | {what} | {needs} | {'; '.join(by) if by else ('MISSED' if res else 'not run')} | {c} |")
table = "| change | what it breaks | needs | caught by (quick tier) | confirmed (suite passes, demo fails/passes) |\n|---|---|---|---|---|\n" + "\n".join(rows)
p = os.path.join(VERIF, "DESIGN.md")
s = open(p).read()
repl = "<!-- SEEDED-TABLE -->\n" + table + "\n<!-- /SEEDED-TABLE -->"
s = re.sub(r"<!-- SEEDED-TABLE -->.*?<!-- /SEEDED-TABLE -->", lambda m: repl, s, flags=re.S)
open(p, "w").write(s)
print(len(rows), "rows")
