#!/usr/bin/env python3
"""Confirm a seeded breaking change independently of the agent that wrote it:
  (a) with the patch applied to a scratch git worktree of /repo the whole test suite still builds,
  (b) the suite still passes (ctest, 4 ranks, Open MPI),
  (c) the demonstration fails with the patch and passes without it.
Writes seeded/<name>/confirm.json.  The worktree lives at the path the demonstration's run.sh expects
(/tmp/seed_<ID>) and is removed afterwards, together with its build output.

usage: confirm_seed.py <name> [<name> ...]     (names under /verif/seeded)
"""
import json
import os
import re
import shutil
import subprocess
import sys
import time

HERE = os.path.dirname(os.path.abspath(__file__))
VERIF = os.path.dirname(HERE)
SEEDED = os.path.join(VERIF, "seeded")
ENV = dict(os.environ, OMPI_ALLOW_RUN_AS_ROOT="1", OMPI_ALLOW_RUN_AS_ROOT_CONFIRM="1")


def sh(cmd, cwd=None, timeout=3600, env=None):
    try:
        r = subprocess.run(cmd, shell=True, cwd=cwd, capture_output=True, text=True, timeout=timeout, env=env or ENV)
        return r.returncode, (r.stdout + r.stderr)
    except subprocess.TimeoutExpired as ex:
        subprocess.run("pkill -9 -f /tmp/seed_ || true", shell=True)
        return 124, "TIMEOUT " + str(ex.stdout or "")[-500:]


def run_demo(d, wt):
    """run the demonstration; returns (exit code, tail of output)"""
    runsh = os.path.join(d, "run.sh")
    work = os.path.join(wt, "_demo")
    shutil.rmtree(work, ignore_errors=True)
    os.makedirs(work)
    for f in os.listdir(d):
        if f.endswith((".cpp", ".hpp", ".sh", ".py", ".txt", ".csv", ".json")) and f not in ("meta.json", "result.json", "confirm.json"):
            shutil.copy(os.path.join(d, f), work)
    if os.path.exists(runsh):
        return sh("timeout 900 bash ./run.sh", cwd=work, timeout=1000)
    rc, out = sh(f"mpicxx -std=c++17 -O1 -I{wt}/include demo.cpp -o demo", cwd=work)
    if rc != 0:
        return rc, "demo does not compile: " + out[-800:]
    return sh("timeout 600 mpirun --oversubscribe -n 4 ./demo", cwd=work, timeout=700)


def demo_failed(rc, out):
    """did the demonstration report a failure?  (some run.sh scripts end with an echo and always exit 0)"""
    if rc != 0:
        return True
    m = re.findall(r"exit code:?\s*(\d+)", out)
    if m and any(int(x) != 0 for x in m):
        return True
    return bool(re.search(r"\b(DEMO FAIL|FAIL:|RESULT: FAIL|VIOLATION)\b", out)) and not re.search(r"\bPASS\b", out.split("\n")[-3] if out.count("\n") > 3 else out)


def confirm(name):
    d = os.path.join(SEEDED, name)
    meta = json.load(open(os.path.join(d, "meta.json")))
    pid = meta["property"]
    wt = meta.get("worktree") or f"/tmp/seed_{pid}"
    res = {"name": name, "at": time.strftime("%Y-%m-%d %H:%M:%S"), "worktree": wt}
    sh(f"git -C /repo worktree remove --force {wt}")
    shutil.rmtree(wt, ignore_errors=True)
    rc, out = sh(f"git -C /repo worktree add --detach {wt} HEAD")
    if rc != 0:
        res["error"] = "worktree: " + out[-300:]
        return res
    try:
        # demonstration on the unchanged tree first
        rc0, out0 = run_demo(d, wt)
        res["demo_without_change"] = {"exit": rc0, "tail": out0[-600:]}
        rc, out = sh(f"git -C {wt} apply {os.path.join(d, 'patch.diff')}")
        if rc != 0:
            res["error"] = "patch does not apply to the current tree: " + out[-300:]
            return res
        rc1, out1 = run_demo(d, wt)
        tries = 1
        while not demo_failed(rc1, out1) and tries < 4:   # timing-dependent demonstrations: up to 4 attempts
            rc1, out1 = run_demo(d, wt)
            tries += 1
        res["demo_with_change"] = {"exit": rc1, "tail": out1[-600:], "attempts": tries}
        rc, out = sh(f"cmake -G Ninja -S {wt} -B {wt}/_b >/dev/null 2>&1 && cmake --build {wt}/_b 2>&1 | tail -5", timeout=5400)
        res["suite_builds"] = (rc == 0)
        if rc != 0:
            res["build_tail"] = out[-600:]
        else:
            rc, out = sh(f"ctest --test-dir {wt}/_b -j6 --timeout 900 2>&1 | tail -15", timeout=5400)
            m = re.search(r"(\d+)% tests passed, (\d+) tests failed out of (\d+)", out)
            res["suite"] = {"passed_all": bool(m and m.group(2) == "0"), "line": m.group(0) if m else out[-300:]}
            if m and m.group(2) != "0":
                failed = re.findall(r"^\s+\d+ - (\S+)", out, re.M)
                # a failure under heavy machine load is retried once, alone
                rc, out2 = sh(f"ctest --test-dir {wt}/_b --rerun-failed --timeout 900 2>&1 | tail -8", timeout=3600)
                m2 = re.search(r"(\d+)% tests passed, (\d+) tests failed out of (\d+)", out2)
                res["suite"]["first_run_failed"] = failed
                res["suite"]["rerun_failed_line"] = m2.group(0) if m2 else out2[-300:]
                res["suite"]["passed_all"] = bool(m2 and m2.group(2) == "0")
        res["demo_fails_with_change"] = demo_failed(rc1, out1)
        res["demo_passes_without_change"] = not demo_failed(rc0, out0)
        res["confirmed"] = bool(res.get("suite_builds") and res.get("suite", {}).get("passed_all") and res["demo_fails_with_change"] and res["demo_passes_without_change"])
    finally:
        sh(f"git -C /repo worktree remove --force {wt}")
        shutil.rmtree(wt, ignore_errors=True)
    return res


def main():
    for name in sys.argv[1:]:
        r = confirm(name)
        json.dump(r, open(os.path.join(SEEDED, name, "confirm.json"), "w"), indent=1)
        print(name, "CONFIRMED" if r.get("confirmed") else "NOT-CONFIRMED", r.get("error", ""),
              "demo:", r.get("demo_without_change", {}).get("exit"), "->", r.get("demo_with_change", {}).get("exit"),
              "suite:", r.get("suite", {}).get("line"))


if __name__ == "__main__":
    main()
