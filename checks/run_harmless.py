#!/usr/bin/env python3
"""Run every check against the behaviour-preserving rewrites under /verif/harmless/<name>/patch.diff.
Expected: no VIOLATION with a failing input (that would be a false alarm); a `no-failing-input-found` report means a model /
code correspondence broke although the property holds (tolerated by the rule, but recorded).  Writes harmless/<name>/result.json.
usage: run_harmless.py [name ...] [--props C01,C02] [--jobs 3]"""
import json
import os
import re
import shutil
import subprocess
import sys
import tempfile
from concurrent.futures import ThreadPoolExecutor

HERE = os.path.dirname(os.path.abspath(__file__))
VERIF = os.path.dirname(HERE)
HARM = os.path.join(VERIF, "harmless")
ALL = ["C%02d" % i for i in range(1, 21)]


def run_one(name, props):
    d = os.path.join(HARM, name)
    tmp = tempfile.mkdtemp(prefix="ygmharm-")
    out = {"name": name, "checks": {}}
    try:
        shutil.copytree("/repo/include", os.path.join(tmp, "include"))
        r = subprocess.run(["patch", "-p1", "-d", tmp, "-i", os.path.join(d, "patch.diff")], capture_output=True, text=True)
        if r.returncode != 0:
            out["error"] = "patch does not apply: " + (r.stdout + r.stderr)[-300:]
            return out
        env = dict(os.environ, YGM_REPO=tmp, YGM_VERIF_EVIDENCE_DIR=os.path.join(tmp, "evidence"))
        for p in props:
            r = subprocess.run([sys.executable, os.path.join(HERE, "check.py"), p, "quick"], capture_output=True, text=True, env=env, cwd=VERIF, timeout=3600)
            viol = [l for l in r.stdout.split("\n") if l.startswith("VIOLATION")]
            kinds = []
            for v in viol[:3]:
                m = re.search(r"replay=(\S+)", v)
                kind = "no-failing-input-found" if v.rstrip().endswith("no-failing-input-found") else "failing-input"
                what = ""
                if m and os.path.exists(m.group(1)):
                    try:
                        rd = json.load(open(m.group(1)))
                        what = rd.get("signature") or "; ".join((x.get("relation") or x.get("theorem") or "") + ": " + str(x.get("what"))[:200] for x in rd.get("no_longer_checks", [])[:2])
                    except Exception:
                        pass
                kinds.append({"kind": kind, "what": what})
            if kinds:
                out["checks"][p] = kinds
    finally:
        shutil.rmtree(tmp, ignore_errors=True)
    out["false_alarms"] = sorted(p for p, k in out["checks"].items() if any(x["kind"] == "failing-input" for x in k))
    out["correspondence_only"] = sorted(p for p, k in out["checks"].items() if all(x["kind"] != "failing-input" for x in k))
    json.dump(out, open(os.path.join(d, "result.json"), "w"), indent=1)
    return out


def main():
    args = sys.argv[1:]
    props, jobs, names = ALL, 3, []
    i = 0
    while i < len(args):
        if args[i] == "--props":
            props = args[i + 1].split(",")
            i += 2
        elif args[i] == "--jobs":
            jobs = int(args[i + 1])
            i += 2
        else:
            names.append(args[i])
            i += 1
    if not names:
        names = sorted(n for n in os.listdir(HARM) if os.path.exists(os.path.join(HARM, n, "patch.diff")))
    with ThreadPoolExecutor(max_workers=jobs) as ex:
        for o in ex.map(lambda n: run_one(n, props), names):
            print(o["name"], "QUIET" if not o["checks"] else "ALARM", o.get("error", ""), {p: [k["kind"] + ":" + k["what"][:80] for k in v] for p, v in o["checks"].items()}, flush=True)


if __name__ == "__main__":
    main()
