#!/usr/bin/env python3
"""Regenerate MANIFEST.json from the META dict of every checks/props/cXX.py.
A property without a module (or with META['claimed'] False) goes to not_applicable."""
import importlib
import json
import os
import sys

HERE = os.path.dirname(os.path.abspath(__file__))
VERIF = os.path.dirname(HERE)
sys.path.insert(0, HERE)

props = [json.loads(l) for l in open(os.path.join(VERIF, "properties.jsonl"))]
# only checks that were reviewed and seen quiet on the unchanged tree at several seeds are claimed
READY = set(json.load(open(os.path.join(HERE, "ready.json"))))
checks, na, served = [], [], []
for p in props:
    pid = p["id"]
    meta = None
    if os.path.exists(os.path.join(HERE, "props", pid.lower() + ".py")):
        meta = getattr(importlib.import_module("props." + pid.lower()), "META", None)
    if not meta or not meta.get("claimed") or pid not in READY:
        na.append({"property_id": pid, "reason": (meta or {}).get("reason", "check under construction (DESIGN.md §8 build order); not claimed yet")})
        continue
    served.append(pid)
    checks.append({
        "property_id": pid,
        "quick_cmd": f"python3 checks/check.py {pid} quick",
        "thorough_cmd": f"python3 checks/check.py {pid} thorough",
        "evidence_file": f"evidence/{pid}.json",
        "replay_cmd_template": f"python3 checks/check.py {pid} --replay {{path}}",
        "engine": "lean4-proof+correspondence",
        "level_claimed": {"category": "proof", "text": meta["text"], "design_ref": "DESIGN.md §6 " + pid},
        "level_note": meta["note"],
        "technique": meta["technique"]})
hook_commits = []
hp = os.path.join(VERIF, "hooks.json")
if os.path.exists(hp):
    hook_commits = json.load(open(hp)).get("source_commits", [])
m = {"version": 1,
     "setup_cmd": "sh checks/setup.sh",
     "hooks": {"guard": "YGM_VERIF_HOOKS",
               "enable": "harnesses are compiled by checks/lib/common.py with -DYGM_VERIF_HOOKS against /repo/include",
               "baseline_off_cmd": "cmake -G Ninja -S /repo -B /repo/_build >/dev/null && cmake --build /repo/_build && OMPI_ALLOW_RUN_AS_ROOT=1 OMPI_ALLOW_RUN_AS_ROOT_CONFIRM=1 ctest --test-dir /repo/_build -j8 --timeout 900",
               "source_commits": hook_commits, "add_only": True},
     "engines": [{"name": "lean4-proof+correspondence", "path": "checks/check.py", "serves_properties": served,
                  "kind_free_text": "Lean 4.33 theorems (lean/YgmVerif/Props) about executable models (lean/YgmVerif/Model); the same definitions run in the ygm_model driver and are compared with the real headers of /repo run under a deterministic simulated MPI (simmpi/)"}],
     "checks": checks,
     "not_applicable": na,
     "notes": "DESIGN.md explains approach, trusted base and per-property strength. known_findings.json lists genuine defects (fixed / known)."}
json.dump(m, open(os.path.join(VERIF, "MANIFEST.json"), "w"), indent=1)
print("claimed:", served, "not claimed:", [x["property_id"] for x in na])
