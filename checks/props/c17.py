"""C17 — disjoint_set connectivity equals the union graph; merges are reported once.

Tie (a): 1-rank runs are FIFO, so the Lean message system YgmVerif.DSet with a FIFO scheduler must
reproduce the real (rank, parent) of every item after every barrier, the callback sequence, num_sets,
size and the effect of all_find / for_all exactly.
Tie (b): multi-rank runs (2..8 ranks, 2x2 / 2x3 / 2x4 layouts, the three routings, buffer 0 / 1 KB /
default, five scheduler policies, several sim seeds): the property's own clauses are evaluated on the
real outputs against a sequential union-find; the Lean invariants (`checkLex`, `checkClosed`) are
evaluated by the driver on the real dumped parent maps; the schedule-independent predictions of the
model (partition, num_sets, size, number of callbacks) under a random delivery order are compared."""
import os
import random

from lib import common as C

# Scenario (on by default since D9 was repaired in /repo): unions issued DIRECTLY AFTER clear() with no barrier-containing
# call in between.  Before the repair a rank that left clear() early could have its new unions handled by a rank still
# inside clear()'s barrier, which wiped them afterwards (clear() = barrier; local clear, with no closing barrier).  The
# symptoms of that race in such scripts get the signature prefix "dset-clear-race".
POST_CLEAR_NOBARRIER = os.environ.get("C17_POST_CLEAR_NOBARRIER", "1") == "1"

META = {
    "claimed": True,
    "technique": "Lean 4 proof over a message-system model of async_union (all delivery orders, all union sequences) + FIFO-exact "
                 "correspondence on 1 rank + oracle/invariant correspondence on multi-rank simulated runs",
    "text": "YgmVerif.DSet models m_local_item_parent_map and the walk / set-parent / resolve messages of async_union and "
            "async_union_and_execute with handler bodies transcribed literally and any in-flight message deliverable next. Proved for every "
            "reachable state: (rank,item) strictly increases along parent links (lex_increasing), hence lookups terminate (find_terminates, "
            "root_isRoot) and the resolve_merge ASSERT_RELEASEs cannot fire (no_abort); trees stay inside union-graph components (sound); "
            "path splitting never separates items (sameTree_mono) and at quiescence connected items share a root (complete); #merges + "
            "num_sets = size, callbacks = exec merges, callback edges join distinct trees and form a forest; representatives are members. "
            "clear() is a step enabled only at quiescence (it starts with a barrier) that re-establishes the initial invariant: afterwards size = "
            "num_sets = 0 and later connectivity equals the graph of the unions issued since (clear_resets, connectivity_after_clear). "
            "The runs also cover one process using two communicators of different size (the same script on MPI_Comm_split sub-communicators "
            "before/after the world run) and two disjoint_set objects of the same type alive on one communicator, each judged independently.",
    "note": "Trusted: Lean kernel + propext/Classical.choice/Quot.sound; the hand-written model DSet.lean, tied to disjoint_set_impl.hpp by "
            "exact FIFO replay on one rank and by invariants/partition comparison on the explored multi-rank schedules; handler atomicity "
            "and exactly-once delivery are DERIVED from the communicator model (Props/ContainersComm: DSetComm.C17_connectivity_after_barrier: every Comm history projects to a DSet history and is quiescent at barrier exit); all_compress is modelled only by its effect "
            "(every item points at its root) and checked by comparison, its level-by-level query protocol is not proved; int16 rank "
            "overflow ignored (needs 2^32767 items).",
}

RULE = ("environment dimension rotated over the cases: YGM_COMM_ISSEND_FREQ 0/1/default, YGM_COMM_NUM_IRECVS 1/2/default, YGM_COMM_NUM_ISENDS_WAIT "
        "0/1/4/default, cyclic rank placement on a third of the multi-node cases; item types int64_t / std::string / double (number 0 named +0.0 and "
        "-0.0 alternately: one item; 4 and 8 ranks preferred); epochs: the container is destroyed right after fire-and-forget unions and the next "
        "one constructed at the same address, each epoch judged against its own unions only. special inputs: all_find of items never passed to any union (on empty and non-empty containers; answer = the item itself, a singleton "
        "(0,item) is created: size/num_sets/for_all/later unions see it), self-loops through async_union and async_union_and_execute on items "
        "occurring in no other edge (item created, nothing merged, no callback; size()/num_sets() are read BEFORE the dump visitor could create "
        "it), disjoint_set<std::string> in every sixth case. two-communicator / two-container dimension: a quarter of the multi-rank cases run the same script (same function, same template "
        "instantiations) on sub-communicators of another size built with MPI_Comm_split (parity of the rank, last rank vs. the rest, or one per node) BEFORE the world "
        "run (some: after), each colour group judged by the same oracle on its fewer ranks; every fifth case keeps a second disjoint_set<int64_t> "
        "alive on the same communicator with its own script interleaved token by token, each container judged independently against its own oracle and "
        "model run. a case = (union script with 0..2 clear() calls, layout, routing, buffer, policy, sim seed, comm mode, #containers); unions issued directly before a clear() "
        "(no barrier in between, possibly by one rank only) must be completed by it and must not survive it; after clear(): size = num_sets = 0 and the "
        "reference union-find restarts; non-trivial = at least one root merge happened; 1-rank cases are "
        "compared state-by-state with the model under FIFO, multi-rank cases by oracle + Lean invariant evaluation + partition comparison")

LAYOUTS = [(1, 2), (1, 3), (2, 2), (1, 4), (1, 5), (2, 3), (1, 7), (2, 4)]
ROUTINGS = ["NONE", "NR", "NLNR"]
BUFFERS = [0, 1, None]
POLICIES = ["uniform", "racer", "starve", "late", "burst"]


# ------------------------------------------------------------------ script generation

def gen_edges(rnd, family, universe):
    n = len(universe)
    E = []
    if family == "sparse":
        for _ in range(rnd.randrange(n // 2, 2 * n)):
            E.append((rnd.choice(universe), rnd.choice(universe)))
    elif family == "chain":
        order = list(universe)
        mode = rnd.randrange(3)
        if mode == 0:
            order.sort()
        elif mode == 1:
            order.sort(reverse=True)
        else:
            rnd.shuffle(order)
        E = [(order[i], order[i + 1]) for i in range(n - 1)]
        if rnd.random() < 0.5:
            rnd.shuffle(E)
        if rnd.random() < 0.5:
            E = [(b, a) for a, b in E]
    elif family == "clique":
        k = min(n, rnd.randrange(4, 9))
        c = rnd.sample(universe, k)
        E = [(a, b) for a in c for b in c if a != b and rnd.random() < 0.8]
        rnd.shuffle(E)
    elif family == "star":
        h = rnd.choice(universe)
        E = [((h, x) if rnd.random() < 0.5 else (x, h)) for x in universe if x != h]
        rnd.shuffle(E)
    elif family == "dups":
        base = [(rnd.choice(universe), rnd.choice(universe)) for _ in range(max(2, n // 3))]
        for a, b in base:
            for _ in range(rnd.randrange(1, 5)):
                E.append((a, b) if rnd.random() < 0.5 else (b, a))
        E += [(x, x) for x in rnd.sample(universe, min(n, 3))]
        rnd.shuffle(E)
    elif family == "pairs-then-join":
        u = list(universe)
        rnd.shuffle(u)
        E = [(u[i], u[i + 1]) for i in range(0, n - 1, 2)]
        E += [(u[i], u[i + 2]) for i in range(0, n - 2, 4)]
        E += [(u[i + 1], u[i + 4]) for i in range(0, n - 4, 8)]
    return E


FAMILIES = ["sparse", "chain", "clique", "star", "dups", "pairs-then-join"]


def gen_script(rnd, nranks, big, zero=False):
    """returns dict(tokens, steps, ...).  steps: ("ops", [(kind, rank|'*', a, b)]), ("dump", id), ("find", id, mode, extras),
    ("forall", id), ("clear", k).  A script has 1..3 segments separated by clear(); the last batch of unions before a
    clear() is usually NOT followed by any barrier-containing call: clear() itself has to complete it, and nothing of it may
    survive into the next segment, which reuses the same items."""
    nitems = rnd.choice([3, 5, 8, 12, 20, 32] if not big else [8, 16, 32, 48, 64])
    spread = rnd.choice([1, 1, 7, 1000])
    universe = sorted(rnd.sample(range(0, nitems * spread + 1), nitems))
    if zero and 0 not in universe:
        universe[0] = 0       # double items: number 0 is named +0.0 and -0.0 by the harness; it must be ONE item
    kindmode = rnd.choice(["u", "x", "x", "mixed", "u-then-x"])
    nseg = 1 if rnd.random() < 0.5 else rnd.choice([2, 2, 3])
    toks, steps = [], []
    did = 0
    fam_used = []
    fresh_next = [max(universe) + 1]

    def fresh(k):
        """k items that occur nowhere else in the script so far"""
        out = []
        for _ in range(k):
            fresh_next[0] += rnd.choice([1, 1, 2, 5, 97])
            out.append(fresh_next[0])
        return out

    def find_step(pool):
        """all_find, for half of them also of items that were never passed to any union (the container must answer the item
        itself and create a singleton); then size/num_sets, a dump, sometimes for_all.  Returns the never-unioned items."""
        nonlocal did
        mode = rnd.choice(["a", "s", "e"])
        extras = fresh(rnd.choice([1, 2, 3])) if rnd.random() < 0.5 else []
        toks.append(f"F:{did}:{mode}" + ((":" + ",".join(map(str, extras))) if extras else ""))
        toks.extend([f"N:{did}", f"D:{did}"])
        steps.append(("find", did, mode, extras))
        steps.append(("dump", did))
        did += 1
        if extras and rnd.random() < 0.4:
            toks.extend([f"A:{did}", f"N:{did}", f"D:{did}"])
            steps.append(("forall", did))
            steps.append(("dump", did))
            did += 1
        pool.extend(extras)
        return extras

    for seg in range(nseg):
        last_seg = seg == nseg - 1
        pool = []      # items created by all_find in this segment: later unions of the segment involve them
        if rnd.random() < 0.12:
            find_step(pool)      # all_find on an empty container
        if nseg == 1:
            nep = rnd.choice([1, 2, 2, 3]) if kindmode != "u-then-x" else rnd.choice([2, 3])
        else:
            nep = rnd.choice([1, 1, 2]) if kindmode != "u-then-x" else 2
        for ep in range(nep):
            fam = rnd.choice(FAMILIES)
            fam_used.append(fam)
            sub = universe if rnd.random() < 0.6 else rnd.sample(universe, max(2, nitems // 2))
            E = gen_edges(rnd, fam, sub)
            if not E:
                E = [(sub[0], sub[-1])]
            if zero:
                for _ in range(rnd.choice([1, 2, 3])):
                    x = rnd.choice(sub)
                    E.insert(rnd.randrange(len(E) + 1), rnd.choice([(0, x), (x, 0), (0, 0)]))
            for z in pool:       # further unions involving the items all_find created
                if rnd.random() < 0.7:
                    E.insert(rnd.randrange(len(E) + 1), (z, rnd.choice(sub)) if rnd.random() < 0.5 else (rnd.choice(sub), z))
            if rnd.random() < 0.3:
                # self-loops on items that occur in no other edge: the union (either kind) must create the item, merge
                # nothing and fire no callback; and on items that do occur elsewhere
                for z in fresh(rnd.choice([1, 2])):
                    E.insert(rnd.randrange(len(E) + 1), (z, z))
                E.insert(rnd.randrange(len(E) + 1), (sub[0], sub[0]))
            raw = (not last_seg) and ep == nep - 1 and rnd.random() < 0.8    # unions, then clear() at once
            one_rank = rnd.randrange(nranks) if (raw and rnd.random() < 0.5) else None   # only one rank has issued anything
            ops = []
            conc = rnd.random() < 0.35 and one_rank is None
            for (a, b) in E:
                if kindmode == "mixed":
                    kind = rnd.choice(["u", "x"])
                elif kindmode == "u-then-x":
                    kind = "u" if ep == 0 else "x"
                else:
                    kind = kindmode
                if one_rank is not None:
                    ops.append((kind, one_rank, a, b))
                elif conc and rnd.random() < 0.3:
                    ops.append((kind, "*", a, b))
                else:
                    ops.append((kind, rnd.randrange(nranks), a, b))
            for (k, r, a, b) in ops:
                toks.append(f"{k}:{r}:{a}:{b}")
            steps.append(("ops", ops))
            if raw:
                continue
            # size()/num_sets() BEFORE the dump: the dump's async_visit would create an item the unions failed to create
            toks += [f"N:{did}", f"D:{did}"]
            steps.append(("dump", did))
            did += 1
            c = rnd.random()
            if c < 0.35:
                find_step(pool)
            elif c < 0.6:
                toks += [f"A:{did}", f"N:{did}", f"D:{did}"]
                steps.append(("forall", did))
                steps.append(("dump", did))
                did += 1
        if not last_seg:
            # K = clear(); E = end of an epoch: the container is destroyed (its destructor has to complete the unions just
            # issued) and the next epoch's container is constructed at the same address.  Both: empty container afterwards.
            toks.append("K" if rnd.random() < 0.5 else "E")
            steps.append(("clear", seg))
            if POST_CLEAR_NOBARRIER and rnd.random() < 0.4:
                continue      # next segment's unions follow clear() immediately
            # size()/num_sets() right after clear() must be 0/0 (an empty dump: no item is known any more)
            toks += [f"N:{did}", f"D:{did}"]
            steps.append(("dump", did))
            did += 1
    return {"tokens": toks, "steps": steps, "universe": universe, "kindmode": kindmode, "families": fam_used, "clears": nseg - 1}


# ------------------------------------------------------------------ reference union-find

class UF:
    def __init__(self):
        self.p = {}

    def find(self, x):
        self.p.setdefault(x, x)
        while self.p[x] != x:
            self.p[x] = self.p[self.p[x]]
            x = self.p[x]
        return x

    def union(self, a, b):
        ra, rb = self.find(a), self.find(b)
        if ra != rb:
            self.p[ra] = rb
            return True
        return False

    def classes(self):
        d = {}
        for x in list(self.p):
            d.setdefault(self.find(x), set()).add(x)
        return sorted(sorted(c) for c in d.values())


def partition_of(labels):
    d = {}
    for x, r in labels.items():
        d.setdefault(r, set()).add(x)
    return sorted(sorted(c) for c in d.values())


# ------------------------------------------------------------------ running and parsing

def run_real(binary, case):
    nodes, ppn = case["layout"]
    env = {}
    if case.get("routing"):
        env["YGM_COMM_ROUTING"] = case["routing"]
    if case.get("buffer") is not None:
        env["YGM_COMM_BUFFER_SIZE_KB"] = case["buffer"]
    for k, v in (case.get("env") or {}).items():      # YGM_COMM_ISSEND_FREQ / NUM_IRECVS / NUM_ISENDS_WAIT
        env[k] = v
    if case.get("placement"):
        env["SIMMPI_PLACEMENT"] = case["placement"]
    mtok = "M:" + case.get("mode", "w") + (":2" if case.get("two") else "") + {"str": ":str", "dbl": ":dbl"}.get(case.get("items"), "")
    return C.run_sim(binary, [mtok] + list(case["tokens"]), nodes=nodes, ppn=ppn, env=env, sim_seed=case["sim_seed"],
                     policy=case["policy"], want_log=False, timeout=120, max_steps=120000, livelock=60000)


def sub_groups(mode, nranks, ppn=None):
    """world ranks of every colour group of the sub-communicator split the harness performs (key = world rank)"""
    kind = mode.split(":")[1] if ":" in mode else "p"
    ppn = ppn or nranks
    col = (lambda r: r % 2) if kind == "p" else ((lambda r: r // ppn) if kind == "n" else (lambda r: 0 if r < nranks - 1 else 1))
    g = {}
    for r in range(nranks):
        g.setdefault(col(r), []).append(r)
    return [g[k] for k in sorted(g)]


def parse_outs(sr, ranks, run="w", cid=0):
    """-> dict with dumps[id] = [(item, rank, parent, on_rank)], n[id] = [(numsets,size) per rank],
    finds[id] = [(item, rep, on_rank)], fq[id] = [(asked, returned)], foralls[id] = [(item, rep, on_rank)],
    cbs = [(epoch, a, b, clears-returned-on-that-rank)]"""
    o = {"dumps": {}, "n": {}, "finds": {}, "fq": {}, "foralls": {}, "cbs": [], "ended": 0}
    if isinstance(ranks, int):
        ranks = range(ranks)
    tag, tag0 = f"@{run}.{cid}", f"@{run}.0"
    for r, wr in enumerate(ranks):      # r = rank within the judged communicator
        for l in sr.outs.get(wr, []):
            w = l.split()
            if len(w) < 2:
                continue
            if w[0] == tag0 and w[1] == "end":
                o["ended"] += 1
                continue
            if w[0] != tag:
                continue
            w = w[1:]
            if w[0] == "d":
                o["dumps"].setdefault(int(w[1]), []).append((int(w[2]), int(w[3]), int(w[4]), r))
            elif w[0] == "n":
                o["n"].setdefault(int(w[1]), []).append((int(w[2]), int(w[3])))
            elif w[0] == "f":
                o["finds"].setdefault(int(w[1]), []).append((int(w[2]), int(w[3]), r))
            elif w[0] == "fq":
                o["fq"].setdefault(int(w[1]), []).append((int(w[2]), int(w[3])))
            elif w[0] == "a":
                o["foralls"].setdefault(int(w[1]), []).append((int(w[2]), int(w[3]), r))
            elif w[0] == "c":
                o["cbs"].append((int(w[1]), int(w[2]), int(w[3]), int(w[4]) if len(w) > 4 else 0))
    return o


def model_tokens(script, nranks):
    """the same script for the Lean driver (`*` edges are issued once per rank) and the meaning of each
    section it emits: ("dump", id) or ("preclear", k) = the state clear() k wipes (after its barrier)"""
    toks, labels = [], []
    known = set()
    for st in script["steps"]:
        if st[0] == "ops":
            for (k, r, a, b) in st[1]:
                known.update((a, b))
                for _ in range(nranks if r == "*" else 1):
                    toks.append(f"{k}:{a}:{b}")
        elif st[0] == "dump":
            toks += ["B", "D"]
            labels.append(("dump", st[1]))
        elif st[0] == "find":
            known.update(st[3] if len(st) > 3 else [])    # never-unioned items: DSet.compress visits (= inserts (0, item)) them
            toks += ["B", "F:" + ",".join(map(str, sorted(known)))]   # the ranks together ask for every known item
        elif st[0] == "forall":
            toks += ["B", "A"]
        elif st[0] == "barrier":
            toks.append("B")        # a barrier-containing call on the OTHER container of the same communicator
        elif st[0] == "clear":
            toks += ["B", "D", "K"]
            labels.append(("preclear", st[1]))
            known = set()
    toks += ["B", "D"]
    labels.append(("final", None))
    return toks, labels


def parse_model_sections(line):
    secs = []
    for sec in line.split(" | "):
        parts = [p.strip() for p in sec.split(";")]
        d = {}
        for p in parts:
            w = p.split()
            if not w:
                continue
            d[w[0]] = w[1:]
        ents = {}
        for t in d.get("d", []):
            a, r, p, rt = t.split(":")
            ents[int(a)] = (int(r), int(p), int(rt))
        secs.append({"ents": ents, "numsets": int(d["n"][0]), "size": int(d["n"][1]),
                     "cbs": [tuple(int(x) for x in t.split(":")) for t in d.get("c", [])],
                     "merges": int(d["m"][0]), "aborted": d["ab"][0] == "1"})
    return secs


# ------------------------------------------------------------------ the property's clauses on one run

def fail(res, what, sig, case, extra=None):
    c = dict(case)
    if extra:
        c["observed"] = extra
    res.oracle_failures.append({"what": what, "signature": sig, "case": c})


def classify_verdict(sr):
    """None when the run completed; else (kind, signature-or-None): foreign = a failure of the
    communication layer that C17 does not own (reported by C03/C08)"""
    if sr.verdict == "ok":
        return None
    err = sr.stderr or ""
    if "disjoint_set_impl.hpp" in err:
        which = "my_rank >= merging_rank" if "my_rank >= merging_rank" in err else (
            "my_rank == merging_rank" if "my_rank == merging_rank" in err else "other")
        return ("dset", "dset-assert " + which)
    if sr.verdict.startswith("rank-failed") and "comm.ipp" in err:
        return ("foreign", None)
    if sr.verdict in ("livelock", "step-budget", "wall-timeout"):
        return ("dset", "dset-nontermination " + sr.verdict)
    if sr.verdict.startswith("deadlock"):
        return ("foreign", None)
    return ("dset", "dset-run-failed " + sr.verdict)


def oracle_run(res, case, script, o, nranks):
    """evaluate the clauses of C17 on the parsed real outputs; returns per-dump summaries"""
    uf = UF()
    issued_exec = {}
    known = set()
    summaries = []
    last_roots = None
    nmerged = 0
    exact_cb = 0
    seg = 0

    def check_callbacks():
        # callbacks of this segment: acyclic, inside the issued exec edges of the segment, count
        cbs = [(a, b) for (_, a, b, sg) in o["cbs"] if sg == seg]
        cuf = UF()
        left = dict(issued_exec)
        for (a, b) in cbs:
            if left.get((a, b), 0) <= 0:
                fail(res, f"callback ({a},{b}) does not correspond to an async_union_and_execute issued since the last clear (or ran more often than issued)",
                     "dset-callback-foreign", case, {"segment": seg})
                break
            left[(a, b)] -= 1
            if not cuf.union(a, b):
                fail(res, f"callback edges contain a cycle (edge ({a},{b}) joins items already joined by earlier callbacks)", "dset-callback-cycle", case,
                     {"segment": seg, "callbacks": cbs[:40]})
                break
        ncomp = len(uf.classes())
        if exact_cb is not None:
            # every root merge of an epoch that only issues async_union_and_execute runs exactly one callback
            if len(cbs) != exact_cb:
                fail(res, f"{len(cbs)} callbacks, but the exec-only epochs merged {exact_cb} times (items - components)", "dset-callback-count", case,
                     {"segment": seg, "callbacks": cbs[:40]})
        elif len(cbs) > len(known) - ncomp:
            fail(res, f"{len(cbs)} callbacks exceed items - components = {len(known) - ncomp}", "dset-callback-count", case, {"segment": seg})

    for st in script["steps"]:
        if st[0] == "clear":
            # everything issued before clear() belongs to the old segment (clear() starts with a barrier);
            # afterwards the container is empty and the reference union-find restarts
            check_callbacks()
            uf = UF()
            issued_exec = {}
            known = set()
            last_roots = None
            exact_cb = 0
            seg += 1
        elif st[0] == "ops":
            kinds = {k for (k, _, _, _) in st[1]}
            before_merges = len(known) - len(uf.classes())
            for (k, r, a, b) in st[1]:
                known.update((a, b))
                mult = nranks if r == "*" else 1
                if uf.union(a, b):
                    nmerged += 1
                uf.find(a); uf.find(b)
                if k == "x":
                    issued_exec[(a, b)] = issued_exec.get((a, b), 0) + mult
            if kinds == {"x"} and exact_cb is not None:
                exact_cb += (len(known) - len(uf.classes())) - before_merges
            elif "x" in kinds:
                exact_cb = None   # an epoch mixing both kinds: only the upper bound is known from outside
        elif st[0] == "dump":
            did = st[1]
            rows = o["dumps"].get(did, [])
            items = [x[0] for x in rows]
            if sorted(items) != sorted(known):
                fail(res, f"dump {did}: items present differ from the items mentioned in unions since the last clear", "dset-items", case,
                     {"dump": did, "missing": sorted(known - set(items))[:10], "extra_or_dup": sorted(set(items) - known)[:10], "n": len(items)})
                return summaries
            ent = {x: (rk, p) for (x, rk, p, _) in rows}
            # lex invariant / ranks / closure
            for x, (rk, p) in ent.items():
                if rk < 0:
                    fail(res, f"dump {did}: negative rank", "dset-rank-negative", case, {"item": x, "rank": rk})
                if p not in ent:
                    fail(res, f"dump {did}: parent {p} of {x} is not an item", "dset-parent-missing", case, {"item": x, "parent": p})
                    return summaries
                if p != x and not ((rk, x) < (ent[p][0], p)):
                    # not a clause of the property itself (any acyclic structure would do): the proof's invariant no longer holds
                    res.corr_failures.append({"relation": "lex_increasing on the real parent map at a barrier",
                                              "what": f"dump {did}: (rank,item) does not increase from {x} (rank {rk}) to its parent {p} (rank {ent[p][0]})",
                                              "case": dict(case, dump=did)})
            # termination / roots
            roots = {}
            for x in ent:
                y, n = x, 0
                while ent[y][1] != y and n <= len(ent):
                    y = ent[y][1]; n += 1
                if ent[y][1] != y:
                    fail(res, f"dump {did}: parent chain from {x} does not reach a root (cycle)", "dset-cycle", case, {"item": x})
                    return summaries
                roots[x] = y
            part = partition_of(roots)
            want = uf.classes()
            if part != want:
                # sound or complete?
                sound = all(len({uf.find(x) for x in c}) == 1 for c in part)
                fail(res, f"dump {did}: trees differ from the connected components of the unions issued ("
                     + ("items connected by unions are in different trees" if sound else "a tree spans two components") + ")",
                     "dset-partition-" + ("incomplete" if sound else "unsound") + ("-after-clear" if seg > 0 else ""), case,
                     {"dump": did, "segment": seg, "real": part[:6], "want": want[:6]})
            nroots = sum(1 for x in ent if ent[x][1] == x)
            for (ns, sz) in o["n"].get(did, []):
                if ns != len(want) or sz != len(known):
                    after_clear = seg > 0
                    fail(res, f"N {did}: num_sets/size = {ns}/{sz}, components/items " + ("of the unions issued since the last clear() " if after_clear else "")
                         + f"= {len(want)}/{len(known)}", "dset-numsets" + ("-after-clear" if after_clear else ""), case, {"segment": seg})
                    break
            if len(o["n"].get(did, [])) != nranks:
                fail(res, f"N {did}: not every rank reported", "dset-numsets-missing", case)
            summaries.append({"id": did, "ent": ent, "roots": roots, "part": part, "nroots": nroots})
            last_roots = roots
        elif st[0] == "find":
            did, mode = st[1], st[2]
            got = o["finds"].get(did, [])
            prev_known = set(known)
            for z in (st[3] if len(st) > 3 else []):
                known.add(z)
                uf.find(z)        # an item nobody unioned: all_find answers the item itself and creates a singleton
            ks = sorted(known)
            asked = {}
            for r in range(nranks):
                for p, it in enumerate(ks):
                    if mode == "e" or (mode == "a" and r == 0) or (mode == "s" and p % nranks == r):
                        asked.setdefault(r, set()).add(it)
            byrank = {}
            for (it, rep, r) in got:
                byrank.setdefault(r, {})[it] = rep
            for r in range(nranks):
                if set(byrank.get(r, {})) != asked.get(r, set()):
                    fail(res, f"all_find {did}: rank {r} did not get an answer for exactly the items it asked for", "dset-find-keys", case,
                         {"asked": sorted(asked.get(r, set()))[:10], "got": sorted(byrank.get(r, {}))[:10]})
            for (it, rep, r) in got:
                if it not in prev_known:
                    if rep != it:
                        fail(res, f"all_find {did}: item {it} was never passed to a union, its representative must be itself, got {rep}",
                             "dset-find-unknown-item", case)
                        break
                elif last_roots is not None and last_roots.get(it) != rep:
                    fail(res, f"all_find {did}: representative of {it} is {rep}, the root of its tree is {last_roots.get(it)}", "dset-find-rep", case)
                    break
                if rep not in known or uf.find(rep) != uf.find(it):
                    fail(res, f"all_find {did}: representative {rep} of {it} is not a member of its set", "dset-rep-member", case)
                    break
        elif st[0] == "forall":
            did = st[1]
            got = o["foralls"].get(did, [])
            if sorted(x[0] for x in got) != sorted(known):
                fail(res, f"for_all {did}: items presented are not every item exactly once", "dset-forall-items", case,
                     {"n": len(got), "want": len(known)})
            for (it, rep, r) in got:
                if last_roots is not None and last_roots.get(it) != rep:
                    fail(res, f"for_all {did}: representative of {it} is {rep}, the root of its tree is {last_roots.get(it)}", "dset-forall-rep", case)
                    break
    check_callbacks()
    stray = [c for c in o["cbs"] if c[3] > seg]
    if stray:
        fail(res, "callback tagged with a segment that does not exist", "dset-callback-foreign", case)
    return summaries


# ------------------------------------------------------------------ correspondence

def seg_callbacks(o):
    d = {}
    for (_, a, b, sg) in o["cbs"]:
        d.setdefault(sg, []).append((a, b))
    return d


def epochs_pure(script):
    """every batch of unions uses one kind only: then the number of callbacks per segment is schedule independent"""
    return all(len({k for (k, _, _, _) in st[1]}) == 1 for st in script["steps"] if st[0] == "ops")


def corr_fifo(res, case, script, o, summaries, mline, labels):
    secs = parse_model_sections(mline)
    if len(secs) != len(labels):
        res.corr_failures.append({"relation": "DSet FIFO run == 1-rank run", "what": "section count differs", "case": case})
        return False
    bysum = {s["id"]: s for s in summaries}
    rcbs = seg_callbacks(o)
    ok = True
    seg = 0
    for (kind, did), sec in zip(labels, secs):
        if sec["aborted"]:
            res.corr_failures.append({"relation": "model never aborts", "what": "model run hit the resolve_merge assertion", "case": case})
            ok = False
        if kind in ("preclear", "final"):
            # the callbacks run since the previous clear(), in order
            rc = rcbs.get(seg, [])
            if sec["cbs"] != rc:
                res.corr_failures.append({"relation": "DSet callbacks == real callback sequence (1 rank), per clear() segment",
                                          "what": f"segment {seg}: real {rc[:10]} model {sec['cbs'][:10]}", "case": case})
                ok = False
            seg += 1
            continue
        s = bysum.get(did)
        if s is None:
            continue
        real = {x: v for x, v in s["ent"].items()}
        model = {x: (v[0], v[1]) for x, v in sec["ents"].items()}
        if real != model:
            diff = [(x, real.get(x), model.get(x)) for x in sorted(set(real) | set(model)) if real.get(x) != model.get(x)]
            res.corr_failures.append({"relation": "DSet FIFO run == 1-rank run: (rank,parent) of every item after every barrier",
                                      "what": f"dump {did}: {len(diff)} items differ, first (item, real, model) = {diff[0]}", "case": dict(case, dump=did, diff=diff[:8])})
            ok = False
        for (ns, sz) in o["n"].get(did, []):
            if (ns, sz) != (sec["numsets"], sec["size"]):
                res.corr_failures.append({"relation": "DSet.numSets/size == num_sets()/size()", "what": f"dump {did}: real {ns}/{sz} model {sec['numsets']}/{sec['size']}", "case": case})
                ok = False
    return ok


def corr_multi(res, case, script, o, summaries, mline, labels, checks):
    secs = parse_model_sections(mline)
    bysum = {s["id"]: s for s in summaries}
    rcbs = seg_callbacks(o)
    pure = epochs_pure(script)
    ok = True
    seg = 0
    for (kind, did), sec in zip(labels, secs):
        if kind in ("preclear", "final"):
            if pure and len(sec["cbs"]) != len(rcbs.get(seg, [])):
                res.corr_failures.append({"relation": "number of callbacks per clear() segment is schedule independent",
                                          "what": f"segment {seg}: model {len(sec['cbs'])} real {len(rcbs.get(seg, []))}", "case": case})
                ok = False
            seg += 1
            continue
        s = bysum.get(did)
        if s is None:
            continue
        mpart = partition_of({x: v[2] for x, v in sec["ents"].items()})
        if mpart != s["part"]:
            res.corr_failures.append({"relation": "partition at quiescence is schedule independent: DSet(random order) == real run",
                                      "what": f"dump {did}: partitions differ", "case": dict(case, dump=did, real=s["part"][:6], model=mpart[:6])})
            ok = False
        if sec["numsets"] != s["nroots"]:
            res.corr_failures.append({"relation": "DSet.numSets == number of real roots", "what": f"dump {did}: {sec['numsets']} vs {s['nroots']}", "case": case})
            ok = False
    for did, ans in checks:
        if ans != "lex 1 closed 1":
            res.corr_failures.append({"relation": "DSet.checkLex/checkClosed (Lean) on the real parent map", "what": f"dump {did}: {ans}", "case": dict(case, dump=did)})
            ok = False
    return ok


# ------------------------------------------------------------------ one case end to end

def interleave(rnd, ta, tb):
    """random merge of two token lists keeping each list's order; tb's tokens address container 1"""
    out, i, j = [], 0, 0
    while i < len(ta) or j < len(tb):
        take_a = j >= len(tb) or (i < len(ta) and rnd.random() < len(ta) / float(len(ta) + len(tb)))
        if take_a:
            k = min(len(ta) - i, rnd.choice([1, 1, 2, 4]))
            out += ta[i:i + k]; i += k
        else:
            k = min(len(tb) - j, rnd.choice([1, 1, 2, 4]))
            out += ["1/" + t for t in tb[j:j + k]]; j += k
    return out


def make_case(rnd, idx, one_rank, big):
    if one_rank:
        layout, routing, buffer_, policy = (1, 1), None, None, "uniform"
    else:
        layout = LAYOUTS[idx % len(LAYOUTS)] if idx < 2 * len(LAYOUTS) else rnd.choice(LAYOUTS)
        routing = ROUTINGS[idx % 3]
        buffer_ = BUFFERS[(idx // 3) % 3]
        policy = POLICIES[idx % 5]
    # item type: every sixth case std::string, every sixth double (the rest int64_t); doubles prefer 4 and 8 ranks
    items = "str" if idx % 6 == 3 else ("dbl" if idx % 6 == 5 else "int")
    if items == "dbl" and not one_rank:
        layout = rnd.choice([(2, 2), (1, 4), (2, 4), (2, 4), (1, 3), (2, 3), (1, 7)])
    nranks = layout[0] * layout[1]
    script = gen_script(rnd, nranks, big, zero=(items == "dbl"))
    tokens = script["tokens"]
    # new dimensions (deterministic in the case index, recorded in the case): a quarter of the multi-rank cases run the
    # same script on a sub-communicator of another size first (or afterwards); every fifth case keeps a second
    # disjoint_set of the same type alive on the same communicator with its own interleaved script
    mode = "w"
    if not one_rank and idx % 4 == 1:
        mode = "sub"
        # only splits that keep the ranks per node uniform (ygm::layout assumes it): one node -> parity or last-vs-rest;
        # several nodes -> one sub-communicator per node, or parity when the node size is even
        if layout[0] == 1:
            kind = "p" if (idx // 4) % 2 == 0 else "l"
        else:
            kind = "p" if (layout[1] % 2 == 0 and (idx // 4) % 2 == 0) else "n"
    # environment dimension (rotated over the cases, recorded in the case): communicator knobs and rank placement
    env = {}
    v = [None, 0, 1][(idx // 2) % 3]
    if v is not None:
        env["YGM_COMM_ISSEND_FREQ"] = v
    v = [None, 1, 2][(idx // 5) % 3]
    if v is not None:
        env["YGM_COMM_NUM_IRECVS"] = v
    v = [None, 0, 1, 4][(idx // 7) % 4]
    if v is not None:
        env["YGM_COMM_NUM_ISENDS_WAIT"] = v
    placement = "cyclic" if (layout[0] > 1 and idx % 3 == 0) else None
    if placement and mode != "w":
        kind = "p"      # two nodes, round-robin placement: the parity split is one node per sub-communicator
    if mode != "w":
        mode = ("sw" if (idx // 4) % 3 != 2 else "ws") + ":" + kind
    two = idx % 5 == 2
    if two:
        other = gen_script(rnd, nranks, False, zero=(items == "dbl"))
        tokens = interleave(rnd, tokens, other["tokens"])
    case = {"layout": list(layout), "routing": routing, "buffer": buffer_, "policy": policy, "sim_seed": rnd.randrange(1, 10 ** 6),
            "tokens": tokens, "model_seed": rnd.randrange(1, 10 ** 9), "mode": mode, "two": two,
            # every sixth case runs disjoint_set<std::string> (zero-padded decimals: same order as the numbers) instead of <int64_t>
            "items": items, "env": env, "placement": placement}
    return case, script


BARRIER_TOKENS = ("B", "D", "N", "F", "A", "K", "E")


def script_from_tokens(tokens, cid=0, nranks=None):
    """the step structure of container `cid` from the harness tokens (tokens of the other container are prefixed "1/"):
    its own operations, plus ("barrier",) wherever the other container performs a barrier-containing call.  Unions named
    for a rank >= nranks (a sub-communicator run) are not issued by anybody."""
    steps, ops, kinds = [], [], set()
    universe = set()
    for t in tokens:
        tc = 0
        if len(t) > 2 and t[1] == "/":
            tc, t = int(t[0]), t[2:]
        f = t.split(":")
        if tc != cid:
            if f[0] in BARRIER_TOKENS:
                if ops:
                    steps.append(("ops", ops)); ops = []
                if not (steps and steps[-1][0] == "barrier"):
                    steps.append(("barrier",))
            continue
        if f[0] in ("u", "x"):
            r = f[1] if f[1] == "*" else int(f[1])
            if nranks is not None and r != "*" and r >= nranks:
                continue
            ops.append((f[0], r, int(f[2]), int(f[3])))
            kinds.add(f[0])
            universe.update((int(f[2]), int(f[3])))
            continue
        if ops:
            steps.append(("ops", ops)); ops = []
        if f[0] == "D":
            steps.append(("dump", int(f[1])))
        elif f[0] == "F":
            steps.append(("find", int(f[1]), f[2], [int(x) for x in f[3].split(",") if x] if len(f) > 3 else []))
        elif f[0] == "A":
            steps.append(("forall", int(f[1])))
        elif f[0] in ("K", "E"):
            # clear() and destroy+construct are the same for oracle and model: everything issued before is completed
            # (barrier inside clear() / inside the destructor), afterwards the container is empty
            steps.append(("clear", sum(1 for x in steps if x[0] == "clear"), f[0]))
        elif f[0] == "B":
            steps.append(("barrier",))
    if ops:
        steps.append(("ops", ops))
    km = "x" if kinds == {"x"} else ("u" if kinds == {"u"} else "mixed")
    if km == "mixed" and all(len({k for (k, _, _, _) in st[1]}) == 1 for st in steps if st[0] == "ops"):
        km = "u-then-x"
    return {"tokens": list(tokens), "steps": steps, "universe": sorted(universe), "kindmode": km, "families": [],
            "clears": sum(1 for x in steps if x[0] == "clear")}


def model_call(lines):
    """the driver binary can be momentarily absent while somebody relinks it: retry briefly"""
    import time
    last = None
    for _ in range(6):
        try:
            return C.model("dset", lines)
        except (FileNotFoundError, PermissionError, OSError, RuntimeError) as ex:
            last = ex
            time.sleep(2.0)
    raise last


def evaluate(binary, case, script, model_ok, res):
    """runs the real code + model on one case and fills res; returns (status, merged?).  The step structure is always
    rebuilt from case["tokens"] (per container, per communicator); `script` is only used for statistics by the caller."""
    before = len(res.oracle_failures)
    out = _evaluate(binary, case, model_ok, res)
    racy = False
    for cid in ((0, 1) if case.get("two") else (0,)):
        sts = script_from_tokens(case["tokens"], cid)["steps"]
        racy = racy or any(a[0] == "clear" and a[2] == "K" and b[0] == "ops" for a, b in zip(sts, sts[1:]))
    if racy:
        # label the symptoms of D9 (unions issued right after clear() lost / mixed with the wiped segment); other failures
        # of such scripts keep their plain signature
        for f in res.oracle_failures[before:]:
            if not f["signature"].startswith("dset-clear-race") and ("after-clear" in f["signature"] or "parent-missing" in f["signature"]):
                f["signature"] = "dset-clear-race unions-right-after-clear " + f["signature"]
    return out


def judge(res, case, sr, ranks, run, cid, model_ok):
    """one container on one communicator: oracle, and (world run) the model comparison"""
    ranks = list(ranks)
    n = len(ranks)
    script = script_from_tokens(case["tokens"], cid, n)
    o = parse_outs(sr, ranks, run, cid)
    where = dict(case, judged={"run": "world" if run == "w" else "sub-communicator", "ranks": ranks, "container": cid})
    pre = len(res.oracle_failures)
    summaries = oracle_run(res, where, script, o, n)
    for f in res.oracle_failures[pre:]:
        if run != "w":
            f["signature"] += " [sub-communicator run]"
            f["what"] = f"sub-communicator of world ranks {ranks}: " + f["what"]
        if cid:
            f["signature"] += " [second container]"
            f["what"] = "second container: " + f["what"]
    merged = any(s["nroots"] < len(s["ent"]) for s in summaries)
    if model_ok and run == "w":
        mt, labels = model_tokens(script, n)
        lines = []
        if n == 1:
            lines.append("run fifo 0 " + " ".join(mt))
        else:
            lines.append(f"run rand {case['model_seed'] + cid} " + " ".join(mt))
            nonempty = [s for s in summaries if s["ent"]]
            for s in nonempty:
                lines.append("check " + " ".join(f"{x}:{v[0]}:{v[1]}" for x, v in sorted(s["ent"].items())))
        out = model_call(lines)
        if n == 1:
            corr_fifo(res, where, script, o, summaries, out[0], labels)
        else:
            corr_multi(res, where, script, o, summaries, out[0], labels, list(zip([s["id"] for s in nonempty], out[1:])))
    return merged


def _evaluate(binary, case, model_ok, res):
    nranks = case["layout"][0] * case["layout"][1]
    sr = run_real(binary, case)
    cl = classify_verdict(sr)
    if cl is not None:
        kind, sig = cl
        if kind == "foreign":
            res.count("foreign-comm-failure")
            res.notes.append(f"run ended with a communication-layer failure not owned by C17 ({sr.verdict}; {(sr.stderr or '')[-160:].strip()}) "
                             f"layout={case['layout']} routing={case['routing']} buffer={case['buffer']} policy={case['policy']} sim_seed={case['sim_seed']}")
            return "foreign", False
        fail(res, f"real run did not complete: {sr.verdict}", sig, case, {"stderr": (sr.stderr or "")[-400:]})
        return "failed", False
    mode = case.get("mode", "w")
    groups = sub_groups(mode, nranks, case["layout"][1]) if mode != "w" else []
    if parse_outs(sr, nranks, "w", 0)["ended"] != nranks or any(parse_outs(sr, g, "s", 0)["ended"] != len(g) for g in groups) \
            or sum(1 for r in range(nranks) if "done" in sr.outs.get(r, [])) != nranks:
        fail(res, "not every rank reached the end of the script on every communicator", "dset-run-incomplete", case)
        return "failed", False
    before = len(res.oracle_failures)
    merged = False
    cids = (0, 1) if case.get("two") else (0,)
    for cid in cids:
        merged = judge(res, case, sr, range(nranks), "w", cid, model_ok) or merged
        for g in groups:      # the same script on fewer ranks: the oracle applies unchanged
            judge(res, case, sr, g, "s", cid, False)
    return ("ok" if len(res.oracle_failures) == before else "violated"), merged


def run(tier, seed, model_ok=True):
    res = C.Result()
    res.rule = RULE
    res.assumptions = ["handlers are atomic (C08) and every message is delivered exactly once (C01): the model delivers one message at a time",
                       "items are non-negative int64 with the usual order; std::hash<int64_t> only decides the owner, never the result",
                       "all_compress is modelled by its effect only"]
    binary, err = C.build_harness("dset")
    if binary is None:
        res.corr_failures.append({"relation": "harness builds against /repo", "what": err[-800:], "case": None})
        return res
    if not model_ok:
        res.corr_failures.append({"relation": "model driver available", "what": "Lean library does not build", "case": None})
    n1, nm = (120, 900) if tier == "quick" else (2000, 20000)
    rnd = random.Random(seed * 1000003 + 17)
    jobs = []
    for i in range(n1):
        jobs.append(make_case(rnd, i, True, big=(i % 4 == 3)))
    for i in range(nm):
        jobs.append(make_case(rnd, i, False, big=(i % 5 == 4)))

    stop = {"fails": 0}

    def do(job):
        case, script = job
        r = C.Result()
        if stop["fails"] >= 6:      # enough failing inputs: do not burn the step budget on hundreds more
            return case, script, r, "skipped", False
        try:
            st, merged = evaluate(binary, case, script, model_ok, r)
            if r.oracle_failures:
                stop["fails"] += 1
        except Exception as ex:   # never swallow: a crash of the machinery is a correspondence failure
            r.corr_failures.append({"relation": "check-machinery", "what": repr(ex)[:300], "case": case})
            st, merged = "error", False
        return case, script, r, st, merged

    for case, script, r, st, merged in C.pmap(do, jobs):
        if st == "skipped":
            res.count("skipped-after-failures")
            continue
        res.evaluations += 1
        nranks = case["layout"][0] * case["layout"][1]
        res.oracle_failures += r.oracle_failures
        res.corr_failures += r.corr_failures
        res.notes += r.notes[:1] if len(res.notes) < 6 else []
        for k, v in r.distribution.items():
            res.count(k, v)
        res.count(f"ranks={nranks}")
        res.count(f"routing={case['routing']}")
        res.count(f"buffer={case['buffer']}")
        res.count(f"policy={case['policy']}")
        res.count(f"kind={script['kindmode']}")
        res.count(f"clears={script.get('clears', 0)}")
        res.count("comm=" + case.get("mode", "w").split(":")[0] + ("" if case.get("mode", "w") == "w" else "/" + case["mode"].split(":")[1]))
        res.count("containers=" + ("2" if case.get("two") else "1"))
        res.count("items=" + case.get("items", "int"))
        for k_, v_ in (case.get("env") or {}).items():
            res.count(f"{k_}={v_}")
        res.count("placement=" + (case.get("placement") or "block"))
        if any(t.split("/")[-1] == "E" for t in case["tokens"]):
            res.count("scripts-with-epochs(destroy+construct at the same address)")
        toks_ = case["tokens"]
        if any(t.split("/")[-1].startswith("F:") and t.count(":") >= 3 for t in toks_):
            res.count("scripts-with-all_find-of-never-unioned-items")
        if any(t.split("/")[-1][0] in "ux" and t.split(":")[2] == t.split(":")[3] for t in toks_):
            res.count("scripts-with-self-loops")
        for f in script["families"]:
            res.count("family=" + f)
        if st in ("ok", "violated"):
            res.traces_validated += 1
            if merged:
                res.distinct.add((tuple(case["layout"]), case["routing"], case["buffer"], case["policy"], case["sim_seed"], hash(tuple(case["tokens"]))))
        if nranks == 1 and st == "ok":
            res.sample({"layout": case["layout"], "tokens": case["tokens"][:14], "n_tokens": len(case["tokens"])}, cap=2)
        elif st == "ok":
            res.sample({"layout": case["layout"], "routing": case["routing"], "buffer": case["buffer"], "policy": case["policy"],
                        "tokens": case["tokens"][:10], "n_tokens": len(case["tokens"])}, cap=4)
    # shrink the first oracle failure a little so that the replay is small
    if res.oracle_failures:
        f0 = res.oracle_failures[0]
        small = shrink(binary, f0, model_ok)
        if small is not None:
            res.oracle_failures[0] = small
    elif res.corr_failures and res.corr_failures[0].get("case"):
        # search budget around a disagreeing case: same script under other schedules / layouts
        c0 = res.corr_failures[0]["case"]
        extra = []
        for k in range(24):
            c = dict(c0)
            c["sim_seed"] = c0["sim_seed"] + 1 + k
            c["policy"] = POLICIES[k % 5]
            if c0["layout"] != [1, 1]:
                c["buffer"] = BUFFERS[k % 3]
            extra.append(c)

        def again(c):
            r = C.Result()
            try:
                evaluate(binary, c, script_from_tokens(c["tokens"]), False, r)
            except Exception:
                pass
            return r
        for r in C.pmap(again, extra):
            res.oracle_failures += r.oracle_failures[:1]
    return res


def shrink(binary, failure, model_ok):
    """greedy token removal keeping the same signature; bounded effort"""
    case = failure.get("case") or {}
    if "tokens" not in case:
        return None
    sig = failure["signature"]
    toks = list(case["tokens"])

    def still(tk):
        c = dict(case, tokens=tk)
        c.pop("observed", None)
        r = C.Result()
        try:
            evaluate(binary, c, script_from_tokens(tk), False, r)
        except Exception:
            return None
        for f in r.oracle_failures:
            if f["signature"] == sig:
                return f
        return None
    best = None
    chunk = max(1, len(toks) // 4)
    budget = 10 if sig.startswith("dset-nontermination") else 60
    while chunk >= 1 and budget > 0:
        i = 0
        while i < len(toks) and budget > 0:
            cand = toks[:i] + toks[i + chunk:]
            if not any("D:" in t for t in cand):
                i += chunk
                continue
            budget -= 1
            f = still(cand)
            if f is not None:
                toks, best = cand, f
            else:
                i += chunk
        chunk //= 2
    return best


def replay(data):
    """re-run the recorded case; True when the failure does NOT reproduce"""
    case = data.get("case")
    if not case and data.get("no_longer_checks"):
        for b in data["no_longer_checks"]:
            if b.get("case"):
                case = b["case"]
                break
    if not case or "tokens" not in case:
        print("replay: nothing executable recorded:", data.get("no_longer_checks"))
        return False
    binary, err = C.build_harness("dset")
    if binary is None:
        print(err[-500:])
        return False
    case = dict(case)
    case.pop("observed", None)
    r = C.Result()
    st, _ = evaluate(binary, case, script_from_tokens(case["tokens"]), True, r)
    print("status", st)
    for f in r.oracle_failures[:5]:
        print("ORACLE", f["signature"], "-", f["what"])
    for f in r.corr_failures[:5]:
        print("CORR", f["relation"], "-", f["what"])
    for n in r.notes[:3]:
        print("NOTE", n)
    return not (r.oracle_failures or r.corr_failures)
