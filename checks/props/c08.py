"""C08 — handlers are atomic: none runs inside another or while an interrupt mask is held.
Oracle on the hook events (ex+/ex-/im+/im-) of real runs; acceptor = Lean model YgmVerif.Atomic (mode `atomic`)."""
from lib import common as C
from lib import traffic as T
from lib import campaign as K

META = {
    "claimed": True,
    "technique": "Lean 4 invariant proof over a labelled step model of the re-entrancy guard / interrupt mask + trace acceptance of real runs under simmpi",
    "text": "Theorems depth_le_one / no_exec_under_mask / poll_only_outside_handlers over YgmVerif.Atomic prove that every label sequence accepted by the "
            "model's step (the local rules the code enforces with m_in_process_receive_queue and m_enable_interrupts) never nests handlers and never starts one "
            "while a mask is alive. Real event histories (hooks in comm.ipp/interrupt_mask.hpp + MPI calls on the simulated wire) of seeded scenarios with "
            "handler-side asyncs, handler-side local_progress, masked sections, capacity 0..16MB, all routings/layouts/policies are replayed through that step; "
            "the property is also evaluated directly on every run.",
    "note": "Trusted: Lean kernel + standard axioms; model tied to the code on the explored runs only; schedules are sampled by seeded policies, not enumerated; "
            "legality assumptions: interrupt_mask objects are scoped (RAII) and not nested, no barrier/collective under a mask, comm::local_process_incoming() not called by users.",
}

WANT = ("delivery", "atomic")


def cases(tier, seed):
    rng = T.Rng(seed * 1000003 + 8)
    out = []
    layouts = T.LAYOUTS_QUICK if tier == "quick" else T.LAYOUTS_QUICK + [(2, 4), (4, 2), (1, 8), (5, 2)]
    reps = 3 if tier == "quick" else 14
    for _ in range(reps):
        for (N, P) in layouts:
            for routing in T.ROUTINGS:
                for kb in (0, 1, None):
                    pol = rng.choice(T.POLICIES)
                    sc = T.gen_scenario(rng, N * P, epochs=2, ops_per_rank=5, ttl=2, maxfan=2, hprog=40, hcb=8, p_mask=20, p_progress=12,
                                        sizes=(0, 8, 100, 600, 1500))
                    out.append((sc, T.Config(N, P, routing, kb, irecvs=rng.choice([1, 2, 8]), isends_wait=rng.choice([0, 1, 4]),
                                             issend=rng.choice([0, 1, 8]), policy=pol, eager=rng.choice([0, 50, 100]), sim_seed=rng.below(1 << 30))))
    return out


def extra(local, sc, cfg, sr, hev, wire, out):
    from props import acceptors
    acceptors.atomic(local, sc, cfg, hev, wire)


def run(tier, seed, model_ok=True):
    res = C.Result()
    res.rule = ("seeded scenarios (message DAG with handler-side asyncs and local_progress, masked sections, callbacks) x layout x routing x capacity x "
                "MPI config x scheduling policy; a case is non-trivial when handlers ran; distinct = (config, scenario shape)")
    res.assumptions = ["schedules sampled by seeded policies", "RAII, non-nested masks; no barrier under a mask"]
    binary, err = C.build_harness("traffic")
    if binary is None:
        res.corr_failures.append({"relation": "harness builds against /repo", "what": err[-800:], "case": None})
        return res
    K.run_cases(res, binary, cases(tier, seed), WANT, extra=extra if model_ok else None)
    if res.oracle_failures:
        res.oracle_failures[0] = K.shrink(binary, res.oracle_failures[0], WANT)
    return res


def replay(data):
    binary, err = C.build_harness("traffic")
    return K.replay_case(binary, data, WANT, extra)
