"""C08 — handlers are atomic: none runs inside another or while an interrupt mask is held.
Oracle on the hook events (ex+/ex-/im+/im-) of real runs; acceptor = Lean model YgmVerif.Atomic (mode `atomic`)."""
from lib import common as C
from lib import traffic as T
from lib import campaign as K

META = {
    "claimed": True,
    "technique": "Lean 4 invariant proof over a labelled step model of the re-entrancy guard / interrupt mask + trace acceptance of real runs under simmpi",
    "text": "Theorems depth_le_one / no_exec_under_mask / poll_only_outside_handlers over YgmVerif.Atomic prove that every label sequence accepted by the "
            "model's step (the local rules the code enforces with m_in_process_receive_queue and m_enable_interrupts) never nests handlers and never starts one "
            "while a mask is alive. Real event histories (hooks in comm.ipp/interrupt_mask.hpp + MPI calls on the simulated wire) of seeded scenarios with "
            "handler-side asyncs, handler-side local_progress, masked sections, capacity 0..16MB, all routings/layouts/policies are replayed through that step; "
            "the property is also evaluated directly on every run.",
    "note": "Trusted: Lean kernel + standard axioms; model tied to the code on the explored runs only; schedules are sampled by seeded policies, not enumerated; "
            "legality assumptions: interrupt_mask objects are scoped (RAII) and not nested, no barrier/collective under a mask, comm::local_process_incoming() not called by users.",
}

WANT = ("delivery", "atomic")


def cases(tier, seed):
    rng = T.Rng(seed * 1000003 + 8)
    out = []
    layouts = T.LAYOUTS_QUICK if tier == "quick" else T.LAYOUTS_QUICK + [(2, 4), (4, 2), (1, 8), (5, 2)]
    reps = 3 if tier == "quick" else 14
    for _ in range(reps):
        for (N, P) in layouts:
            for routing in T.ROUTINGS:
                for kb in (0, 1, None):
                    pol = rng.choice(T.POLICIES)
                    sc = T.gen_scenario(rng, N * P, epochs=2, ops_per_rank=5, ttl=2, maxfan=2, hprog=40, hcb=8, p_mask=20, p_progress=12,
                                        sizes=(0, 8, 100, 600, 1500), other=rng.choice([0, 0, 0, 50]))
                    out.append((sc, T.Config(N, P, routing, kb, irecvs=rng.choice([1, 2, 8]), isends_wait=rng.choice([0, 1, 4]),
                                             issend=rng.choice([0, 1, 8]), policy=pol, eager=rng.choice([0, 50, 100]), sim_seed=rng.below(1 << 30), placement=("cyclic" if N > 1 and rng.below(4) == 0 else None))))
    return out


def special_cases(tier, seed):
    """directed families at capacity 0 (every flush goes on the wire, every wait polls):
    (a) a control-flow barrier in the MIDDLE of an epoch: ranks wait in cf_barrier() while messages whose handlers send are arriving
        (eager, non-synchronous sends only: a rank blocked in MPI_Barrier services nothing — the D7 family is C03's finding);
    (b) long-running handlers: hundreds of { async ; local_progress } inside ONE handler while peers keep sending to that rank;
    (c) long masked sections: hundreds of asyncs under one interrupt_mask while peers keep sending to that rank."""
    rng = T.Rng(seed * 7127 + 19)
    out = []
    uid = [1 << 23]

    def fresh():
        uid[0] += 1
        return uid[0]
    for rep in range(2 if tier == "quick" else 10):
        for (N, P) in ((1, 3), (1, 4), (2, 2)):
            n = N * P
            # (a)
            ops = []
            for r in range(n):
                ops += [(0, r, "async", fresh(), rng.below(n), rng.choice([8, 100]), 2) for _ in range(2 + rng.below(3))]
            ops.append((0, -1, "cfbarrier"))
            for r in range(n):
                ops += [(0, r, "async", fresh(), rng.below(n), 8, 1) for _ in range(1 + rng.below(3))]
            sc = T.Scenario(n, 1, {"maxfan": 2, "hprog": 30, "hcb": 0, "hbc": 0}, [8, 100], ops)
            out.append((sc, T.Config(N, P, rng.choice(T.ROUTINGS), 0, irecvs=rng.choice([1, 8]), isends_wait=rng.choice([0, 4]), issend=0,
                                     policy=rng.choice(T.POLICIES), eager=100, sim_seed=rng.below(1 << 30))))
            # (b)
            ops = []
            for r in range(n):
                ops += [(0, r, "async", fresh(), (r + 1 + rng.below(n - 1)) % n, 8, 1) for _ in range(3)]
            sc = T.Scenario(n, 1, {"maxfan": 1, "hprog": 0, "hcb": 0, "hbc": 0, "hburst": 50, "hburstk": 270}, [8], ops)
            out.append((sc, T.Config(N, P, rng.choice(T.ROUTINGS), 0, irecvs=rng.choice([1, 8]), isends_wait=rng.choice([0, 4]), issend=rng.choice([0, 8]),
                                     policy=rng.choice(T.POLICIES), eager=rng.choice([50, 100]), sim_seed=rng.below(1 << 30))))
            # (c)
            ops = []
            m = rng.below(n)
            for r in range(n):
                if r != m:
                    ops += [(0, r, "async", fresh(), m, 8, 1) for _ in range(4)]
            ops.append((0, m, "mask", 270))
            ops += [(0, m, "async", fresh(), (m + 1 + rng.below(n - 1)) % n, 8, 0) for _ in range(270)]
            sc = T.Scenario(n, 1, {"maxfan": 1, "hprog": 30, "hcb": 0, "hbc": 0}, [8], ops)
            out.append((sc, T.Config(N, P, rng.choice(T.ROUTINGS), 0, irecvs=rng.choice([1, 8]), isends_wait=rng.choice([0, 4]), issend=rng.choice([0, 8]),
                                     policy=rng.choice(T.POLICIES), eager=rng.choice([50, 100]), sim_seed=rng.below(1 << 30))))
    return out


def mapvisit_runs(res, tier, seed):
    """map visitor callbacks run under a mask: map_impl::local_visit called from the main program with a sending visitor"""
    binary, err = C.build_harness("mapmask")
    if binary is None:
        res.corr_failures.append({"relation": "mapmask harness builds against /repo", "what": err[-600:], "case": None})
        return
    rng = T.Rng(seed * 313 + 5)
    jobs = []
    for (N, P) in [(1, 2), (1, 4), (2, 2)]:
        for routing in T.ROUTINGS:
            for kb in (0, 0, None):
                for rep in range(1 if tier == "quick" else 5):
                    jobs.append((N, P, routing, kb, rng.choice(T.POLICIES), rng.below(1 << 30)))

    def one(j):
        N, P, routing, kb, pol, ss = j
        env = {"YGM_COMM_ROUTING": routing}
        if kb is not None:
            env["YGM_COMM_BUFFER_SIZE_KB"] = kb
        return j, C.run_sim(binary, [ss % 1000, 12, 3], nodes=N, ppn=P, env=env, sim_seed=ss, policy=pol, want_log=True, timeout=120)

    for j, sr in C.pmap(one, jobs):
        N, P, routing, kb, pol, ss = j
        res.evaluations += 1
        case = {"harness": "mapmask", "layout": [N, P], "routing": routing, "buf_kb": kb, "policy": pol, "sim_seed": ss}
        if sr.verdict != "ok":
            res.oracle_failures.append({"what": f"map-visitor scenario did not complete: {sr.verdict} {sr.stderr[-200:]}", "signature": "mapvisit " + T.verdict_signature(sr), "case": case})
            continue
        hev, _ = T.parse(sr.log)
        invis, mask, visits, bad, unmasked = {}, {}, 0, None, None
        for ev in hev:
            r = ev.r
            if ev.kind == "k:im+":
                mask[r] = 1
            elif ev.kind == "k:im-":
                mask[r] = 0
            elif ev.kind == "V+":
                invis[r] = 1
                visits += 1
                if not mask.get(r):
                    unmasked = f"rank {r}: visitor started with no interrupt_mask alive"
            elif ev.kind == "V-":
                invis[r] = 0
            elif ev.kind == "k:ex+" and invis.get(r):
                bad = f"a handler started on rank {r} while a map visitor callback was running there"
        if bad:
            res.oracle_failures.append({"what": bad, "signature": "handler-inside-map-visitor", "case": case})
        elif unmasked:
            res.corr_failures.append({"relation": "map_impl::local_visit holds an interrupt_mask around the visitor (local rule of C08)", "what": unmasked, "case": case})
        elif visits:
            res.distinct.add(("mapvisit", N, P, routing, kb, pol))
            res.count("mapvisit_visits", visits)


def extra(local, sc, cfg, sr, hev, wire, out):
    from props import acceptors
    acceptors.atomic(local, sc, cfg, hev, wire)


def run(tier, seed, model_ok=True):
    res = C.Result()
    res.rule = ("[a quarter of the generated scenarios also run barriers of a SECOND ygm::comm living in the same process between the epochs; its events are removed from the judged history] " +
                "seeded scenarios (message DAG with handler-side asyncs and local_progress, masked sections, callbacks) x layout x routing x capacity x "
                "MPI config x scheduling policy; directed families at capacity 0: cf_barrier in the middle of an epoch, 270 x {async; local_progress} inside one handler, "
                "270 asyncs under one mask, each with peers sending to that rank; a case is non-trivial when handlers ran; distinct = (config, scenario shape)")
    res.assumptions = ["schedules sampled by seeded policies", "RAII, non-nested masks; no barrier under a mask"]
    binary, err = C.build_harness("traffic")
    if binary is None:
        res.corr_failures.append({"relation": "harness builds against /repo", "what": err[-800:], "case": None})
        return res
    K.run_cases(res, binary, cases(tier, seed), WANT, extra=extra if model_ok else None)
    K.run_cases(res, binary, special_cases(tier, seed), WANT, extra=extra if model_ok else None)
    mapvisit_runs(res, tier, seed)
    if res.oracle_failures and "scenario" in (res.oracle_failures[0].get("case") or {}):
        res.oracle_failures[0] = K.shrink(binary, res.oracle_failures[0], WANT)
    return res


def replay(data):
    case = data.get("case") or {}
    if case.get("harness") == "mapmask":
        binary, err = C.build_harness("mapmask")
        env = {"YGM_COMM_ROUTING": case["routing"]}
        if case["buf_kb"] is not None:
            env["YGM_COMM_BUFFER_SIZE_KB"] = case["buf_kb"]
        sr = C.run_sim(binary, [case["sim_seed"] % 1000, 12, 3], nodes=case["layout"][0], ppn=case["layout"][1], env=env, sim_seed=case["sim_seed"], policy=case["policy"], want_log=True)
        hev, _ = T.parse(sr.log)
        invis, hit = {}, False
        for ev in hev:
            if ev.kind == "V+":
                invis[ev.r] = 1
            elif ev.kind == "V-":
                invis[ev.r] = 0
            elif ev.kind == "k:ex+" and invis.get(ev.r):
                hit = True
        print("verdict", sr.verdict, "handler inside visitor:", hit)
        return sr.verdict == "ok" and not hit
    binary, err = C.build_harness("traffic")
    return K.replay_case(binary, data, WANT, extra)
