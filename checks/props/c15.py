"""C15 — counting_set counts equal the number of inserts, from any context.
Tie: the real counting_set (1 Mi-slot count cache) is driven under simmpi by a script generated from the
seed: keys that collide in one cache slot, inserts from the main program and from message handlers
(also handlers forwarding to further handlers), several barriers, buffer capacity 0 and 1 KB, layouts
1x4 2x2 2x3 3x2, all routings and scheduler policies.  The harness logs insert begin/end and the
instrumented key's serialisation, the comm hooks log async return, callback and handler execution
begin/end; the per-rank history is replayed label by label through YgmVerif.Cache.step (every `pack`
must carry the key the model is about to send, every label must be enabled) and the model's emitted
counts must add up to the real final counts.  Direct oracle: count/count_all/size/for_all/topk/
all_gather and the count_all after every barrier equal the tally recomputed from the script.
Two more dimensions: (a) for about a quarter of the cases the whole scenario (containers included) runs on a
sub-communicator made by MPI_Comm_split and on the world communicator in the same process, in either order, through
the same template instantiations — both runs are judged; (b) cases with TWO counting_sets of the same type alive at
once on one communicator (disjoint key sets, same cache slots, own count cache and own pre-barrier callback each),
operations interleaved, each judged against its own model and tally."""
import os
import shutil
import tempfile

from lib import common as C

META = {
    "claimed": True,
    "technique": "Lean 4 proof (invariant of a labelled cache machine with re-entrant sends, all label sequences) + trace-acceptance "
                 "correspondence with the real counting_set under simmpi + direct oracle on counts",
    "text": "Theorems cache_ledger / flushAll_empties_or_reregisters / count_eq_inserts / count_all_eq / size_eq over YgmVerif.Cache prove, for "
            "every sequence of inserts from any context and every placement of re-entrant handler inserts inside the sends of a flush, that "
            "emitted + cached (+ in-progress) counts equal the inserts per key, that nothing stays cached behind a finished pre-barrier "
            "callback unless a new callback is registered, and that the owner-side fold yields count/count_all/size. The model is tied to "
            "counting_set.hpp by replaying the event history of every rank of real runs through the model's step function.",
    "note": "Trusted: Lean kernel + propext/Classical.choice/Quot.sound; hand-written model Cache.lean tied to the code on the explored runs only; "
            "delivery of every packed message exactly once to the owner is DERIVED from the communicator model (Props/ContainersComm: CSetComm.C15_count_after_barrier, product of Comm with one Cache state per rank) and checked on the logs; the INT32_MAX "
            "overflow flush is exercised through the guarded hook counting_set::verif_cache_insert_n (insert_n_eq_preload relates it to n inserts); std::hash of the key is the identity by construction of the harness key type.",
}

S = 1 << 20            # count_cache_size / cache_size of the code
INT32_MAX = 2147483647
HEAVY_BASE = 4242      # cache slot of the preloaded keys
QUERY_MAX = 48         # keys per container queried one by one with count() / all_gather()
LAYOUTS = [(1, 4), (2, 2), (2, 3), (3, 2)]
POLICIES = ["uniform", "racer", "starve", "late", "burst"]
ROUTINGS = ["NONE", "NR", "NLNR"]
RULE = ("seeded scripts: per rank and phase a list of main-context inserts and handler sends (handler inserts, optionally forwards a second "
        "handler), keys = base + j*2^20 (colliding in one cache slot; 70% of the keys share one slot), barrier after every phase; a case = "
        "(script, layout, routing, buffer KB, policy, sim seed, subcomm, split, twin); subcomm 1/2 (about a quarter of the cases): the same "
        "scenario also runs, before/after the world run and in the same process, on a sub-communicator from MPI_Comm_split (split 0: "
        "parity of the on-node index, 1: parity of the node / halves) where script ranks and destinations >= its size issue nothing; twin: "
        "two containers of the same type alive at once, key k belongs to container (k >> 20) >= J, each with its own tally and model "
        "replay; heavy (two thirds of the cases): every rank starts phase 0 with verif_cache_insert_n(key, INT32_MAX-3..INT32_MAX-1) on a key of "
        "its own (also a second key of the same slot) followed by 1..6 ordinary inserts of it from main, from a handler sent to itself and "
        "from a handler forwarded back by another rank, counted as n inserts (64-bit) and replayed as one `ins k n` label, so the "
        "saturation guard must flush exactly when the cached count reaches 2147483647; mask (a quarter of the cases): the main program holds a "
        "ygm::detail::interrupt_mask over runs of 3..8 script ops with local_progress() calls inside — no handler may start while it is "
        "alive; environment (rotated): YGM_COMM_ISSEND_FREQ 0/1/8, YGM_COMM_NUM_IRECVS 1/2/8, YGM_COMM_NUM_ISENDS_WAIT 0/1/4, "
        "SIMMPI_PLACEMENT cyclic for a third of the multi-node cases; wide cases use 4800 keys; non-trivial = at least one insert was issued while the same rank was inside the send of a flush")


class Rng:
    """splitmix64 (same generator as hc::rng)"""
    M = (1 << 64) - 1

    def __init__(self, seed):
        self.s = seed & self.M

    def next(self):
        self.s = (self.s + 0x9e3779b97f4a7c15) & self.M
        z = self.s
        z = ((z ^ (z >> 30)) * 0xbf58476d1ce4e5b9) & self.M
        z = ((z ^ (z >> 27)) * 0x94d049bb133111eb) & self.M
        return z ^ (z >> 31)

    def below(self, n):
        return self.next() % n if n else 0


def gen_script(seed, nranks, nphases, nops, bases, J, hpct=45, fwdpct=40, vmax=1, hot=70, vmap=None, twin=False, heavy=False, mask=False, swap=False):
    """returns (lines, universe, ops); ops = [(phase, rank, kind, d, k, v, d2, k2, v2)] — what the script asks for; what is
    actually contributed on a communicator of a given size is `contributions(ops, size)`.  twin: keys of two containers,
    container of key k = (k >> 20) >= J"""
    g = Rng(seed)
    JJ = 2 * J if twin else J
    universe = [b + j * S for b in bases for j in range(JJ)]
    lines, ops = [], []

    def key():
        b = bases[0] if g.below(100) < hot or len(bases) == 1 else bases[1 + g.below(len(bases) - 1)]
        return b + g.below(JJ) * S

    def val():
        v = 1 + g.below(vmax) if vmax > 1 else 1
        return vmap(v) if vmap else v

    if swap:
        # two batches of main-context contributions: every rank contributes a sorted list of keys, then (after the barrier
        # at which the harness swaps the two maps) the same keys in the opposite order
        per_rank = [sorted(key() for _ in range(nops)) for _ in range(nranks)]
        for ph in (0, 1):
            for r in range(nranks):
                for k in (per_rank[r] if ph == 0 else per_rank[r][::-1]):
                    v = val()
                    lines.append(f"{r} i {k} {v}")
                    ops.append((ph, r, "i", -1, k, v, -1, 0, 0))
                lines.append(f"{r} b")
        return lines, universe, ops
    hg = Rng(seed ^ 0x5eed0f10)       # separate stream: the ordinary script does not depend on `heavy`

    def heavy_segment(ph, r):
        """counting_set only: rank r starts the phase with a key of its own whose cached count is preloaded to
        INT32_MAX-3 .. INT32_MAX-1 (verif_cache_insert_n), followed by 1..6 ordinary inserts of that key from the main
        program, from a handler it sends to itself and from a handler forwarded back by another rank — so the count
        passes 2147483647, where cache_insert must flush; then (half of the time) the same with a second key of the same
        slot.  A preload is the first operation on its key in the phase, so it always applies in full."""
        ka, kb = HEAVY_BASE + (20 + 2 * r) * S, HEAVY_BASE + (21 + 2 * r) * S
        for k in ([ka, kb] if hg.below(2) else [ka]):
            n = INT32_MAX - 1 - hg.below(3)
            lines.append(f"{r} n {k} {n}")
            ops.append((ph, r, "n", -1, k, n, -1, 0, 0))
            for _ in range(1 + hg.below(6)):
                how = hg.below(3)
                if how == 0:
                    lines.append(f"{r} i {k} 1")
                    ops.append((ph, r, "i", -1, k, 1, -1, 0, 0))
                elif how == 1:
                    lines.append(f"{r} h {r} {k} 1 -1 0 0")
                    ops.append((ph, r, "h", r, k, 1, -1, 0, 0))
                else:
                    d, x = hg.below(nranks), bases[0]
                    lines.append(f"{r} h {d} {x} 1 {r} {k} 1")
                    ops.append((ph, r, "h", d, x, 1, r, k, 1))

    if heavy:
        universe += [HEAVY_BASE + (20 + j) * S for j in range(2 * nranks)]
    mg = Rng(seed ^ 0x3a5c0de)        # separate stream: where the main program holds an interrupt_mask
    for ph in range(nphases):
        for r in range(nranks):
            if heavy and ph == 0:
                heavy_segment(ph, r)
            left = 0                  # ops left in the current masked section
            for _ in range(nops):
                if mask:
                    if left == 0 and mg.below(100) < 12:
                        lines.append(f"{r} M+")
                        left = 3 + mg.below(6)
                    elif left > 0:
                        if mg.below(100) < 35:
                            lines.append(f"{r} p")          # progress call inside the masked section
                        left -= 1
                        if left == 0:
                            lines.append(f"{r} p")
                            lines.append(f"{r} M-")
                k, v = key(), val()
                if g.below(100) < hpct:
                    d = g.below(nranks)
                    if g.below(100) < fwdpct:
                        d2, k2, v2 = g.below(nranks), key(), val()
                    else:
                        d2, k2, v2 = -1, 0, 0
                    lines.append(f"{r} h {d} {k} {v} {d2} {k2} {v2}")
                    ops.append((ph, r, "h", d, k, v, d2, k2, v2))
                else:
                    lines.append(f"{r} i {k} {v}")
                    ops.append((ph, r, "i", -1, k, v, -1, 0, 0))
            if mask and left > 0:
                lines.append(f"{r} p")
                lines.append(f"{r} M-")
            lines.append(f"{r} b")
    if twin:
        lines.insert(0, f"T {J}")
    if len(universe) > QUERY_MAX:
        lines.insert(0, f"Q {QUERY_MAX}")      # count(k) / all_gather are collective per key: query a prefix only
    return lines, universe, ops


def contributions(ops, size):
    """[(phase, key, value)] of every insert performed when the script runs on a communicator of `size` ranks:
    script ranks >= size and handler sends to ranks >= size issue nothing, a forward to a rank >= size is dropped"""
    out = []
    for (ph, r, kind, d, k, v, d2, k2, v2) in ops:
        if r >= size:
            continue
        if kind in ("i", "n"):
            out.append((ph, k, v))
        elif d < size:
            out.append((ph, k, v))
            if 0 <= d2 < size:
                out.append((ph, k2, v2))
    return out


def container_of(case):
    J = case["J"]
    return (lambda k: 1 if (k >> 20) >= J else 0) if case.get("twin") else (lambda k: 0)


def rank_events(run, nranks):
    """harness/hook events of the ordered log, per rank, in program order"""
    ev = {r: [] for r in range(nranks)}
    for line in run.log:
        sp = line.split(" ", 3)
        if len(sp) < 4 or sp[1] != "h":
            continue
        ev[int(sp[2][2:])].append(sp[3])
    return ev


def split_phases(lines):
    """lines of one rank (events or out file) -> {name: (commrank, commsize, lines of that scenario run)}"""
    res, cur = {}, None
    for l in lines:
        if l.startswith("ph "):
            w = l.split()
            cur = w[1]
            res[cur] = (int(w[2]), int(w[3]), [])
        elif cur is not None:
            res[cur][2].append(l)
    return res


def phys_node(case, r):
    """node of world rank r (SIMMPI_PLACEMENT: block = r / ppn, cyclic = r % nodes)"""
    return r % case["nodes"] if case.get("placement") == "cyclic" else r // case["ppn"]


def layout_of(case, members):
    """what ygm::detail::layout computes for a communicator with these world ranks (in rank order): per communicator
    rank (node_id, local_id); local_id = position among the members of the same node, node_id = position among the
    members with the same local_id"""
    loc, cnt = [], {}
    for r in members:
        nd = phys_node(case, r)
        loc.append(cnt.get(nd, 0))
        cnt[nd] = cnt.get(nd, 0) + 1
    nid, cnt2 = [], {}
    for l in loc:
        nid.append(cnt2.get(l, 0))
        cnt2[l] = cnt2.get(l, 0) + 1
    return list(zip(nid, loc))


def views(case, sr):
    """the communicator runs of one process run: [{name, members (world ranks in communicator order), ppn, events{cr},
    outs{cr}, bad}] — the world run and, when the case has subcomm, one run per colour of the split"""
    nodes, ppn = case["nodes"], case["ppn"]
    n = nodes * ppn
    ev = rank_events(sr, n)
    pe = {r: split_phases(ev[r]) for r in range(n)}
    po = {r: split_phases(sr.outs.get(r, [])) for r in range(n)}
    groups = [("world", list(range(n)))]
    if case.get("subcomm"):
        wl = layout_of(case, list(range(n)))

        def colour(r):
            if case.get("split", 0) == 0:
                return wl[r][1] % 2
            return wl[r][0] % 2 if nodes > 1 else (0 if r < n // 2 else 1)
        for c in (0, 1):
            m = [r for r in range(n) if colour(r) == c]
            if m:
                groups.append(("sub", m))
    if case.get("subcomm") == 1:
        groups = groups[1:] + groups[:1]
    res = []
    for name, members in groups:
        v = {"name": name, "members": members, "ppn": sum(1 for r in members if phys_node(case, r) == phys_node(case, members[0])),
             "coords": layout_of(case, members), "events": {}, "outs": {}, "bad": None}
        for cr, r in enumerate(members):
            e, o = pe[r].get(name), po[r].get(name)
            if e is None or o is None:
                v["bad"] = f"world rank {r} did not run the scenario on '{name}'"
                continue
            if (e[0], e[1]) != (cr, len(members)):
                v["bad"] = f"world rank {r} is rank {e[0]} of {e[1]} on '{name}', expected {cr} of {len(members)}"
            v["events"][cr], v["outs"][cr] = e[2], o[2]
        res.append(v)
    return res


def tokens(events, me=None, owner=None, cid=None, ncont=1):
    """event history of one rank on one communicator -> labels of the model (see lean/Driver/Cache.lean), one label list
    per container.  owner = None: counting_set (the owner-side visit is not a cache label); owner = dict key -> rank:
    reducing adapter (a received value is a cache insert on a non-owner, a bypass on the owner when it sends on, else
    the container operation itself).  cid(key) -> container.  A `pack`/`return` belongs to the container whose call is
    innermost; a pre-barrier callback belongs to the container that registered it (FIFO of the `RC` events).
    returns ([tokens per container], stats)"""
    cid = cid or (lambda k: 0)
    toks = [[] for _ in range(ncont)]
    ctx = []         # (kind, container)
    regq = []        # containers whose callback is registered, in order
    st = {"inserts": 0, "nested_inserts": 0, "nested_same_slot": 0, "delivered": 0, "applied": 0, "packs": 0, "max_depth": 0,
          "unbalanced": 0, "returns": 0, "cross_container_nesting": 0,
          "applied_kv": [[] for _ in range(ncont)], "delivered_kv": [[] for _ in range(ncont)], "packed_kv": [[] for _ in range(ncont)]}
    active = []      # (container, slot) of the inserts / flushes that are inside a send (for the statistics)
    n = len(events)

    def inner():
        for kind, c in reversed(ctx):
            if kind != "sb" and kind != "X":
                return c
        return None

    for i, e in enumerate(events):
        w = e.split()
        t = w[0]
        top = ctx[-1][0] if ctx else None
        if t == "ib":
            c = cid(int(w[1]))
            toks[c] += ["I", w[1], w[2]]
            st["inserts"] += 1
            if any(k in ("ib", "FB", "Xi") for k, _ in ctx):
                st["nested_inserts"] += 1
                if any(a == (c, int(w[1]) % S) for a in active):
                    st["nested_same_slot"] += 1
                if any(k in ("ib", "FB", "Xi") and cc != c for k, cc in ctx):
                    st["cross_container_nesting"] += 1
            ctx.append(("ib", c))
            active.append((c, int(w[1]) % S))
            st["max_depth"] = max(st["max_depth"], sum(1 for k, _ in ctx if k in ("ib", "Xi")))
        elif t == "ie":
            if top != "ib":
                st["unbalanced"] += 1
            else:
                toks[ctx[-1][1]].append("D")
                ctx.pop()
                active.pop()
        elif t == "sb":
            ctx.append(("sb", None))
        elif t == "se":
            if top == "sb":
                ctx.pop()
            else:
                st["unbalanced"] += 1
        elif t == "RC":
            c = inner()
            regq.append(0 if c is None else c)
        elif t == "R":
            st["returns"] += 1
            if top != "sb":
                c = inner()
                if c is not None:
                    toks[c].append("R")
        elif t == "pk":
            if top != "sb":
                c = inner()
                c = cid(int(w[1])) if c is None else c
                toks[c] += ["P", w[1], w[2]]
                st["packs"] += 1
                st["packed_kv"][c].append((int(w[1]), int(w[2])))
        elif t == "FB":
            c = regq.pop(0) if regq else 0
            toks[c].append("FB")
            ctx.append(("FB", c))
            active.append((c, -1))
        elif t == "FE":
            if top == "FB":
                toks[ctx[-1][1]].append("FE")
                ctx.pop()
                active.pop()
            else:
                st["unbalanced"] += 1
        elif t == "X+":
            nxt = events[i + 1].split() if i + 1 < n else ["?"]
            if nxt[0] == "uk":
                k, v = int(nxt[1]), int(nxt[2])
                c = cid(k)
                if owner is None:
                    st["applied"] += 1
                    st["applied_kv"][c].append((k, v))
                    ctx.append(("X", None))
                else:
                    nn = events[i + 2].split()[0] if i + 2 < n else "?"
                    if owner.get(k) == me and nn == "X-":
                        toks[c] += ["A", str(k), str(v)]
                        st["applied"] += 1
                        st["applied_kv"][c].append((k, v))
                        ctx.append(("X", None))
                    else:
                        toks[c] += ["I", str(k), str(v)]
                        st["delivered"] += 1
                        st["delivered_kv"][c].append((k, v))
                        ctx.append(("Xi", c))
                        active.append((c, k % S))
            else:
                ctx.append(("X", None))
        elif t == "X-":
            if top == "Xi":
                toks[ctx[-1][1]].append("D")
                ctx.pop()
                active.pop()
            elif top == "X":
                ctx.pop()
            else:
                st["unbalanced"] += 1
        elif t == "be":
            for c in range(ncont):
                toks[c].append("B")     # barrier() returned: the model requires "idle and no callback registered"
        # uk (consumed by the X+ lookahead), hb he bb S: no label
    return toks, st


def mask_violations(events):
    """handler executions that START while the main program's interrupt_mask object is alive (harness events M+ / M-)"""
    bad, alive, pos = [], False, 0
    for i, e in enumerate(events):
        if e == "M+":
            alive, pos = True, i
        elif e == "M-":
            alive = False
        elif e == "X+" and alive:
            bad.append({"event_index": i, "mask_taken_at": pos, "before": events[max(pos, i - 6):i]})
    return bad


def parse_model(ans):
    """answer line of the driver -> dict"""
    w = ans.split()
    if not w or w[0] != "ok":
        return {"ok": False, "why": ans}
    d = {"ok": True}
    for f in w[1:]:
        a, b = f.split("=", 1)
        d[a] = b
    d["out"] = [tuple(int(x) for x in t.split(":")) for t in d.get("out", "").split(",") if t]
    d["stored"] = {int(t.split(":")[0]): int(t.split(":")[1]) for t in d.get("stored", "").split(",") if t}
    return d


class Scratch:
    def __enter__(self):
        self.d = tempfile.mkdtemp(prefix="ygmverif-c15-")
        return self

    def __exit__(self, *a):
        shutil.rmtree(self.d, ignore_errors=True)

    def script(self, name, lines, universe, length=None):
        p = os.path.join(self.d, name)
        with open(p, "w") as f:
            f.write("U " + " ".join(map(str, universe)) + "\n")
            if length is not None:
                f.write(f"L {length}\n")
            f.write("\n".join(lines) + "\n")
        return p


def add_dimensions(cases, g):
    """sub-communicator runs for about a quarter of the cases (both orders, both splits), two containers at once for
    about a fifth — a deterministic function of the case list, recorded in the case"""
    for i, c in enumerate(cases):
        c["subcomm"] = [0, 0, 1, 0, 0, 0, 2, 0][i % 8]
        c["split"] = (i // 8) % 2 if c["subcomm"] else 0
        c["twin"] = 1 if i % 5 == 1 else 0
        c["heavy"] = 1 if i % 3 != 1 else 0
        c["mask"] = 1 if i % 4 == 3 else 0
        # environment dimension, rotated over the cases
        c["issend_freq"] = [8, 0, 1][i % 3]
        c["num_irecvs"] = [8, 1, 2][(i // 3) % 3]
        c["isends_wait"] = [4, 0, 1][(i // 2) % 3]
        c["placement"] = "cyclic" if (c["nodes"] > 1 and i % 3 == 2) else "block"
    return cases


def make_cases(tier, seed):
    g = Rng(seed * 7919 + 15)
    cases = []
    nrun = 26 if tier == "quick" else 480
    for i in range(nrun):
        nodes, ppn = LAYOUTS[i % len(LAYOUTS)]
        kind = i % 5
        if i % 13 == 7:    # wide: thousands of keys, so that a flush-all is long (many sends inside one callback)
            bases, J, nops, hot = list(range(0, 2400)), 2, 150, 0
        elif kind == 4:    # spread: several slots, few collisions (flush-all visits many slots in order)
            bases, J, nops, hot = [0, 3, 5, 9, 77, 1000, 1048575], 2, 24, 20
        elif kind == 3:    # two hot slots
            bases, J, nops, hot = [5, 6], 4, 40, 50
        else:              # one hot slot (the probe of DESIGN.md section 5)
            bases, J, nops, hot = [5, 77, 1000], 3 + g.below(5), 36 + 8 * g.below(3), 70
        if tier != "quick":
            nops *= 2
        cases.append({"script_seed": g.next() % (1 << 31), "nodes": nodes, "ppn": ppn, "phases": 2 + g.below(2), "nops": nops,
                      "bases": bases, "J": J, "hot": hot, "hpct": [45, 60, 30][g.below(3)], "fwdpct": 40,
                      "routing": ROUTINGS[g.below(3)], "buffer_kb": [0, 0, 1][g.below(3)], "policy": POLICIES[i % len(POLICIES)],
                      "sim_seed": 1 + g.below(1 << 20)})
    return add_dimensions(cases, g)


def run_case(binary, scratch, case, idx, mode="cset", extra_args=(), vmap=None):
    n = case["nodes"] * case["ppn"]
    lines, universe, ops = gen_script(case["script_seed"], n, case["phases"], case["nops"], case["bases"], case["J"],
                                      hpct=case["hpct"], fwdpct=case["fwdpct"], vmax=case.get("vmax", 1), hot=case["hot"], vmap=vmap,
                                      twin=bool(case.get("twin")), heavy=bool(case.get("heavy")) and mode == "cset",
                                      mask=bool(case.get("mask")) and mode in ("cset", "rmap", "rarr"),
                                      swap=bool(case.get("swap_script")))
    path = scratch.script(f"s{idx}.txt", lines, universe, case.get("len"))
    args = [mode, path] + (list(extra_args) or [0]) + [case.get("subcomm", 0), case.get("split", 0)]
    sr = C.run_sim(binary, args, nodes=case["nodes"], ppn=case["ppn"],
                   env={"YGM_COMM_BUFFER_SIZE_KB": case["buffer_kb"], "YGM_COMM_ROUTING": case["routing"],
                        "YGM_COMM_ISSEND_FREQ": case.get("issend_freq", 8), "YGM_COMM_NUM_IRECVS": case.get("num_irecvs", 8),
                        "YGM_COMM_NUM_ISENDS_WAIT": case.get("isends_wait", 4), "SIMMPI_PLACEMENT": case.get("placement", "block")},
                   sim_seed=case["sim_seed"], policy=case["policy"], timeout=30, max_steps=400000, livelock=200000)
    return sr, universe, ops


def outs_by_tag(lines):
    d = {}
    for l in lines:
        w = l.split()
        if w:
            d.setdefault(w[0], []).append(w[1:])
    return d


def sections(lines):
    """out lines of one scenario run -> (lines before the first `cont`, {container: lines})"""
    pre, per, cur = [], {}, None
    for l in lines:
        if l.startswith("cont "):
            cur = int(l.split()[1])
            per[cur] = []
        elif cur is None:
            pre.append(l)
        else:
            per[cur].append(l)
    return pre, per


def pairs(ws):
    return {int(t.split(":")[0]): int(t.split(":")[1]) for t in ws}


def where(view, c, ncont):
    return (f"[{view['name']} communicator, {len(view['members'])} ranks" + (f", container {'AB'[c]} of two" if ncont > 1 else "") + "] ")


def judge_cset(res, case, view, c, ncont, universe, ops, model_ok, acc):
    """one counting_set on one communicator: oracle + model replay; returns the failures [(what, detail)]"""
    g = len(view["members"])
    cid = container_of(case)
    contrib = [x for x in contributions(ops, g) if cid(x[1]) == c]
    uni = [k for k in universe if cid(k) == c][:QUERY_MAX]
    fails = []
    tally = {}
    for (_, k, v) in contrib:
        tally[k] = tally.get(k, 0) + v          # a preload of n counts as n inserts (64-bit counts)
    total = sum(v for (_, _, v) in contrib)
    cum = [sum(v for (p, _, v) in contrib if p <= ph) for ph in range(case["phases"])]
    secs = {r: sections(view["outs"].get(r, [])) for r in range(g)}
    real_count = {}
    for r in range(g):
        pre, per = secs[r]
        o = outs_by_tag(per.get(c, []))
        cnt = {int(w[0]): int(w[1]) for w in o.get("count", [])}
        if r == 0:
            real_count = cnt
        bad = {k: (cnt.get(k), tally.get(k, 0)) for k in uni if cnt.get(k) != tally.get(k, 0)}
        if bad:
            fails.append(("count(k) != number of inserts of k", {"rank": r, "key: (real, expected)": bad}))
        if int(o.get("countall", [["-1"]])[0][0]) != total:
            fails.append(("count_all != number of inserts", {"rank": r, "real": o.get("countall"), "expected": total}))
        if "nopreload" in pre:
            fails.append(("the tree has no counting_set::verif_cache_insert_n (YGM_VERIF_HOOKS): the saturation guard cannot be reached", {}))
        if int(o.get("size", [["-1"]])[0][0]) != len(tally):
            fails.append(("size != number of distinct keys", {"rank": r, "real": o.get("size"), "expected": len(tally)}))
        snaps = [int(w[1 + c]) for w in outs_by_tag(pre).get("snap", [])]
        if snaps != cum:
            fails.append(("count_all after a barrier != inserts issued before it (something stayed cached or was lost)",
                          {"rank": r, "real": snaps, "expected": cum}))
        top = [(int(t.split(":")[0]), int(t.split(":")[1])) for t in o.get("topk", [[]])[0]]
        exp_top = sorted(tally.items(), key=lambda kv: (-kv[1], kv[0]))[:3]
        if top != exp_top:
            fails.append(("topk differs from the tally", {"rank": r, "real": top, "expected": exp_top}))
        want = {uni[i]: tally.get(uni[i], 0) for i in range(len(uni)) if (i + r) % 2 == 0 and uni[i] in tally}
        got = pairs(o.get("gather", [[]])[0])
        if got != want:
            fails.append(("all_gather differs from the tally", {"rank": r, "real": got, "expected": want}))
    fa = {}
    for r in range(g):
        for k, cnt in pairs(outs_by_tag(secs[r][1].get(c, [])).get("forall", [[]])[0]).items():
            if k in fa:
                fails.append(("for_all presents a key on two ranks", {"key": k}))
            fa[k] = cnt
    if fa != tally:
        fails.append(("for_all entries differ from the tally", {"real": fa, "expected": tally}))

    # ---- correspondence: replay every rank's history of this container through the model
    per_rank = acc["per_rank"]
    mismatch, pinned_explains = None, None
    logged = sum(1 for r in range(g) for t in per_rank[r][0][c] if t == "I")
    if logged != len(contrib):
        fails.append(("harness log is not the script (inserts logged != inserts scripted)", {"logged": logged, "scripted": len(contrib)}))
    if acc["packs"] and not acc["returns"]:
        mismatch = {"relation": "comm hooks present (YGM_VERIF_HOOKS: as-, cb+, cb-, ex+, ex-, rcb)", "what": "no async-return event in the log: the tree has no hooks, histories cannot be replayed"}
    elif model_ok:
        ans = C.model("cache", [f"fixed {S} | " + " ".join(per_rank[r][0][c]) for r in range(g)])
        parsed = [parse_model(a) for a in ans]
        res.traces_validated += g
        msum = {}
        for r, p in enumerate(parsed):
            if not p["ok"]:
                mismatch = mismatch or {"relation": "every rank's event history is accepted by Cache.step (repaired order)", "what": f"rank {r}: {p['why']}"}
                continue
            if p["stack"] != "0" or p["cache"] != "" or p["reg"] != "0":
                mismatch = mismatch or {"relation": "after the last barrier the model's cache is empty and no callback is registered",
                                        "what": f"rank {r}: reg={p['reg']} stack={p['stack']} cache={p['cache']}"}
            for (_, k, cnt) in p["out"]:
                msum[k] = msum.get(k, 0) + cnt
                if cnt == INT32_MAX:
                    res.count("saturation-flushes (count reached INT32_MAX, replayed through the model)")
        res.count("preloads (verif_cache_insert_n)", sum(1 for (_, _, v) in contrib if v > 1))
        if mismatch is None and msum != fa:
            bad = {k: (msum.get(k), fa.get(k)) for k in set(msum) | set(fa) if msum.get(k) != fa.get(k)}
            mismatch = {"relation": "sum of the counts the model emits = count of the real run (for_all of all ranks)", "what": f"key: (model, real) {dict(list(bad.items())[:8])}"}
        # every packed key executes exactly once on the owner (C01, observed)
        packed = sorted(k for r in range(g) for (k, _) in per_rank[r][1]["packed_kv"][c])
        applied = sorted(k for r in range(g) for (k, _) in per_rank[r][1]["applied_kv"][c])
        if packed != applied:
            mismatch = mismatch or {"relation": "every flushed (key, count) message is executed once by the owner", "what": f"{len(packed)} packed, {len(applied)} executed"}
        if mismatch or fails:
            # does the pinned statement order explain this run exactly?
            pans = [parse_model(a) for a in C.model("cache", [f"pinned {S} | " + " ".join(per_rank[r][0][c]) for r in range(g)])]
            if all(p["ok"] for p in pans):
                psum = {}
                for p in pans:
                    for (_, k, cnt) in p["out"]:
                        psum[k] = psum.get(k, 0) + cnt
                pinned_explains = psum == fa
            else:
                pinned_explains = False
    return fails, mismatch, pinned_explains, real_count


def check_masks(res, case, view, sig_base, mode):
    """C08's clause as seen from the container's user: while the main program holds an interrupt_mask no handler starts,
    whatever masks the container takes and releases inside"""
    g = len(view["members"])
    sections = sum(1 for r in range(g) for e in view["events"][r] if e == "M+")
    progress = sum(1 for r in range(g) for e in view["events"][r] if e == "P+")
    res.count("masked-sections-of-the-main-program", sections)
    res.count("progress-calls", progress)
    for r in range(g):
        bad = mask_violations(view["events"][r])
        if bad:
            res.oracle_failures.append({"what": where(view, 0, 1) + f"a handler started on rank {r} while the main program's interrupt_mask was alive",
                                        "signature": sig_base + "-handler-under-user-mask",
                                        "case": dict(case, mode=mode, failed_on=view["name"], detail=bad[0], count=len(bad))})
            return


def env_counts(res, case):
    res.count(f"issend-freq-{case.get('issend_freq', 8)}")
    res.count(f"num-irecvs-{case.get('num_irecvs', 8)}")
    res.count(f"isends-wait-{case.get('isends_wait', 4)}")
    res.count(f"placement-{case.get('placement', 'block')}")


def check_cset(res, case, sr, universe, ops, model_ok):
    if sr.verdict != "ok":
        res.oracle_failures.append({"what": f"run failed: {sr.verdict} {sr.stderr[-200:]}", "signature": "counting_set-run-" + sr.verdict.split(":")[0],
                                    "case": dict(case, mode="cset")})
        return
    ncont = 2 if case.get("twin") else 1
    cid = container_of(case)
    res.evaluations += 1
    res.count("runs")
    res.count(f"layout-{case['nodes']}x{case['ppn']}")
    res.count(f"buffer-{case['buffer_kb']}KB")
    res.count(f"routing-{case['routing']}")
    res.count(f"policy-{case['policy']}")
    res.count(f"subcomm-{['none', 'sub-then-world', 'world-then-sub'][case.get('subcomm', 0)]}")
    env_counts(res, case)
    if ncont > 1:
        res.count("two-containers-at-once")
    nested_total = 0
    for view in views(case, sr):
        g = len(view["members"])
        res.count(f"communicator-runs-{view['name']}")
        if view["bad"]:
            res.oracle_failures.append({"what": "scenario did not run on the expected communicator: " + view["bad"], "signature": "counting_set-subcomm-layout",
                                        "case": dict(case, mode="cset")})
            continue
        per_rank = [tokens(view["events"][r], cid=cid, ncont=ncont) for r in range(g)]
        check_masks(res, case, view, "counting_set", "cset")
        stats = {k: sum(st[k] for _, st in per_rank) for k in ("inserts", "nested_inserts", "nested_same_slot", "packs", "applied", "unbalanced", "returns", "cross_container_nesting")}
        depth = max(st["max_depth"] for _, st in per_rank)
        nested_total += stats["nested_inserts"]
        res.count("inserts", stats["inserts"])
        res.count("inserts-issued-inside-a-send", stats["nested_inserts"])
        res.count("inserts-into-a-slot-being-flushed", stats["nested_same_slot"])
        res.count("inserts-issued-inside-a-send-of-the-other-container", stats["cross_container_nesting"])
        res.count("flush-messages", stats["packs"])
        res.count(f"max-insert-depth-{depth}")
        acc = {"per_rank": per_rank, "packs": stats["packs"], "returns": stats["returns"]}
        for c in range(ncont):
            fails, mismatch, pinned_explains, real_count = judge_cset(res, case, view, c, ncont, universe, ops, model_ok, acc)
            if stats["unbalanced"]:
                fails.append(("harness log is unbalanced", {"events": stats["unbalanced"]}))
            if fails:
                reentrant = stats["nested_same_slot"] > 0
                sig = "counting_set-reentrant-flush" if (pinned_explains or (pinned_explains is None and reentrant)) else "counting_set-count-mismatch"
                what, detail = fails[0]
                res.oracle_failures.append({"what": where(view, c, ncont) + what + (" [the pinned statement order (PinnedCache) replays this run to exactly these counts]" if pinned_explains else ""),
                                            "signature": sig,
                                            "case": dict(case, mode="cset", failed_on=view["name"], container=c, detail=detail,
                                                         all_failed_clauses=[w for w, _ in fails][:8],
                                                         inserts_into_a_slot_being_flushed=stats["nested_same_slot"],
                                                         model=mismatch, pinned_model_explains_run=pinned_explains)})
            elif mismatch:
                res.corr_failures.append(dict(mismatch, what=where(view, c, ncont) + mismatch["what"], case=dict(case, mode="cset")))
            if len(res.samples) < 3 and stats["nested_same_slot"] > 0 and (ncont > 1 or case.get("subcomm") or len(res.samples) < 1):
                res.sample({"case": {k: case[k] for k in ("nodes", "ppn", "routing", "buffer_kb", "policy", "sim_seed", "script_seed", "subcomm", "split", "twin")},
                            "communicator": view["name"], "ranks": g, "container": c, "inserts": stats["inserts"],
                            "inserts_into_a_slot_being_flushed": stats["nested_same_slot"],
                            "real_counts": real_count, "rank0_first_labels": " ".join(per_rank[0][0][c][:40])})
    if nested_total > 0:
        res.distinct.add((case["script_seed"], case["nodes"], case["ppn"], case["routing"], case["buffer_kb"], case["policy"], case["sim_seed"],
                          case.get("subcomm", 0), case.get("split", 0), case.get("twin", 0)))


def search_around(res, binary, checker, runner, model_ok, budget=8, force=None):
    """README rule: a disagreement between model and code that did not break the property on the run where it was
    seen gets a search budget — the same script under other schedules / policies / capacity 0 (and whatever `force`
    sets, e.g. the sum operator) — to turn it into a failing input."""
    todo = [f for f in res.corr_failures if isinstance(f.get("case"), dict) and "script_seed" in f["case"]][:3]
    if not todo or res.oracle_failures:
        return
    variants = []
    for f in todo:
        for i in range(budget):
            v = dict(f["case"], sim_seed=f["case"]["sim_seed"] + 1000 + i, policy=POLICIES[i % len(POLICIES)], buffer_kb=0)
            v.update(force[i % len(force)] if isinstance(force, list) else (force or {}))
            variants.append(v)
    with Scratch() as sc:
        out = C.pmap(lambda iv: (iv[1],) + runner(binary, sc, iv[1], 900 + iv[0]), list(enumerate(variants)))
    probe = C.Result()
    for case, sr, universe, ops in out:
        checker(probe, case, sr, universe, ops, model_ok)
    res.notes.append(f"search around {len(todo)} disagreeing case(s): {len(variants)} variants run, {len(probe.oracle_failures)} failed the oracle")
    res.evaluations += probe.evaluations
    res.oracle_failures += probe.oracle_failures[:3]


def run(tier, seed, model_ok=True):
    res = C.Result()
    res.rule = RULE
    res.assumptions = ["every packed (key, count) message is executed exactly once by the owner (C01; observed on the logs here)",
                       "handlers do not call barrier() (README rule)", "counts stay below INT32_MAX (the overflow flush is modelled, not exercised)"]
    binary, err = C.build_harness("cache")
    if binary is None:
        res.corr_failures.append({"relation": "harness builds against /repo", "what": err[-800:], "case": None})
        return res
    if not model_ok:
        res.corr_failures.append({"relation": "model driver available", "what": "Lean library does not build", "case": None})
    cases = make_cases(tier, seed)
    with Scratch() as sc:
        def do(ic):
            i, case = ic
            return (case,) + run_case(binary, sc, case, i)
        results = C.pmap(do, list(enumerate(cases)))
    for case, sr, universe, ops in results:
        check_cset(res, case, sr, universe, ops, model_ok)
    search_around(res, binary, check_cset, lambda b, sc, case, i: run_case(b, sc, case, i), model_ok)
    return res


def replay(data):
    """re-run the recorded case; True when the failure does NOT reproduce"""
    case = data.get("case") or {}
    if "script_seed" not in case:
        print("replay: nothing executable recorded:", data.get("no_longer_checks"))
        return False
    binary, err = C.build_harness("cache")
    if binary is None:
        print(err[-500:])
        return False
    res = C.Result()
    with Scratch() as sc:
        sr, universe, ops = run_case(binary, sc, case, 0)
    try:
        model_ok = os.path.exists(C.model_bin("cache"))
    except Exception:
        model_ok = False
    check_cset(res, case, sr, universe, ops, model_ok)
    for f in res.oracle_failures:
        print("oracle:", f["what"], f["signature"], f["case"].get("detail"))
    for f in res.corr_failures:
        print("correspondence:", f["relation"], f["what"])
    return not res.oracle_failures and not res.corr_failures
