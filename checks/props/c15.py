"""C15 — counting_set counts equal the number of inserts, from any context.
Tie: the real counting_set (1 Mi-slot count cache) is driven under simmpi by a script generated from the
seed: keys that collide in one cache slot, inserts from the main program and from message handlers
(also handlers forwarding to further handlers), several barriers, buffer capacity 0 and 1 KB, layouts
1x4 2x2 2x3 3x2, all routings and scheduler policies.  The harness logs insert begin/end and the
instrumented key's serialisation, the comm hooks log async return, callback and handler execution
begin/end; the per-rank history is replayed label by label through YgmVerif.Cache.step (every `pack`
must carry the key the model is about to send, every label must be enabled) and the model's emitted
counts must add up to the real final counts.  Direct oracle: count/count_all/size/for_all/topk/
all_gather and the count_all after every barrier equal the tally recomputed from the script."""
import os
import shutil
import tempfile

from lib import common as C

META = {
    "claimed": True,
    "technique": "Lean 4 proof (invariant of a labelled cache machine with re-entrant sends, all label sequences) + trace-acceptance "
                 "correspondence with the real counting_set under simmpi + direct oracle on counts",
    "text": "Theorems cache_ledger / flushAll_empties_or_reregisters / count_eq_inserts / count_all_eq / size_eq over YgmVerif.Cache prove, for "
            "every sequence of inserts from any context and every placement of re-entrant handler inserts inside the sends of a flush, that "
            "emitted + cached (+ in-progress) counts equal the inserts per key, that nothing stays cached behind a finished pre-barrier "
            "callback unless a new callback is registered, and that the owner-side fold yields count/count_all/size. The model is tied to "
            "counting_set.hpp by replaying the event history of every rank of real runs through the model's step function.",
    "note": "Trusted: Lean kernel + propext/Classical.choice/Quot.sound; hand-written model Cache.lean tied to the code on the explored runs only; "
            "delivery of every packed message exactly once to the owner is C01's theorem (checked here on the logs, not proved); the INT32_MAX "
            "overflow flush is modelled but cannot be exercised; std::hash of the key is the identity by construction of the harness key type.",
}

S = 1 << 20            # count_cache_size / cache_size of the code
LAYOUTS = [(1, 4), (2, 2), (2, 3), (3, 2)]
POLICIES = ["uniform", "racer", "starve", "late", "burst"]
ROUTINGS = ["NONE", "NR", "NLNR"]
RULE = ("seeded scripts: per rank and phase a list of main-context inserts and handler sends (handler inserts, optionally forwards a second "
        "handler), keys = base + j*2^20 (colliding in one cache slot; 70% of the keys share one slot), barrier after every phase; a case = "
        "(script, layout, routing, buffer KB, policy, sim seed); non-trivial = at least one insert was issued while the same rank was "
        "inside the send of a flush")


class Rng:
    """splitmix64 (same generator as hc::rng)"""
    M = (1 << 64) - 1

    def __init__(self, seed):
        self.s = seed & self.M

    def next(self):
        self.s = (self.s + 0x9e3779b97f4a7c15) & self.M
        z = self.s
        z = ((z ^ (z >> 30)) * 0xbf58476d1ce4e5b9) & self.M
        z = ((z ^ (z >> 27)) * 0x94d049bb133111eb) & self.M
        return z ^ (z >> 31)

    def below(self, n):
        return self.next() % n if n else 0


def gen_script(seed, nranks, nphases, nops, bases, J, hpct=45, fwdpct=40, vmax=1, hot=70, vmap=None):
    """returns (lines, universe, contributions) ; contributions = [(phase, key, value)] of every insert any rank
    or handler will perform (the tally the oracle uses)"""
    g = Rng(seed)
    universe = [b + j * S for b in bases for j in range(J)]
    lines, contrib = [], []

    def key():
        b = bases[0] if g.below(100) < hot or len(bases) == 1 else bases[1 + g.below(len(bases) - 1)]
        return b + g.below(J) * S

    def val():
        v = 1 + g.below(vmax) if vmax > 1 else 1
        return vmap(v) if vmap else v

    for ph in range(nphases):
        for r in range(nranks):
            for _ in range(nops):
                k, v = key(), val()
                if g.below(100) < hpct:
                    d = g.below(nranks)
                    if g.below(100) < fwdpct:
                        d2, k2, v2 = g.below(nranks), key(), val()
                        contrib.append((ph, k2, v2))
                    else:
                        d2, k2, v2 = -1, 0, 0
                    lines.append(f"{r} h {d} {k} {v} {d2} {k2} {v2}")
                else:
                    lines.append(f"{r} i {k} {v}")
                contrib.append((ph, k, v))
            lines.append(f"{r} b")
    return lines, universe, contrib


def rank_events(run, nranks):
    """harness/hook events of the ordered log, per rank, in program order"""
    ev = {r: [] for r in range(nranks)}
    for line in run.log:
        sp = line.split(" ", 3)
        if len(sp) < 4 or sp[1] != "h":
            continue
        ev[int(sp[2][2:])].append(sp[3])
    return ev


def tokens(events, me=None, owner=None):
    """event history of one rank -> labels of the model (see lean/Driver/Cache.lean).
    owner = None: counting_set (the owner-side visit is not a cache label);
    owner = dict key -> rank: reducing adapter (a received value is a cache insert on a non-owner, a bypass on
    the owner when it sends on, else the container operation itself).
    returns (tokens, stats)"""
    toks, ctx = [], []
    st = {"inserts": 0, "nested_inserts": 0, "nested_same_slot": 0, "delivered": 0, "applied": 0, "packs": 0, "max_depth": 0,
          "unbalanced": 0, "applied_kv": [], "delivered_kv": [], "packed_kv": []}
    active = []      # slots of the inserts / flushes that are inside a send (for the statistics)
    n = len(events)
    for i, e in enumerate(events):
        w = e.split()
        t = w[0]
        top = ctx[-1] if ctx else None
        if t == "ib":
            toks += ["I", w[1], w[2]]
            st["inserts"] += 1
            if any(c in ("ib", "FB", "Xi") for c in ctx):
                st["nested_inserts"] += 1
                if any(a == int(w[1]) % S for a in active):
                    st["nested_same_slot"] += 1
            ctx.append("ib")
            active.append(int(w[1]) % S)
            st["max_depth"] = max(st["max_depth"], sum(1 for c in ctx if c in ("ib", "Xi")))
        elif t == "ie":
            if top != "ib":
                st["unbalanced"] += 1
            else:
                ctx.pop()
                active.pop()
            toks.append("D")
        elif t == "sb":
            ctx.append("sb")
        elif t == "se":
            if top == "sb":
                ctx.pop()
            else:
                st["unbalanced"] += 1
        elif t == "S":
            pass
        elif t == "R":
            st["returns"] = st.get("returns", 0) + 1
            if top != "sb":
                toks.append("R")
        elif t == "pk":
            if top != "sb":
                toks += ["P", w[1], w[2]]
                st["packs"] += 1
                st["packed_kv"].append((int(w[1]), int(w[2])))
        elif t == "FB":
            toks.append("FB")
            ctx.append("FB")
            active.append(-1)
        elif t == "FE":
            toks.append("FE")
            if top == "FB":
                ctx.pop()
                active.pop()
            else:
                st["unbalanced"] += 1
        elif t == "X+":
            nxt = events[i + 1].split() if i + 1 < n else ["?"]
            if nxt[0] == "uk":
                k, v = int(nxt[1]), int(nxt[2])
                if owner is None:
                    st["applied"] += 1
                    st["applied_kv"].append((k, v))
                    ctx.append("X")
                else:
                    nn = events[i + 2].split()[0] if i + 2 < n else "?"
                    if owner.get(k) == me and nn == "X-":
                        toks += ["A", str(k), str(v)]
                        st["applied"] += 1
                        st["applied_kv"].append((k, v))
                        ctx.append("X")
                    else:
                        toks += ["I", str(k), str(v)]
                        st["delivered"] += 1
                        st["delivered_kv"].append((k, v))
                        ctx.append("Xi")
                        active.append(k % S)
            else:
                ctx.append("X")
        elif t == "X-":
            if top == "Xi":
                toks.append("D")
                ctx.pop()
                active.pop()
            elif top == "X":
                ctx.pop()
            else:
                st["unbalanced"] += 1
        elif t == "be":
            toks.append("B")     # barrier() returned: the model requires "idle and no callback registered"
        # uk (consumed by the X+ lookahead), hb he bb: no label
    return toks, st


def parse_model(ans):
    """answer line of the driver -> dict"""
    w = ans.split()
    if not w or w[0] != "ok":
        return {"ok": False, "why": ans}
    d = {"ok": True}
    for f in w[1:]:
        a, b = f.split("=", 1)
        d[a] = b
    d["out"] = [tuple(int(x) for x in t.split(":")) for t in d.get("out", "").split(",") if t]
    d["stored"] = {int(t.split(":")[0]): int(t.split(":")[1]) for t in d.get("stored", "").split(",") if t}
    return d


class Scratch:
    def __enter__(self):
        self.d = tempfile.mkdtemp(prefix="ygmverif-c15-")
        return self

    def __exit__(self, *a):
        shutil.rmtree(self.d, ignore_errors=True)

    def script(self, name, lines, universe, length=None):
        p = os.path.join(self.d, name)
        with open(p, "w") as f:
            f.write("U " + " ".join(map(str, universe)) + "\n")
            if length is not None:
                f.write(f"L {length}\n")
            f.write("\n".join(lines) + "\n")
        return p


def make_cases(tier, seed):
    g = Rng(seed * 7919 + 15)
    cases = []
    nrun = 26 if tier == "quick" else 480
    for i in range(nrun):
        nodes, ppn = LAYOUTS[i % len(LAYOUTS)]
        kind = i % 5
        if kind == 4:      # spread: several slots, few collisions (flush-all visits many slots in order)
            bases, J, nops, hot = [0, 3, 5, 9, 77, 1000, 1048575], 2, 24, 20
        elif kind == 3:    # two hot slots
            bases, J, nops, hot = [5, 6], 4, 40, 50
        else:              # one hot slot (the probe of DESIGN.md section 5)
            bases, J, nops, hot = [5, 77, 1000], 3 + g.below(5), 36 + 8 * g.below(3), 70
        if tier != "quick":
            nops *= 2
        cases.append({"script_seed": g.next() % (1 << 31), "nodes": nodes, "ppn": ppn, "phases": 2 + g.below(2), "nops": nops,
                      "bases": bases, "J": J, "hot": hot, "hpct": [45, 60, 30][g.below(3)], "fwdpct": 40,
                      "routing": ROUTINGS[g.below(3)], "buffer_kb": [0, 0, 1][g.below(3)], "policy": POLICIES[i % len(POLICIES)],
                      "sim_seed": 1 + g.below(1 << 20)})
    return cases


def run_case(binary, scratch, case, idx, mode="cset", extra_args=(), vmap=None):
    n = case["nodes"] * case["ppn"]
    lines, universe, contrib = gen_script(case["script_seed"], n, case["phases"], case["nops"], case["bases"], case["J"],
                                          hpct=case["hpct"], fwdpct=case["fwdpct"], vmax=case.get("vmax", 1), hot=case["hot"], vmap=vmap)
    path = scratch.script(f"s{idx}.txt", lines, universe, case.get("len"))
    sr = C.run_sim(binary, [mode, path] + list(extra_args), nodes=case["nodes"], ppn=case["ppn"],
                   env={"YGM_COMM_BUFFER_SIZE_KB": case["buffer_kb"], "YGM_COMM_ROUTING": case["routing"]},
                   sim_seed=case["sim_seed"], policy=case["policy"], timeout=30, max_steps=400000, livelock=200000)
    return sr, universe, contrib


def outs_by_tag(lines):
    d = {}
    for l in lines:
        w = l.split()
        if w:
            d.setdefault(w[0], []).append(w[1:])
    return d


def pairs(ws):
    return {int(t.split(":")[0]): int(t.split(":")[1]) for t in ws}


def check_cset(res, case, sr, universe, contrib, model_ok):
    n = case["nodes"] * case["ppn"]
    fails = []           # (what, detail)
    if sr.verdict != "ok":
        res.oracle_failures.append({"what": f"run failed: {sr.verdict} {sr.stderr[-200:]}", "signature": "counting_set-run-" + sr.verdict.split(":")[0],
                                    "case": case})
        return
    tally = {}
    for (_, k, _) in contrib:
        tally[k] = tally.get(k, 0) + 1
    cum = []
    for ph in range(case["phases"]):
        cum.append(sum(1 for (p, _, _) in contrib if p <= ph))
    outs = {r: outs_by_tag(sr.outs.get(r, [])) for r in range(n)}
    # ---- direct oracle
    real_count = {}
    for r in range(n):
        o = outs[r]
        cnt = {int(w[0]): int(w[1]) for w in o.get("count", [])}
        if r == 0:
            real_count = cnt
        bad = {k: (cnt.get(k), tally.get(k, 0)) for k in universe if cnt.get(k) != tally.get(k, 0)}
        if bad:
            fails.append(("count(k) != number of inserts of k", {"rank": r, "key: (real, expected)": bad}))
        if int(o.get("countall", [["-1"]])[0][0]) != len(contrib):
            fails.append(("count_all != number of inserts", {"rank": r, "real": o.get("countall"), "expected": len(contrib)}))
        if int(o.get("size", [["-1"]])[0][0]) != len(tally):
            fails.append(("size != number of distinct keys", {"rank": r, "real": o.get("size"), "expected": len(tally)}))
        snaps = [int(w[1]) for w in o.get("snap", [])]
        if snaps != cum:
            fails.append(("count_all after a barrier != inserts issued before it (something stayed cached or was lost)",
                          {"rank": r, "real": snaps, "expected": cum}))
        top = [(int(t.split(":")[0]), int(t.split(":")[1])) for t in o.get("topk", [[]])[0]]
        exp_top = sorted(tally.items(), key=lambda kv: (-kv[1], kv[0]))[:3]
        if top != exp_top:
            fails.append(("topk differs from the tally", {"rank": r, "real": top, "expected": exp_top}))
        want = {universe[i]: tally.get(universe[i], 0) for i in range(len(universe)) if (i + r) % 2 == 0 and universe[i] in tally}
        got = pairs(o.get("gather", [[]])[0])
        if got != want:
            fails.append(("all_gather differs from the tally", {"rank": r, "real": got, "expected": want}))
    fa = {}
    for r in range(n):
        for k, c in pairs(outs[r].get("forall", [[]])[0]).items():
            if k in fa:
                fails.append(("for_all presents a key on two ranks", {"key": k}))
            fa[k] = c
    if fa != tally:
        fails.append(("for_all entries differ from the tally", {"real": fa, "expected": tally}))

    # ---- correspondence: replay every rank's history through the model
    ev = rank_events(sr, n)
    per_rank = [tokens(ev[r]) for r in range(n)]
    stats = {k: sum(st[k] for _, st in per_rank) for k in ("inserts", "nested_inserts", "nested_same_slot", "packs", "applied", "unbalanced")}
    depth = max(st["max_depth"] for _, st in per_rank)
    res.evaluations += 1
    res.count("runs")
    res.count("inserts", stats["inserts"])
    res.count("inserts-issued-inside-a-send", stats["nested_inserts"])
    res.count("inserts-into-a-slot-being-flushed", stats["nested_same_slot"])
    res.count("flush-messages", stats["packs"])
    res.count(f"layout-{case['nodes']}x{case['ppn']}")
    res.count(f"buffer-{case['buffer_kb']}KB")
    res.count(f"routing-{case['routing']}")
    res.count(f"policy-{case['policy']}")
    res.count(f"max-insert-depth-{depth}")
    if stats["nested_inserts"] > 0:
        res.distinct.add((case["script_seed"], case["nodes"], case["ppn"], case["routing"], case["buffer_kb"], case["policy"], case["sim_seed"]))
    mismatch = None
    pinned_explains = None
    if stats["inserts"] != len(contrib) or stats["unbalanced"]:
        fails.append(("harness log is not the script (inserts logged != inserts scripted)", {"logged": stats["inserts"], "scripted": len(contrib)}))
    if stats["packs"] and not any(st.get("returns") for _, st in per_rank):
        mismatch = {"relation": "comm hooks present (YGM_VERIF_HOOKS: as-, cb+, cb-, ex+, ex-)", "what": "no async-return event in the log: the tree has no hooks, histories cannot be replayed"}
    elif model_ok:
        ans = C.model("cache", [f"fixed {S} | " + " ".join(t) for t, _ in per_rank])
        parsed = [parse_model(a) for a in ans]
        res.traces_validated += n
        msum = {}
        for r, p in enumerate(parsed):
            if not p["ok"]:
                mismatch = mismatch or {"relation": "every rank's event history is accepted by Cache.step (repaired order)", "what": f"rank {r}: {p['why']}"}
                continue
            if p["stack"] != "0" or p["cache"] != "" or p["reg"] != "0":
                mismatch = mismatch or {"relation": "after the last barrier the model's cache is empty and no callback is registered",
                                        "what": f"rank {r}: reg={p['reg']} stack={p['stack']} cache={p['cache']}"}
            for (_, k, c) in p["out"]:
                msum[k] = msum.get(k, 0) + c
        if mismatch is None and msum != {k: v for k, v in real_count.items() if v}:
            mismatch = {"relation": "sum of the counts the model emits = count(k) of the real run", "what": f"model {msum} real {real_count}"}
        # every packed key executes exactly once on the owner (C01, observed)
        packed = sorted(k for _, st in per_rank for (k, _) in st["packed_kv"])
        applied = sorted(k for _, st in per_rank for (k, _) in st["applied_kv"])
        if packed != applied:
            mismatch = mismatch or {"relation": "every flushed (key, count) message is executed once by the owner", "what": f"{len(packed)} packed, {len(applied)} executed"}
        if mismatch or fails:
            # does the pinned statement order explain this run exactly?
            pans = [parse_model(a) for a in C.model("cache", [f"pinned {S} | " + " ".join(t) for t, _ in per_rank])]
            if all(p["ok"] for p in pans):
                psum = {}
                for p in pans:
                    for (_, k, c) in p["out"]:
                        psum[k] = psum.get(k, 0) + c
                # entries the pinned order leaves cached are simply missing from the counts
                pinned_explains = psum == {k: v for k, v in real_count.items() if v}
            else:
                pinned_explains = False
    if fails:
        reentrant = stats["nested_same_slot"] > 0
        sig = "counting_set-reentrant-flush" if (pinned_explains or (pinned_explains is None and reentrant)) else "counting_set-count-mismatch"
        what, detail = fails[0]
        res.oracle_failures.append({"what": what + (" [the pinned statement order (PinnedCache) replays this run to exactly these counts]" if pinned_explains else ""),
                                    "signature": sig,
                                    "case": dict(case, mode="cset", detail=detail, all_failed_clauses=[w for w, _ in fails][:8],
                                                 inserts_into_a_slot_being_flushed=stats["nested_same_slot"],
                                                 model=mismatch, pinned_model_explains_run=pinned_explains)})
    elif mismatch:
        res.corr_failures.append(dict(mismatch, case=dict(case, mode="cset")))
    if len(res.samples) < 3 and stats["nested_same_slot"] > 0:
        res.sample({"case": {k: case[k] for k in ("nodes", "ppn", "routing", "buffer_kb", "policy", "sim_seed", "script_seed")},
                    "inserts": stats["inserts"], "inserts_into_a_slot_being_flushed": stats["nested_same_slot"],
                    "real_counts": real_count, "rank0_first_labels": " ".join(per_rank[0][0][:40])})


def search_around(res, binary, checker, runner, model_ok, budget=8, force=None):
    """README rule: a disagreement between model and code that did not break the property on the run where it was
    seen gets a search budget — the same script under other schedules / policies / capacity 0 (and whatever `force`
    sets, e.g. the sum operator) — to turn it into a failing input."""
    todo = [f for f in res.corr_failures if isinstance(f.get("case"), dict) and "script_seed" in f["case"]][:3]
    if not todo or res.oracle_failures:
        return
    variants = []
    for f in todo:
        for i in range(budget):
            v = dict(f["case"], sim_seed=f["case"]["sim_seed"] + 1000 + i, policy=POLICIES[i % len(POLICIES)], buffer_kb=0)
            v.update(force[i % len(force)] if isinstance(force, list) else (force or {}))
            variants.append(v)
    with Scratch() as sc:
        out = C.pmap(lambda iv: (iv[1],) + runner(binary, sc, iv[1], 900 + iv[0]), list(enumerate(variants)))
    probe = C.Result()
    for case, sr, universe, contrib in out:
        checker(probe, case, sr, universe, contrib, model_ok)
    res.notes.append(f"search around {len(todo)} disagreeing case(s): {len(variants)} variants run, {len(probe.oracle_failures)} failed the oracle")
    res.evaluations += probe.evaluations
    res.oracle_failures += probe.oracle_failures[:3]


def run(tier, seed, model_ok=True):
    res = C.Result()
    res.rule = RULE
    res.assumptions = ["every packed (key, count) message is executed exactly once by the owner (C01; observed on the logs here)",
                       "handlers do not call barrier() (README rule)", "counts stay below INT32_MAX (the overflow flush is modelled, not exercised)"]
    binary, err = C.build_harness("cache")
    if binary is None:
        res.corr_failures.append({"relation": "harness builds against /repo", "what": err[-800:], "case": None})
        return res
    if not model_ok:
        res.corr_failures.append({"relation": "model driver available", "what": "Lean library does not build", "case": None})
    cases = make_cases(tier, seed)
    with Scratch() as sc:
        def do(ic):
            i, case = ic
            return (case,) + run_case(binary, sc, case, i)
        results = C.pmap(do, list(enumerate(cases)))
    for case, sr, universe, contrib in results:
        check_cset(res, case, sr, universe, contrib, model_ok)
    search_around(res, binary, check_cset, lambda b, sc, case, i: run_case(b, sc, case, i), model_ok)
    return res


def replay(data):
    """re-run the recorded case; True when the failure does NOT reproduce"""
    case = data.get("case") or {}
    if "script_seed" not in case:
        print("replay: nothing executable recorded:", data.get("no_longer_checks"))
        return False
    binary, err = C.build_harness("cache")
    if binary is None:
        print(err[-500:])
        return False
    res = C.Result()
    with Scratch() as sc:
        sr, universe, contrib = run_case(binary, sc, case, 0)
    check_cset(res, case, sr, universe, contrib, os.path.exists(C.model_bin()))
    for f in res.oracle_failures:
        print("oracle:", f["what"], f["signature"], f["case"].get("detail"))
    for f in res.corr_failures:
        print("correspondence:", f["relation"], f["what"])
    return not res.oracle_failures and not res.corr_failures
