"""C02 — barrier() returns only after global quiescence of all RPC activity.
Theorems: YgmVerif.Barrier (exit_implies_quiescent, ...); acceptor mode `barrier`."""
from lib import common as C
from lib import traffic as T
from lib import campaign as K

META = {
    "claimed": True,
    "technique": "Lean 4 invariant proofs (single-epoch 18-clause and multi-epoch 22-clause invariants, induction over all interleavings) of the count-based two-round "
                 "termination detection, composed with the message-movement model + trace acceptance of real runs under simmpi",
    "text": "[liveness half, same model: C02ME_never_stuck / C02ME_waiting_rank_is_served (no deadlock inside the barrier), C02ME_rounds_after_quiescence / C02ME_exit_bounded / C02ME_all_exit (after quiescence every rank leaves within two further rounds; the driver measures this at every real exit), C03_joint_never_stuck on the product with the message-movement model] C02ME_exit_implies_quiescent (YgmVerif.BarrierME): for every number of ranks and every interleaving of issue/start/finish/callback/enter/contribute/result/exit "
            "steps over ANY number of overlapping barrier epochs, when the exit rule (two consecutive identical, balanced global count pairs) enables the first return of barrier e, "
            "every rank is inside barrier e, no message is undelivered, no handler runs, no callback is pending; C02_exit_implies_quiescent is the same for one epoch from an arbitrary "
            "balanced start state. C02C01_exit_implies_all_executed (YgmVerif.Comm = Deliver x BarrierME): at that moment every async issued so far by main programs, handlers and "
            "callbacks has executed exactly once on its destination; C02C01_hello_world is the README case. Real histories (handler begin/end, barrier enter/exit, the operands and "
            "results of every MPI_Iallreduce from the simulated wire) are replayed through both models' step functions, epoch by epoch and as a whole; contributed counts must equal the "
            "model's counters and every exit must be justified. Directly evaluated per run: no handler of epoch <= e after barrier e returned anywhere; all ranks entered before any "
            "exit; container destructors (map/set/array/disjoint_set/bag, 1..6 ranks) complete all pending work; a directed + delay-bounded systematic search for the classic "
            "single-round counter-example schedule.",
    "note": "Trusted: Lean kernel + propext/Classical.choice/Quot.sound; MPI_Iallreduce's semantics (sum of the k-th contributions, delivered after all contributed) is MPI's and "
            "assumed; the models are tied to comm.ipp on the explored runs only; schedules are sampled by seeded policies plus single/double deviations of base schedules.",
}

WANT = ("delivery", "barrier")


def cases(tier, seed):
    rng = T.Rng(seed * 1000003 + 2)
    out = []
    layouts = [(1, 2), (1, 3), (1, 4), (2, 2), (2, 3), (3, 2)] if tier == "quick" else T.LAYOUTS_QUICK + [(1, 2), (1, 3), (2, 4), (4, 2), (1, 8)]
    reps = 2 if tier == "quick" else 10
    for _ in range(reps):
        for (N, P) in layouts:
            for routing in T.ROUTINGS:
                for kb in (0, None):
                    sc = T.gen_scenario(rng, N * P, epochs=rng.choice([2, 3, 4]), ops_per_rank=rng.choice([2, 5]), ttl=rng.choice([2, 3]), maxfan=2,
                                        hprog=15, hcb=12, p_cb=10, p_bcast=8, sizes=(0, 8, 100, 600), other=rng.choice([0, 0, 60]), p_stats=rng.choice([0, 0, 15]))
                    out.append((sc, T.Config(N, P, routing, kb, irecvs=rng.choice([1, 8]), isends_wait=rng.choice([0, 4]), issend=rng.choice([0, 8]),
                                             policy=rng.choice(["racer", "racer", "late", "uniform", "burst", "starve"]), eager=rng.choice([0, 50, 100]),
                                             sim_seed=rng.below(1 << 30), placement=("cyclic" if N > 1 and rng.below(4) == 0 else None))))
    return out


def directed_cases(tier, seed):
    """the classic counter-example schedule of single-round counting: C sends m1 to A and contributes; A contributes
    before m1 arrives, then m1's handler sends m2 to B and m4 to C; slow B executes m2 and contributes (1,0): the first
    round is balanced while m4 is still in flight.  Many schedules of this 3-rank scenario are sampled."""
    rng = T.Rng(seed * 977 + 5)
    params = {"maxfan": 2, "hprog": 0, "hcb": 0, "hbc": 0}
    out = []
    for rep in range(120 if tier == "quick" else 1500):
        a, b, c = [(0, 1, 2), (1, 2, 0), (2, 0, 1), (0, 2, 1)][rep % 4]
        uid = T.find_root_uid(3, params, [8], [b, c], start=(1 << 20) + 1000 * (rep % 7))
        ops = [(0, c, "async", uid, a, 8, 1)]
        if rep % 3 == 2:
            # a second ygm::comm of the same process ends a barrier with totals (1,1) = the balanced first-round totals
            # of the classic schedule: state wrongly shared between communicators lets barrier 0 leave after one round
            ops = [(0, -1, "other", 1)] + ops
        ops += [(0, b, "progress")] * rng.below(6)
        ops += [(1, a, "async", uid + 100000, b, 8, 0)]
        sc = T.Scenario(3, 2, params, [8], ops)
        out.append((sc, T.Config(1, 3, "NONE", 0, irecvs=rng.choice([1, 8]), isends_wait=rng.choice([0, 4]), issend=rng.choice([0, 8]),
                                 policy=rng.choice(["racer", "uniform", "burst", "late", "starve"]), eager=rng.choice([50, 100]),
                                 sim_seed=rng.below(1 << 30))))
    # the same schedule FORCED with simmpi's gates (a gate opens on the awaited event or after 20000 scheduling steps, so
    # it cannot deadlock a correct run): C sends m1 only after A has contributed (0,0) to barrier 0; B enters the
    # barrier only after m2 has been delivered to it; deliveries to C (m4) are delayed by `hold` scheduling steps.
    # Half of the cases first run a barrier with totals (1,1) on a second ygm::comm of the same process.
    for rep in range(32 if tier == "quick" else 400):
        a, b, c = [(0, 1, 2), (1, 2, 0), (2, 0, 1), (0, 2, 1)][rep % 4]
        uid = T.find_root_uid(3, params, [8], [b, c], start=(1 << 20) + 1000 * (rep % 7))
        ops = ([(0, -1, "other", 1)] if rep % 2 else []) + [(0, c, "gate", 0, a, 0, 1, 20000), (0, c, "async", uid, a, 8, 1), (0, b, "gate", 1, b, 0, 1, 20000)]
        sc = T.Scenario(3, 1, params, [8], ops)
        out.append((sc, T.Config(1, 3, "NONE", 0, irecvs=rng.choice([1, 8]), isends_wait=rng.choice([0, 4]), issend=rng.choice([0, 8]),
                                 policy=rng.choice(["racer", "uniform", "burst", "late", "starve"]), eager=rng.choice([50, 100]),
                                 sim_seed=rng.below(1 << 30), hold=(c, rng.choice([100, 300, 1000])))))
    return out


def systematic_cases(binary, tier, seed):
    """delay-bounded systematic exploration of the directed 3-rank scenario: from a few seeded base schedules, every
    single deviation (choose the next / next-but-one enabled action instead of the seeded one) at every scheduling
    decision after the first barrier entry, plus random pairs of deviations in the thorough tier"""
    rng = T.Rng(seed * 4099 + 11)
    params = {"maxfan": 2, "hprog": 0, "hcb": 0, "hbc": 0}
    out = []
    bases = 4 if tier == "quick" else 8
    cap = 40 if tier == "quick" else 400
    for bi in range(bases):
        a, b, c = [(0, 1, 2), (1, 2, 0)][(bi // 2) % 2]
        uid = T.find_root_uid(3, params, [8], [b, c], start=(1 << 20) + 3000 + 17 * bi)
        ops = [(0, c, "async", uid, a, 8, 1)] + [(0, b, "progress")] * (bi % 3)
        if bi % 2 == 1:
            ops = [(0, -1, "other", 1)] + ops     # a second ygm::comm ended its barrier with totals (1,1) just before
        sc = T.Scenario(3, 1, params, [8], ops)
        base = T.Config(1, 3, "NONE", 0, irecvs=8, isends_wait=rng.choice([0, 4]), issend=0, policy="uniform", eager=100, sim_seed=rng.below(1 << 30))
        sr = T.run(binary, sc, base, timeout=60)
        if sr.verdict != "ok":
            out.append((sc, base))
            continue
        hev, _ = T.parse(sr.log)
        first_enter = min([int(ev.raw.split(" ", 1)[0]) for ev in hev if ev.kind == "E"] or [0])
        total = sr.steps
        js = list(range(max(0, first_enter - 1), total))
        stride = max(1, (2 * len(js)) // cap)
        for j in js[::stride]:
            for dv in (1, 2):
                cfg = T.Config.from_json(base.to_json())
                cfg.deviate = {j: dv}
                out.append((sc, cfg))
        if tier == "thorough":
            for _ in range(cap // 2):
                cfg = T.Config.from_json(base.to_json())
                cfg.deviate = {rng.choice(js): 1 + rng.below(2), rng.choice(js): 1 + rng.below(2)}
                out.append((sc, cfg))
    return out


def dtor_runs(res, tier, seed):
    """implicit barriers: containers destroyed right after issuing asynchronous operations (harness/dtor.cpp)"""
    import re
    rng = T.Rng(seed * 131 + 17)
    variants = [(False, "")]
    if tier == "thorough":
        variants.append((True, "address"))
    for sanitize, san in variants:
        binary, err = C.build_harness("dtor", sanitize=sanitize, san=san or "address,undefined")
        if binary is None:
            res.corr_failures.append({"relation": "dtor harness builds against /repo", "what": err[-600:], "case": None})
            return
        jobs = []
        for (N, P) in [(1, 1), (1, 2), (1, 3), (1, 4), (2, 2), (2, 3)]:
            for routing in T.ROUTINGS:
                for kb in (0, None):
                    for rep in range(1 if tier == "quick" else 4):
                        jobs.append((N, P, routing, kb, rng.choice(T.POLICIES), rng.below(1 << 30), 1 + rng.below(40)))

        def one(j):
            N, P, routing, kb, pol, ss, k = j
            env = {"YGM_COMM_ROUTING": routing}
            if kb is not None:
                env["YGM_COMM_BUFFER_SIZE_KB"] = kb
            return j, C.run_sim(binary, [ss % 1000, k], nodes=N, ppn=P, env=env, sim_seed=ss, policy=pol, want_log=False, timeout=240)

        for j, sr in C.pmap(one, jobs):
            N, P, routing, kb, pol, ss, k = j
            res.evaluations += 1
            case = {"harness": "dtor", "layout": [N, P], "routing": routing, "buf_kb": kb, "policy": pol, "sim_seed": ss, "ops": k, "sanitize": san}
            if sr.verdict != "ok":
                res.oracle_failures.append({"what": f"container-destructor scenario did not complete: {sr.verdict} {sr.stderr[-300:]}",
                                            "signature": "dtor " + T.verdict_signature(sr), "case": case})
                continue
            tot = {}
            bad = None
            for r in range(N * P):
                for line in sr.outs.get(r, []):
                    m = re.match(r"(\w+) issued=(\d+) at_dtor=(\d+) after_barrier=(\d+)", line)
                    if not m:
                        continue
                    name, issued, at, after = m.group(1), int(m.group(2)), int(m.group(3)), int(m.group(4))
                    t = tot.setdefault(name, [0, 0])
                    t[0] += issued
                    t[1] += at
                    if at != after:
                        bad = f"{name}: rank {r} had executed {at} callbacks when its destructor returned, {after} after the next barrier"
            for name, (issued, at) in tot.items():
                if issued != at and not bad:
                    bad = f"{name}: {issued} operations issued before destruction but {at} executed when the destructors had returned"
            if bad:
                res.oracle_failures.append({"what": "work issued before a container's destruction ran after its destructor returned: " + bad,
                                            "signature": "dtor-barrier-incomplete", "case": case})
            else:
                res.distinct.add(("dtor", N, P, routing, kb, pol))
                res.count("dtor_runs")


def extra(local, sc, cfg, sr, hev, wire, out):
    from props import acceptors
    acceptors.barrier(local, sc, cfg, hev, wire)
    acceptors.barrier_me(local, sc, cfg, hev, wire)
    acceptors.flush(local, sc, cfg, hev, wire)     # barrier() relies on the flush loop's return-value rule


def cached_work_runs(res, seed):
    """barrier() must also complete the work that containers park in caches and release through pre-barrier callbacks
    (counting_set's insert cache, reducing_adapter's per-hop caches, also when a relay handler parked it): the quick scenario
    families of C15 / C16 are run here with their direct oracles only (what the owners hold after each barrier = everything issued
    before it); a failure is reported as work a barrier left behind.  The Lean side of these families belongs to C15 / C16."""
    from props import c15, c16
    binary, err = C.build_harness("cache")
    if binary is None:
        res.corr_failures.append({"relation": "harness builds against /repo", "what": err[-800:], "case": None})
        return
    for fam, mod, runner, checker in (("c15", c15, lambda b, sc, case, i: c15.run_case(b, sc, case, i), c15.check_cset),
                                      ("c16", c16, c16.run_one, c16.check_reduce)):
        sub = C.Result()
        cases = mod.make_cases("quick", seed)
        with c15.Scratch() as sc:
            def do(ic):
                i, case = ic
                return (case,) + runner(binary, sc, case, i)
            results = C.pmap(do, list(enumerate(cases)))
        for case, sr, universe, ops in results:
            checker(sub, case, sr, universe, ops, False)
        res.evaluations += sub.evaluations
        res.count(f"cached-work family {fam}: runs judged", len(cases))
        for f in sub.oracle_failures:
            f = dict(f)
            f["signature"] = "barrier-left-cached-work " + str(f.get("signature"))
            f["what"] = "work parked in a container cache was not completed by barrier(): " + str(f.get("what"))
            f["case"] = dict(f.get("case") or {}, family=fam)
            res.oracle_failures.append(f)


def run(tier, seed, model_ok=True):
    res = C.Result()
    res.rule = ("[plus the quick cache scenarios of C15 / C16 judged by their direct oracles: work parked in container caches must be completed by barrier()] seeded multi-epoch scenarios (ranks arriving at barriers at very different times, handlers that keep spawning work, pre-barrier callbacks registered from "
                "main and from handlers, a trailing batch before the destructor's barrier; a third of them with barriers of a SECOND ygm::comm of the same process between the epochs) "
                "x layouts x routings x capacity x policy (racer/late/...); distinct = (config, shape). Directed: the classic single-round counter-example schedule on 3 ranks, "
                "sampled (120 / 1500 schedules), explored by single deviations from base schedules, and FORCED with simmpi gates + a delivery hold (32 / 400 runs, half of them "
                "after a barrier with totals (1,1) on a second communicator)")
    res.assumptions = ["MPI_Iallreduce semantics assumed", "schedules sampled by seeded policies"]
    binary, err = C.build_harness("traffic")
    if binary is None:
        res.corr_failures.append({"relation": "harness builds against /repo", "what": err[-800:], "case": None})
        return res
    K.run_cases(res, binary, cases(tier, seed) + directed_cases(tier, seed) + systematic_cases(binary, tier, seed), WANT,
                extra=extra if model_ok else None)
    dtor_runs(res, tier, seed)
    cached_work_runs(res, seed)
    if res.oracle_failures and "scenario" in (res.oracle_failures[0].get("case") or {}):
        res.oracle_failures[0] = K.shrink(binary, res.oracle_failures[0], WANT)
    return res


def replay(data):
    case = data.get("case") or {}
    if case.get("family") in ("c15", "c16"):
        from props import c15, c16
        return (c15 if case["family"] == "c15" else c16).replay(data)
    if case.get("harness") == "dtor":
        binary, err = C.build_harness("dtor", sanitize=bool(case.get("sanitize")), san=case.get("sanitize") or "address,undefined")
        env = {"YGM_COMM_ROUTING": case["routing"]}
        if case["buf_kb"] is not None:
            env["YGM_COMM_BUFFER_SIZE_KB"] = case["buf_kb"]
        sr = C.run_sim(binary, [case["sim_seed"] % 1000, case["ops"]], nodes=case["layout"][0], ppn=case["layout"][1], env=env,
                       sim_seed=case["sim_seed"], policy=case["policy"], want_log=False)
        print(sr.verdict, sr.stderr[-300:])
        for r in sorted(sr.outs):
            print(r, sr.outs[r])
        return sr.verdict == "ok" and not data.get("signature", "").startswith("dtor-")
    binary, err = C.build_harness("traffic")
    return K.replay_case(binary, data, WANT, extra)
