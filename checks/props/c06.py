"""C06 — arguments and functor state arrive bit-exact; packed messages never overlap.

Tie to the code (harness/wire.cpp, model lean/YgmVerif/Model/Wire.lean through `ygm_model wire`):
 (a) archive: generated values of 36 type shapes are serialised by the real cereal::YGMOutputArchive and by
     Wire.ser from the same value description; bytes compared; the real YGMInputArchive must read the real
     *and* the model's bytes back to the generated value (and be `empty()` afterwards).
 (b) buffers: real traffic under simmpi (all routings, capacities 0 / 1 KB / default, several layouts); every
     MPI payload of the async communicator is split by Wire.parseBuffer; each item must be exactly one of the
     messages the harness logged as sent (re-encoded by Wire.asyncAppend / queueAppend), forwarded copies must be
     byte-identical, and every message must travel origin -> ... -> destination.
 (c) oracle: every handler receives the arguments / functor state that were passed (regenerated from the uid
     inside the handler, and compared by hash with the sender's log), exactly once."""
import hashlib
import os
import random
import shutil
import tempfile

from lib import common as C

META = {
    "claimed": True,
    "technique": "Lean 4 proof (structural induction over a value universe, message lists and routes) + byte-level correspondence with the real "
                 "cereal archive and with the MPI payloads of real runs under simmpi",
    "text": "Theorems des_ser/desAll_ser/ser_injective/size_any (every value of the universe, any nesting and length < 2^64, followed by arbitrary "
            "bytes, is read back exactly and the following bytes are untouched), header_size_exact/asyncAppend_eq/queueAppend_eq (the back-patched "
            "message_size is the byte count that follows; async touches nothing before its own message), parseBuffer_encode/parseBuffer_append/"
            "parse_built_buffer (any list of messages packed into one buffer is split into exactly those messages at every position), "
            "forward_bytes_id/hop_forward/relay_route/route_delivers (re-buffering is the identity on bytes, for routes of any length) over "
            "YgmVerif.Wire.  The model is tied to ygm_cereal_archive.hpp / cereal_boost_json.hpp / ygm_ptr.hpp / comm.ipp by comparing bytes of "
            "generated values of 36 type shapes and by parsing every MPI payload of real runs (NONE/NR/NLNR, capacities 0/1KB/default, "
            "2x2 2x3 3x2 ... layouts) with the model, plus an end-to-end oracle in every handler.",
    "note": "Trusted: Lean kernel + propext/Quot.sound; the hand-written model Wire.lean (cereal itself is modelled, not verified) tied to the code on "
            "the generated values / runs listed in the evidence; lambda ids are opaque (learned from calibration messages, assumed equal on all "
            "ranks); message_size < 2^32, lambda id < 2^16, dest < 2^31 are hypotheses (the code has these widths); user types are modelled as the "
            "tuple of what they archive; bool bytes other than 0/1 and json kinds > 7 are outside the model's domain.",
}

RULE = ("(p) ygm_ptr: every rank registers N > 65536 pointers of one type, pointers with indices around 2^16 / 2^17 / N-1 travel through "
        "async and async_bcast (alone and in a vector) and are dereferenced by the handler; (a) case = (type shape, container length class) with a value generated from VERIF_SEED; non-trivial = every case (bytes compared, "
        "both byte strings read back by the real input archive); (b)/(c) case = (layout, routing, capacity, schedule seed/policy): calibration "
        "message per handler type + generated asyncs/broadcasts from every rank to random destinations with random neighbours; every async-"
        "communicator MPI payload parsed by the model, every handler execution checked")

NSHAPES = 36
CHEAP = {11: "str", 12: "vec u8", 13: "vec u32", 14: "vec bool", 17: "vec f64"}   # shapes that get the boundary / multi-MB lengths


def fnv(s):
    h = 1469598103934665603
    for c in s.encode():
        h ^= c
        h = (h * 1099511628211) & 0xFFFFFFFFFFFFFFFF
    return h


# ----------------------------------------------------------------------------------- builds

def build_variant(tag, flags):
    """harness/wire.cpp compiled with other flags than C.build_harness offers (-O0 probe build; sanitizers without the
    `null` check, which YGM's lambda_map trips by design for every captureless lambda).  Same caching rule as
    C.build_harness, separate file-name prefix so that the variants do not evict each other."""
    src = os.path.join(C.HARNESS, "wire.cpp")
    fl = ["-std=c++17", "-g0", "-w", "-I" + C.SIMMPI, "-I" + os.path.join(C.REPO, "include"), "-I" + C.HARNESS, "-D" + C.HOOK_DEFINE] + list(flags)
    key = hashlib.sha256((C.repo_hash() + C._tree_hash([src, os.path.join(C.HARNESS, "hcommon.hpp")])
                          + C._tree_hash([os.path.join(C.SIMMPI, "simmpi.cpp"), os.path.join(C.SIMMPI, "mpi.h")]) + " ".join(fl)).encode()).hexdigest()[:20]
    d = os.path.join(C.BUILD, "harness")
    os.makedirs(d, exist_ok=True)
    out = os.path.join(d, f"{tag}-{key}")
    with C.Lock("harness-" + tag):
        if not os.path.exists(out):
            for f in os.listdir(d):
                if f.startswith(tag + "-") and not f.endswith(".tmp"):
                    try:
                        os.unlink(os.path.join(d, f))
                    except OSError:
                        pass
            r = C.sh(["g++"] + fl + [src, os.path.join(C.SIMMPI, "simmpi.cpp"), "-o", out + ".tmp", "-lpthread"])
            if r.returncode != 0:
                return None, r.stderr
            os.rename(out + ".tmp", out)
    return out, ""


SAN_FLAGS = ["-O1", "-g", "-fsanitize=address,undefined", "-fno-sanitize=null,nonnull-attribute", "-fno-sanitize-recover=all", "-fno-omit-frame-pointer"]


# ----------------------------------------------------------------------------------- probe: function objects with state

def part_probe(res, binary, seed):
    """a 16-byte function object through async / async_bcast, default build (-O1) and a plain -O0 build.
    Returns True when stateful function objects survive async_bcast in the default build."""
    o0, err = build_variant("wireO0", ["-O0", "-DWIRE_PROBE_ONLY"])
    if o0 is None:
        res.corr_failures.append({"relation": "probe harness builds against /repo", "what": err[-500:], "case": None})
    jobs = [(opt, b, api, lay, routing) for (opt, b) in (("-O1", binary), ("-O0", o0)) if b
            for api in ("async", "async_bcast") for (lay, routing) in (((1, 2), "NONE"), ((2, 2), "NLNR"))]

    def do(j):
        opt, b, api, (n, p), routing = j
        return j, C.run_sim(b, ["probe", "b" if api == "async_bcast" else "a", 1000 + seed], nodes=n, ppn=p, env={"YGM_COMM_ROUTING": routing},
                            sim_seed=seed, want_log=False, timeout=60)

    ok_bcast = True
    for (opt, b, api, (n, p), routing), sr in C.pmap(do, jobs):
        res.evaluations += 1
        res.distinct.add(("probe", opt, api, n * p))
        res.count("probe:stateful-functor")
        got = sorted((r, l) for r, ls in sr.outs.items() for l in ls if l.startswith("precv"))
        want_ranks = list(range(n * p)) if api == "async_bcast" else [n * p - 1]
        good = sr.verdict == "ok" and [r for r, _ in got] == want_ranks and all(l.split()[2:] == ["1", "1"] for _, l in got)
        if not good:
            if opt == "-O1" and api == "async_bcast":
                ok_bcast = False
            sig = f"stateful-functor-crash {api} {opt}" if sr.verdict.startswith("rank-failed") else f"stateful-functor-state-differs {api} {opt}"
            res.oracle_failures.append({
                "what": f"{api} with a 16-byte trivially copyable function object, build {opt}, {n}x{p} {routing}: {sr.verdict}; handler output {got[:4]} "
                        "(on the pinned tree: remote_dispatch_lambda in pack_lambda_generic passes `*pl` with pl == nullptr to a by-value `Lambda l` parameter)",
                "signature": sig, "case": {"part": "probe", "api": api, "opt": opt, "nodes": n, "ppn": p, "routing": routing, "seed": seed, "verdict": sr.verdict}})
    return ok_bcast


# ----------------------------------------------------------------------------------- ygm_ptr registry indices beyond 16 bits

def ptrbig_configs(tier, seed):
    cfgs = [{"nodes": 1, "ppn": 2, "routing": "NONE", "cap": None, "N": 70000},
            {"nodes": 2, "ppn": 2, "routing": "NLNR", "cap": 1, "N": 262200},
            {"nodes": 2, "ppn": 3, "routing": "NR", "cap": 0, "N": 140000}]
    if tier != "quick":
        cfgs += [{"nodes": 3, "ppn": 2, "routing": "NLNR", "cap": None, "N": 1100000}, {"nodes": 1, "ppn": 1, "routing": "NONE", "cap": 0, "N": 65537},
                 {"nodes": 2, "ppn": 2, "routing": "NONE", "cap": 1, "N": 65600}]
    return [dict(c, part="ptrbig", seed=seed * 100 + i, sim_seed=seed * 31 + i) for i, c in enumerate(cfgs)]


def run_ptrbig(res, binary, cfg):
    """every rank registers N > 65536 ygm_ptr<PObj>; pointers with indices on both sides of 2^16 (and far above) go through
    async / async_bcast, alone and in a vector; the handler dereferences them.  Oracle: arrived index == sent index and the
    dereferenced object is the one the sender pointed to (same registration order on every rank)."""
    env = {"YGM_COMM_ROUTING": cfg["routing"]}
    if cfg["cap"] is not None:
        env["YGM_COMM_BUFFER_SIZE_KB"] = cfg["cap"]
    n = cfg["nodes"] * cfg["ppn"]
    sr = C.run_sim(binary, ["ptrbig", cfg["seed"], cfg["N"]], nodes=cfg["nodes"], ppn=cfg["ppn"], env=env, sim_seed=cfg["sim_seed"],
                   want_log=False, timeout=300)
    case0 = {k: cfg[k] for k in ("part", "nodes", "ppn", "routing", "cap", "N", "seed", "sim_seed")}
    if cfg.get("sanitize"):
        case0["sanitize"] = True
    if sr.verdict != "ok":
        res.oracle_failures.append({"what": f"ygm_ptr run (N={cfg['N']} registrations per rank) failed: {sr.verdict} {sr.stderr[-300:]}",
                                    "signature": "ygm-ptr-run-" + sr.verdict.split(":")[0].split()[0], "case": dict(case0, verdict=sr.verdict)})
    sent, got = {}, {}
    for r, lines in sr.outs.items():
        for l in lines:
            w = l.split()
            if w and w[0] == "psent":
                sent[int(w[1])] = {"src": r, "dest": int(w[2]), "want": [int(x) for x in w[3:]]}
            elif w and w[0] == "precv":
                got.setdefault((int(w[1]), r), []).append(w[2:])
            elif w and w[0] == "registered" and (int(w[2]) != 0 or int(w[3]) != cfg["N"] - 1):
                res.corr_failures.append({"relation": "check-machinery", "what": f"registry indices of the fresh type are not 0..N-1: {l}", "case": case0})
    bad = 0
    for uid, rec in sent.items():
        ranks = range(n) if rec["dest"] < 0 else [rec["dest"]]
        for r in ranks:
            rows = got.get((uid, r))
            res.evaluations += 1
            res.distinct.add(("ptrbig", "bcast" if rec["dest"] < 0 else "async", len(rec["want"]) > 1, max(rec["want"]).bit_length()))
            res.count("ptr-index:" + ("<2^16" if max(rec["want"]) < 65536 else "<2^17" if max(rec["want"]) < 131072 else ">=2^17"))
            if rows is None:
                if sr.verdict == "ok":
                    res.oracle_failures.append({"what": f"ygm_ptr message uid {uid} never executed on rank {r}", "signature": "ygm-ptr-delivery-count", "case": dict(case0, uid=uid, sent=rec)})
                continue
            want = [str(x) for x in rec["want"]]
            if [x[0] for x in rows] != want or any(x[1] != x[0] or x[2:] != ["1", "1"] for x in rows):
                bad += 1
                if bad <= 4:
                    arrived = [x[1] for x in rows]
                    trunc = [x for x in rows if x[1] != x[0]]
                    sig = "ygm-ptr-index-truncated" if trunc and all(int(x[1]) == int(x[0]) % 65536 for x in trunc) else "ygm-ptr-wrong-object"
                    res.oracle_failures.append({
                        "what": f"ygm_ptr sent with registry index {want} arrived on rank {r} with index {arrived}; dereferencing it reaches "
                                f"{'another' if any(x[2:] != ['1', '1'] for x in rows) else 'the same'} object (object ok / address ok = {[x[2:] for x in rows]})",
                        "signature": sig, "case": dict(case0, uid=uid, api="async_bcast" if rec["dest"] < 0 else "async", sent=rec, received=rows)})
    if not sent and sr.verdict == "ok":
        res.corr_failures.append({"relation": "check-machinery", "what": "ptrbig run produced no messages", "case": case0})
    return sr


# ----------------------------------------------------------------------------------- (a) archive

def archive_cases(tier, seed):
    rnd = random.Random(seed * 7919 + 17)
    big = 3000 if tier == "quick" else 20000
    cases = []
    k = 0
    for s in range(NSHAPES):
        sizes = [(0, "empty"), (1, "one"), (2 + rnd.randrange(7), "few"), (255 + rnd.randrange(3), "boundary-256"), (big, "large")]
        sizes += [(rnd.randrange(40), "random") for _ in range(3 if tier == "quick" else 12)]
        if s in CHEAP:
            sizes += [(65535 + rnd.randrange(3), "boundary-65536")]
            sizes += [((300000 if tier == "quick" else 3000000) if s == 11 else (70000 if tier == "quick" else 1000000), "multi-MB" if tier != "quick" else "100KB+")]
        if s in (29, 30):   # ygm_ptr / vector of ygm_ptr: forged registry indices around 2^16, 2^31, 2^32-1 (archived, never dereferenced)
            sizes += [(2 + rnd.randrange(6), "ptr-wide-index") for _ in range(14 if tier == "quick" else 60)]
        if s <= 10:      # scalars: the length is irrelevant, draw more values instead
            sizes = [(0, "scalar")] * (12 if tier == "quick" else 60)
        for sz, cls in sizes:
            cases.append({"k": k, "shape": s, "sz": sz, "cls": cls})
            k += 1
    return cases, big


def run_archive(binary, mode, seed, big, lines, tmpd):
    fd, p = tempfile.mkstemp(prefix=f"cases-{mode}-", suffix=".txt", dir=tmpd)
    with os.fdopen(fd, "w") as f:
        f.write("\n".join(lines) + "\n")
    sr = C.run_sim(binary, [mode, seed, big, p], want_log=False, timeout=900)
    return sr


def part_archive(res, binary, tier, seed, model_ok, only=None):
    cases, big = archive_cases(tier, seed)
    if only is not None:
        cases = [c for c in cases if c["k"] in only]
    tmpd = tempfile.mkdtemp(prefix="c06-")
    try:
        chunks = [cases[i::8] for i in range(8)]
        chunks = [c for c in chunks if c]

        def do_ser(ch):
            return ch, run_archive(binary, "ser", seed, big, [f"{c['k']} {c['shape']} {c['sz']}" for c in ch], tmpd)

        byk = {}
        for ch, sr in C.pmap(do_ser, chunks):
            if sr.verdict != "ok":
                res.oracle_failures.append({"what": f"archive harness failed while serialising: {sr.verdict}", "signature": "archive-ser-crash",
                                            "case": {"part": "archive", "seed": seed, "tier": tier, "ks": [c["k"] for c in ch], "stderr": sr.stderr[-400:]}})
            for l in sr.outs.get(0, []):
                if not l.startswith("case "):
                    continue
                head, ty, val, hx = [x.strip() for x in l.split("|")]
                byk[int(head.split()[1])] = (ty, val, hx)
        done = [c for c in cases if c["k"] in byk]
        mout = {}
        if model_ok and done:
            out = C.model("wire", [f"ser {byk[c['k']][0]} | {byk[c['k']][1]}" for c in done], timeout=1800)
            for c, o in zip(done, out):
                mout[c["k"]] = o.split()
        # load back with the real input archive: the real bytes (oracle) and the model's bytes (correspondence)
        real_lines, model_lines = [], []
        for c in done:
            real_lines.append(f"{c['k']} {c['shape']} {c['sz']} {byk[c['k']][2]}")
            m = mout.get(c["k"])
            if m and len(m) == 2 and m[0].startswith("x"):
                model_lines.append(f"{c['k']} {c['shape']} {c['sz']} {m[0]}")
        loaded = {}

        def do_load(ls):
            return run_archive(binary, "load", seed, big, ls, tmpd)

        load_crashed = False
        for tag, ls in (("real", real_lines), ("model", model_lines)):
            for sr in C.pmap(do_load, [c for c in [ls[i::8] for i in range(8)] if c]):
                if sr.verdict != "ok":
                    load_crashed = True
                    res.oracle_failures.append({"what": f"real input archive crashed reading {tag} bytes: {sr.verdict}", "signature": f"archive-load-crash-{tag}",
                                                "case": {"part": "archive", "seed": seed, "tier": tier, "stderr": sr.stderr[-400:]}})
                for l in sr.outs.get(0, []):
                    w = l.split()
                    if w and w[0] == "load":
                        loaded[(tag, int(w[1]))] = w[2:]
        for c in done:
            k = c["k"]
            ty, val, hx = byk[k]
            case = {"part": "archive", "seed": seed, "tier": tier, "k": k, "shape": c["shape"], "sz": c["sz"], "type": ty,
                    "value": val[:300], "real_bytes": hx[:300]}
            res.evaluations += 1
            res.distinct.add((c["shape"], c["cls"]))
            res.count("archive:" + c["cls"])
            got = loaded.get(("real", k))
            if got is None:
                if not load_crashed:
                    res.corr_failures.append({"relation": "check-machinery", "what": f"no load result for archive case {k}", "case": case})
            elif got != ["1", "1"]:
                res.oracle_failures.append({"what": f"value of type '{ty}' does not survive YGMOutputArchive -> YGMInputArchive (equal,empty)={got}",
                                            "signature": "archive-roundtrip " + ty.split()[0], "case": case})
            if not model_ok:
                continue
            m = mout.get(k)
            if not m or len(m) != 2:
                res.corr_failures.append({"relation": "Wire.ser defined on the logged description", "what": f"model answered {m}", "case": case})
                continue
            if m[0] != hx:
                res.corr_failures.append({"relation": "Wire.ser == bytes of cereal::YGMOutputArchive", "what": f"bytes differ for type '{ty}' (len real {len(hx)//2} model {len(m[0])//2})",
                                          "case": dict(case, model_bytes=m[0][:300])})
            g2 = loaded.get(("model", k))
            if g2 is not None and g2 != ["1", "1"] and (m[0] != hx or got == ["1", "1"]):
                res.corr_failures.append({"relation": "YGMInputArchive reads Wire.ser's bytes back to the value", "what": f"(equal,empty)={g2}", "case": case})
            if m[1] != "1":
                res.corr_failures.append({"relation": "Wire.des t (Wire.ser v ++ rest) = (v, rest) on the generated value", "what": "model round trip failed", "case": case})
            if c["shape"] in (23, 33) and c["cls"] == "few":
                res.sample({"type": ty, "value": val[:160], "bytes": hx[:160]})
        missing = [c["k"] for c in cases if c["k"] not in byk]
        if missing and not res.oracle_failures:
            res.corr_failures.append({"relation": "check-machinery", "what": f"archive cases without output: {missing[:10]}", "case": None})
    finally:
        shutil.rmtree(tmpd, ignore_errors=True)


# ----------------------------------------------------------------------------------- (b)+(c) traffic

def traffic_configs(tier, seed):
    rnd = random.Random(seed * 104729 + 5)
    pol = ["uniform", "late", "burst", "starve", "racer"]
    cfgs = []
    layouts = [(2, 2), (2, 3)] if tier == "quick" else [(2, 2), (2, 3), (3, 2), (1, 3), (3, 3), (4, 2)]
    for (n, p) in layouts:
        for routing in ("NONE", "NR", "NLNR"):
            for cap in (0, 1, None):
                cfgs.append({"nodes": n, "ppn": p, "routing": routing, "cap": cap})
    if tier == "quick":
        cfgs += [{"nodes": 3, "ppn": 2, "routing": "NLNR", "cap": 1}, {"nodes": 3, "ppn": 2, "routing": "NR", "cap": 0},
                 {"nodes": 1, "ppn": 3, "routing": "NONE", "cap": None}, {"nodes": 1, "ppn": 1, "routing": "NR", "cap": 1},
                 # messages beyond 64 KB (all four bytes of message_size matter) and beyond the capacity
                 {"nodes": 2, "ppn": 2, "routing": "NR", "cap": 64, "big": 9000, "nmsg": 16},
                 {"nodes": 2, "ppn": 3, "routing": "NLNR", "cap": None, "big": 9000, "nmsg": 12}]
    else:
        cfgs += [{"nodes": 1, "ppn": 1, "routing": r, "cap": c} for r in ("NONE", "NLNR") for c in (0, None)]
        cfgs += [{"nodes": 2, "ppn": 3, "routing": r, "cap": 64, "big": 40000, "nmsg": 40} for r in ("NONE", "NR", "NLNR")]
    out = []
    reps = 1 if tier == "quick" else 2
    for i, c in enumerate(cfgs):
        for rep in range(reps):
            d = dict(c)
            d["sim_seed"] = rnd.randrange(1, 10**6)
            d["policy"] = pol[(i + rep + seed) % len(pol)]
            d["seed"] = seed * 1000 + i * 10 + rep
            d.setdefault("big", 300 if tier == "quick" else 1000)
            d.setdefault("nmsg", 36 if tier == "quick" else 80)
            d["eager"] = [50, 0, 100][(i + rep) % 3]
            out.append(d)
    return out


def run_traffic(binary, cfg, log_bytes=-1):
    env = {"YGM_COMM_ROUTING": cfg["routing"], "YGM_COMM_IRECV_SIZE_KB": 65536}
    if cfg["cap"] is not None:
        env["YGM_COMM_BUFFER_SIZE_KB"] = cfg["cap"]
    return C.run_sim(binary, ["traffic", cfg["seed"], cfg["big"], cfg["nmsg"], cfg.get("sb", 1)], nodes=cfg["nodes"], ppn=cfg["ppn"], env=env,
                     sim_seed=cfg["sim_seed"], policy=cfg["policy"], eager_pct=cfg["eager"], log_bytes=log_bytes, timeout=600,
                     max_steps=20000000)


def parse_outs(sr):
    sent, recv = {}, {}
    for r, lines in sr.outs.items():
        for l in lines:
            if l.startswith("sent "):
                parts = l.split("|")
                head, tys, vals = parts[0].split(), parts[1].strip(), parts[2].strip()
                sent[int(head[1])] = {"src": r, "dest": int(head[2]), "hidx": int(head[3]), "fn": head[4], "tys": tys, "vals": vals}
            elif l.startswith("recv "):
                w = l.split()
                recv.setdefault(int(w[1]), []).append({"rank": r, "hidx": int(w[2]), "ok": w[3], "fok": w[4], "cok": w[5], "hash": int(w[6])})
    return sent, recv


def oracle_traffic(res, sr, cfg, sent, recv):
    """(c) the property itself on the real run: every handler got what was passed, exactly once"""
    n = cfg["nodes"] * cfg["ppn"]
    run_ok = sr.verdict == "ok"
    bad = 0
    for uid, rs in recv.items():
        rec = sent.get(uid)
        for x in rs:
            res.evaluations += 1
            case = {"part": "traffic", "run": cfg, "uid": uid, "recv": x, "sent": {k: (v if k != "vals" else v[:200]) for k, v in (rec or {}).items()}}
            if rec is None:
                res.oracle_failures.append({"what": f"handler ran with uid {uid} that nobody sent (bytes of another message were read)", "signature": "args-differ unknown-uid", "case": case}); bad += 1
                continue
            ty = rec["tys"].split()[2] if len(rec["tys"].split()) > 2 else "none"
            if x["ok"] != "1" or x["hash"] != fnv(rec["vals"]):
                res.oracle_failures.append({"what": f"arguments received differ from arguments sent (types {rec['tys']})", "signature": "args-differ " + ty, "case": case}); bad += 1
            if x["fok"] != "1":
                res.oracle_failures.append({"what": "function-object state received differs from the state sent", "signature": "functor-state-differs", "case": case}); bad += 1
            if x["cok"] != "1":
                res.oracle_failures.append({"what": "handler did not receive the communicator pointer", "signature": "comm-pointer-differs", "case": case}); bad += 1
            if x["hidx"] != rec["hidx"] or (rec["dest"] >= 0 and x["rank"] != rec["dest"]):
                res.oracle_failures.append({"what": "message executed by the wrong handler or on the wrong rank", "signature": "wrong-handler-or-rank", "case": case}); bad += 1
            if bad > 8:
                return
    if run_ok:
        for uid, rec in sent.items():
            want = n if rec["dest"] < 0 else 1
            got = len(recv.get(uid, []))
            if got != want:
                res.oracle_failures.append({"what": f"message uid {uid} executed {got} times, expected {want}", "signature": "delivery-count",
                                            "case": {"part": "traffic", "run": cfg, "uid": uid, "sent": dict(rec, vals=rec["vals"][:200])}})
                bad += 1
                if bad > 8:
                    return


def buffers_traffic(res, sr, cfg, sent):
    """(b) every MPI payload of the async communicator against Wire.parseBuffer / encodeMsg"""
    routed = cfg["routing"] != "NONE"
    off = 8 if routed else 0
    R = "1" if routed else "0"
    case0 = {"part": "traffic", "run": cfg}
    acomm, cur, isends = None, None, []
    for line in sr.log:
        sp = line.split(" ", 2)
        if len(sp) < 3:
            continue
        if sp[1] == "irecv" and acomm is None:
            acomm = C.kv(sp[2]).get("comm")
        elif sp[1] == "h":
            w = sp[2].split()
            if len(w) >= 3 and w[1] in ("calib", "calibb"):
                cur = None if w[2] == "end" else (w[1], int(w[2]))
        elif sp[1] == "isend":
            d = C.kv(sp[2])
            if d.get("comm") == acomm:
                isends.append({"t": int(sp[0]), "src": int(d["r"]), "dst": int(d["dst"]), "hex": d.get("data", ""), "win": cur})
    if not isends:
        res.corr_failures.append({"relation": "check-machinery", "what": "no async-communicator payload in the wire log", "case": case0})
        return
    # ---- lambda ids (opaque): learned from the calibration messages
    CAL, CALB = 1 << 62, 3 << 61
    lid_of, lid2h = {}, {}
    prelim = []
    bc_h = sorted(set(w[1] for w in [i["win"] for i in isends] if w and w[0] == "calibb"))
    for h in bc_h:
        rec = sent.get(CALB + h)
        if rec:
            prelim.append((h, f"enc {R} 1 0 0 {rec['fn']} | {rec['tys']} | {rec['vals']}"))
    plen = {}
    if prelim:
        for (h, _), o in zip(prelim, C.model("wire", [l for _, l in prelim])):
            plen[h] = (len(o.split()[0]) - 1) // 2
    for i in isends:
        w = i["win"]
        if not w:
            continue
        b = bytes.fromhex(i["hex"])
        if w[0] == "calib" and i["src"] == 0:
            lid = int.from_bytes(b[off:off + 2], "little")
            if w[1] in lid_of:
                res.corr_failures.append({"relation": "calibration message travels alone", "what": f"two payloads from rank 0 for handler {w[1]}", "case": case0})
            lid_of[w[1]] = lid
            lid2h.setdefault(lid, set()).add(w[1])
        elif w[0] == "calibb" and w[1] in plen:
            L = plen[w[1]]
            if L == 0 or len(b) % L:
                res.corr_failures.append({"relation": "broadcast leg = [header{0,-1}] id functor args (queueAppend)", "what": f"payload length {len(b)} not a multiple of {L}", "case": dict(case0, hidx=w[1])})
                continue
            for o in range(0, len(b), L):
                lid2h.setdefault(int.from_bytes(b[o + off:o + off + 2], "little"), set()).add(w[1])
    amb = {l: sorted(h) for l, h in lid2h.items() if len(h) > 1}
    if amb:
        res.corr_failures.append({"relation": "distinct handler types have distinct lambda ids", "what": str(amb)[:200], "case": case0})
        return
    lid2h = {l: next(iter(h)) for l, h in lid2h.items()}
    hinfo = {}
    for uid, rec in sent.items():
        hinfo.setdefault(rec["hidx"], (max(0, (len(rec["fn"]) - 1) // 2), rec["tys"]))
    lines = []
    for lid, h in sorted(lid2h.items()):
        if h in hinfo:
            lines.append(f"tbl {lid} {hinfo[h][0]} | {hinfo[h][1]}")
    ntbl = len(lines)
    enc_uids = []
    for uid, rec in sorted(sent.items()):
        if rec["dest"] >= 0 and rec["hidx"] in lid_of:
            lines.append(f"enc {R} 0 {rec['dest']} {lid_of[rec['hidx']]} {rec['fn']} | {rec['tys']} | {rec['vals']}")
            enc_uids.append(uid)
    for i in isends:
        lines.append(f"parse {R} {i['dst']} x{i['hex']}")
    out = C.model("wire", lines, timeout=1800)
    if len(out) != len(lines) or any(o != "ok" for o in out[:ntbl]):
        res.corr_failures.append({"relation": "check-machinery", "what": "model driver answered %d of %d lines" % (len(out), len(lines)), "case": case0})
        return
    expected = {}
    for uid, o in zip(enc_uids, out[ntbl:ntbl + len(enc_uids)]):
        w = o.split()
        if len(w) != 2 or w[1] != "1":
            res.corr_failures.append({"relation": "Wire.asyncAppend = encodeMsg on the logged message", "what": o[:80], "case": dict(case0, uid=uid)})
            continue
        expected[w[0]] = uid
        nb = (len(w[0]) - 1) // 2
        res.count("msg-bytes:" + ("<64" if nb < 64 else "<1K" if nb < 1024 else "<64K" if nb < 65536 else ">=64K"))
    apps = {}
    nfail = 0

    def fail(rel, what, extra):
        nonlocal nfail
        nfail += 1
        if nfail <= 4:
            res.corr_failures.append({"relation": rel, "what": what, "case": dict(case0, **extra)})

    for i, o in zip(isends, out[ntbl + len(enc_uids):]):
        res.traces_validated += 1
        where = {"t": i["t"], "src": i["src"], "dst": i["dst"], "payload": i["hex"][:400]}
        if o in ("none", "bad-op"):
            fail("Wire.parseBuffer splits every physical buffer", f"model cannot parse the payload ({len(i['hex'])//2} bytes) sent {i['src']}->{i['dst']}", where)
            continue
        items = [x for x in o.split(" ; ") if x]
        res.count("msgs-per-buffer:" + ("1" if len(items) == 1 else "2-4" if len(items) <= 4 else "5-16" if len(items) <= 16 else ">16"))
        for it in items:
            w = it.split()
            if w[0] == "E":
                size, dest, lid, fn, vals = int(w[1]), int(w[2]), int(w[3]), w[4], " ".join(w[5:])
                uid = int(w[5]) if len(w) > 5 else int.from_bytes(bytes.fromhex(fn[1:17]), "little")
                rec = sent.get(uid)
                if rec is None:
                    fail("every message in a buffer is a message that was sent", f"unknown uid {uid}", where)
                    continue
                okk = lid2h.get(lid) == rec["hidx"] and fn == rec["fn"] and vals == rec["vals"]
                if routed:
                    if rec["dest"] < 0:
                        okk = okk and dest == -1 and size == 0
                    else:
                        okk = okk and dest == rec["dest"] == i["dst"]
                if not okk:
                    fail("buffer item == the message the sender logged", f"uid {uid}: item {it[:120]} vs sent {str(rec)[:160]}", where)
                apps.setdefault(uid, []).append((i["src"], i["dst"], "E", size))
                res.distinct.add(("exec", cfg["routing"], rec["hidx"]))
            elif w[0] == "F":
                uid = expected.get(w[3])
                if uid is None:
                    fail("forwarded bytes == the origin's encoding (Wire.forwardCopy is the identity)", f"forwarded message {w[3][:80]} is not the encoding of any sent message", where)
                    continue
                if sent[uid]["dest"] == i["dst"]:
                    fail("forwarding only at ranks that are not the destination", f"uid {uid}", where)
                apps.setdefault(uid, []).append((i["src"], i["dst"], "F", int(w[1])))
                res.distinct.add(("fwd", cfg["routing"], sent[uid]["hidx"]))
    # header_size_exact on the real bytes + path of every message
    for uid, rec in sent.items():
        if rec["dest"] < 0 or uid not in apps:
            continue
        a = apps[uid]
        enc = next((h for h, u in expected.items() if u == uid), None) if routed else None
        if routed and enc is not None:
            body = (len(enc) - 1) // 2 - 8
            if any(x[3] != body for x in a):
                fail("header_size_exact: message_size = bytes that follow", f"uid {uid}: sizes {[x[3] for x in a]} vs body {body}", {"uid": uid})
        if sr.verdict == "ok":
            chain = a[0][0] == rec["src"] and a[-1][1] == rec["dest"] and a[-1][2] == "E" and all(x[2] == "F" for x in a[:-1]) \
                and all(a[j][1] == a[j + 1][0] for j in range(len(a) - 1))
            if not chain:
                fail("a message appears once per hop, byte-identical, from origin to destination", f"uid {uid}: {a}", {"uid": uid, "sent": dict(rec, vals=rec["vals"][:100])})
            res.count("hops:%d" % len(a))
    if sr.verdict == "ok":
        lost = [u for u, r in sent.items() if u not in apps]
        if lost:
            fail("every sent message is found in some buffer", f"{len(lost)} messages never seen, e.g. uid {lost[0]}", {})


def check_run(res, binary, cfg, model_ok):
    sr = run_traffic(binary, cfg)
    sent, recv = parse_outs(sr)
    key = f"{cfg['nodes']}x{cfg['ppn']}/{cfg['routing']}/cap={cfg['cap']}"
    res.count("run:" + key)
    if sr.verdict != "ok":
        err = sr.stderr[-600:]
        if "m_send_buffer_bytes == 0" in err or "m_pending_isend_bytes == 0" in err:
            # defect D1 (C03): flush_all_local_and_process_incoming returns with unsent forwarded bytes; not a wire-format matter
            res.count("run-aborted-by-C03-defect-D1")
            res.notes.append(f"run {key} sim_seed={cfg['sim_seed']} aborted in barrier_reduce_counts (C03 finding D1); buffers and handler executions before the abort were still checked")
        elif sr.verdict == "config-truncation":
            res.corr_failures.append({"relation": "check-machinery", "what": "irecv buffer too small for the generated traffic", "case": {"run": cfg}})
        else:
            res.oracle_failures.append({"what": f"traffic run failed: {sr.verdict} {sr.blocked[:200]} {err[-300:]}", "signature": "traffic-run-" + sr.verdict.split(":")[0].split()[0],
                                        "case": {"part": "traffic", "run": cfg, "verdict": sr.verdict, "stderr": err}})
    oracle_traffic(res, sr, cfg, sent, recv)
    if model_ok:
        buffers_traffic(res, sr, cfg, sent)
    return sr, sent, recv


def run(tier, seed, model_ok=True):
    res = C.Result()
    res.rule = RULE
    res.assumptions = ["lambda ids are opaque 16-bit values, equal on all ranks (learned from calibration messages)",
                       "message body < 2^32 bytes, dest < 2^31 (widths of header_t) — larger messages are outside the theorems and the runs",
                       "cereal's own headers are modelled by Wire.ser/des and compared on generated values, not verified",
                       "user lambdas do not send from inside handlers in these runs (wire format is independent of the sending context)"]
    binary, err = C.build_harness("wire")
    if binary is None:
        res.corr_failures.append({"relation": "harness builds against /repo", "what": err[-800:], "case": None})
        return res
    if not model_ok:
        res.corr_failures.append({"relation": "model driver available", "what": "Lean library does not build", "case": None})
    sb = part_probe(res, binary, seed)
    if not sb:
        res.notes.append("async_bcast crashes with stateful function objects (see oracle failure); the generated traffic therefore broadcasts "
                         "only through stateless handler types, everything else is unchanged")
    part_archive(res, binary, tier, seed, model_ok)
    for sub in C.pmap(lambda c: (lambda r: (run_ptrbig(r, binary, c), r)[1])(C.Result()), ptrbig_configs(tier, seed)):
        res.evaluations += sub.evaluations
        res.distinct |= sub.distinct
        res.oracle_failures += sub.oracle_failures
        res.corr_failures += sub.corr_failures
        for k, v in sub.distribution.items():
            res.count(k, v)
    # (d) single messages far larger than the send-buffer capacity (17 MiB at capacity 0 / 1 KB, 40 MB at the default), library-default
    # receive-slot size: the payload regenerated in the handler must equal what was sent (shared traffic harness, delivery oracle)
    from lib import campaign as K
    from props import c01
    hb, herr = C.build_harness("traffic")
    if hb is None:
        res.corr_failures.append({"relation": "harness builds against /repo", "what": (herr or "")[-800:], "case": None})
    else:
        huge = [c for c in c01.special_cases(tier, seed) if getattr(c[1], "default_irecv_size", None)]
        K.run_cases(res, hb, huge, ("delivery",), extra=None, log_bytes=0, nontrivial=lambda out: out.get("asyncs", 0) > 0)
    cfgs = traffic_configs(tier, seed)
    for c in cfgs:
        c["sb"] = 1 if sb else 0

    def do(cfg):
        sub = C.Result()
        try:
            sr, sent, recv = check_run(sub, binary, cfg, model_ok)
            info = {"run": {k: cfg[k] for k in ("nodes", "ppn", "routing", "cap", "policy")}, "verdict": sr.verdict, "steps": sr.steps,
                    "messages": len(sent), "handler_executions": sum(len(v) for v in recv.values()), "buffers": sub.traces_validated}
        except Exception as ex:   # noqa: BLE001
            import traceback
            sub.corr_failures.append({"relation": "check-machinery", "what": "exception: " + repr(ex)[:200] + traceback.format_exc()[-300:], "case": {"run": cfg}})
            info = None
        return sub, info

    for sub, info in C.pmap(do, cfgs, workers=max(2, C.NCPU - 2)):
        res.evaluations += sub.evaluations
        res.distinct |= sub.distinct
        res.traces_validated += sub.traces_validated
        res.oracle_failures += sub.oracle_failures
        res.corr_failures += sub.corr_failures
        res.notes += sub.notes
        for k, v in sub.distribution.items():
            res.count(k, v)
        if info and info["run"]["routing"] == "NLNR" and info["run"]["nodes"] == 2 and info["run"]["ppn"] == 3:
            res.sample(info)
    if tier == "thorough":
        sbin, serr = build_variant("wiresan", SAN_FLAGS)
        if sbin is None:
            res.corr_failures.append({"relation": "sanitized harness builds", "what": serr[-500:], "case": None})
        else:
            sub = C.Result()
            part_archive(sub, sbin, "quick", seed + 1, False)
            scfgs = [dict(c, sb=1 if sb else 0, sanitize=True) for c in traffic_configs("quick", seed + 1)][:12]
            for s2, _ in C.pmap(lambda c: (check_only_oracle(sbin, c), None), scfgs, workers=6):
                sub.oracle_failures += s2.oracle_failures
                sub.evaluations += s2.evaluations
            for c in ptrbig_configs("quick", seed + 1)[:2]:
                run_ptrbig(sub, sbin, dict(c, sanitize=True))
            for f in sub.oracle_failures:
                f["signature"] = "sanitized " + f.get("signature", "")
            res.oracle_failures += sub.oracle_failures
            res.evaluations += sub.evaluations
            res.count("sanitized-evaluations", sub.evaluations)
    # framing of relayed multicast / broadcast messages (async_mcast / async_bcast legs that reach their destination through an
    # intermediate hop under NR / NLNR are re-buffered by their routing header: a wrong size field misframes everything packed
    # behind them): the concurrent programs of C05, judged by their direct oracle only (their Lean side belongs to C05)
    from props import c05
    rb, rerr = C.build_harness("route")
    if rb is None:
        res.corr_failures.append({"relation": "harness builds against /repo", "what": (rerr or "")[-800:], "case": None})
    else:
        cfgs = c05.conc_configs("quick", seed)
        outs = C.pmap(lambda co: c05.run_conc(rb, co[0]), cfgs)
        sub = C.Result()
        for (cfg, ops), sr in zip(cfgs, outs):
            c05.check_conc(sub, cfg, sr, ops, {}, {}, False)
        res.evaluations += len(cfgs)
        res.count("relayed mcast / bcast framing: concurrent programs judged", len(cfgs))
        for f in sub.oracle_failures:
            f = dict(f)
            f["signature"] = "relayed-message-framing " + str(f.get("signature"))
            res.oracle_failures.append(f)
    # only the first few failures get a replay file: list one of every signature first (end-to-end cases before archive cases)
    order, seen_sig = [], {}
    for f in res.oracle_failures:
        seen_sig.setdefault(f.get("signature", ""), []).append(f)
    rank = lambda sg: (0 if sg.startswith("ygm-ptr") else 1 if not sg.startswith("archive") else 2)
    groups = [seen_sig[k] for k in sorted(seen_sig, key=lambda sg: (rank(sg), list(seen_sig).index(sg)))]
    while any(groups):
        for g in groups:
            if g:
                order.append(g.pop(0))
    res.oracle_failures = order
    return res


def check_only_oracle(binary, cfg):
    sub = C.Result()
    sr = run_traffic(binary, cfg, log_bytes=0)
    sent, recv = parse_outs(sr)
    if sr.verdict != "ok" and "m_send_buffer_bytes == 0" not in sr.stderr:
        sub.oracle_failures.append({"what": f"sanitized traffic run failed: {sr.verdict} {sr.stderr[-400:]}", "signature": "traffic-run-" + sr.verdict.split(":")[0].split()[0],
                                    "case": {"part": "traffic", "run": cfg, "sanitize": True, "stderr": sr.stderr[-600:]}})
    oracle_traffic(sub, sr, cfg, sent, recv)
    return sub


def replay(data):
    """re-run the recorded case; returns True when the failure does NOT reproduce"""
    case = data.get("case") or {}
    if case.get("kind") == "conc":
        from props import c05
        return c05.replay(data)
    if not case and data.get("no_longer_checks"):
        for b in data["no_longer_checks"]:
            if isinstance(b.get("case"), dict) and b["case"].get("run"):
                case = {"part": "traffic", "run": b["case"]["run"]}
                break
            if isinstance(b.get("case"), dict) and b["case"].get("part") == "archive":
                case = b["case"]
                break
    if "scenario" in case:     # a case of the shared traffic harness (huge single messages)
        from lib import campaign as K
        hb, _ = C.build_harness("traffic")
        return K.replay_case(hb, data, ("delivery",), None, log_bytes=0)
    san = bool(case.get("sanitize") or (case.get("run") or {}).get("sanitize"))
    binary, err = build_variant("wiresan", SAN_FLAGS) if san else C.build_harness("wire")
    if binary is None or not case:
        print("replay: nothing executable recorded:", str(data.get("no_longer_checks"))[:500])
        return False
    res = C.Result()
    if case.get("part") == "archive":
        part_archive(res, binary, case.get("tier", "quick"), case.get("seed", 1), True, only={case["k"]} if "k" in case else None)
    elif case.get("part") == "ptrbig":
        run_ptrbig(res, binary, case)
    elif case.get("part") == "probe":
        part_probe(res, binary, case.get("seed", 1))
        res.oracle_failures = [f for f in res.oracle_failures if f["case"]["api"] == case["api"] and f["case"]["opt"] == case["opt"]]
    else:
        check_run(res, binary, case["run"], True)
    for f in res.oracle_failures[:5]:
        print("ORACLE", f["signature"], f["what"][:300])
    for f in res.corr_failures[:5]:
        print("CORR", f["relation"], "|", f["what"][:300])
    return not (res.oracle_failures or res.corr_failures)
