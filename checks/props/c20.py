"""C20 — serialize followed by deserialize reproduces a container (map, multimap, set, multiset, bag,
counting_set).
Tie: generated contents (empty strings, quotes, backslashes, every control character, DEL, invalid and
valid UTF-8, duplicates, shared prefixes, counts up to 2^64-1), communicator sizes 1..4 and 2x2, empty
and pre-populated targets, inserts still pending when serialize is called, ranks that own nothing, empty
containers, REUSED file prefixes (a different container - big, or tiny - serialized to the same prefix first,
optionally with rank files planted beyond the communicator size); run on the real headers under simmpi.  Direct oracle: the reloaded container holds exactly
what was inserted (as the container's kind defines it), rank by rank what the original held, nothing of
the target's previous content, the same default value / round-robin cursor.  Correspondence: every
rank's file parsed independently (field order contents, extra, communicator size), its raw string tokens
against Ser.escape, the reloaded iteration order against Ser.cLoad + Ser.rebuild, and cereal's JSON
string reader against Ser.cLoad on generated tokens (escapes, \\uXXXX, surrogates, malformed input)."""
import collections
import json
import random
import struct

from lib import common as C

META = {
    "claimed": True,
    "technique": "Lean 4 proof (induction over byte strings / sorted sequences / rank lists) + file-level and reload-level correspondence of the "
                 "real serialize/deserialize members under simmpi",
    "text": "Theorems over YgmVerif.Ser: json_string_roundtrip (unescape (escape bs) = bs for EVERY byte string; escape modelled on RapidJSON's "
            "WriteString, unescape on ParseStringToStream) and escape_injective; cereal_load_exact_iff (what cereal's JSONInputArchive hands back is "
            "the prefix before the first NUL, so the round trip is the identity exactly for NUL-free strings); roundtrip_seq (bag), "
            "roundtrip_unique_keys (map, set, counting_set), roundtrip_multiset: deserialize (serialize c) = c on a communicator of the same size for "
            "every content incl. empty ranks, whatever the target held (target_irrelevant); roundtrip_multi (multimap: same elements with the same "
            "multiplicities, sorted, same default value - runs of equal keys come back reversed); image_has_size / one_file_per_rank; serialize_overwrites_every_rank_file / serialize_forgets_previous_files / "
            "roundtrip_reused_prefix (whatever the rank files of the prefix held before, after serialize file r is rank r's image - also for ranks "
            "owning nothing - and deserialize loads exactly what it would load from a fresh prefix); includes_pending_in_issue_order / erased_pair_not_in_image (operations of one issuer on one key act in issue order: insert k; erase k "
            "leaves k out of the image); deserialize_discards_pending (unflushed operations on the target do not survive); rank_file_names_distinct; includes_pending "
            "/ includes_pending_bag (serialize starts with a barrier: every pending operation destined to a rank is applied exactly once before that "
            "rank writes). The model is tied to the code by parsing every written file, comparing its string tokens with Ser.escape, the reloaded "
            "stores with Ser.cLoad + Ser.rebuild, and cereal's reader with Ser.cLoad on generated tokens.",
    "note": "Partial: cereal's document structure, number formatting and std::fstream are trusted (the files are parsed by an independent reader); "
            "std::less<std::string> is the parameter lt (bytesLt, order laws proved). A communicator-size mismatch only prints a warning and is "
            "outside the property. serialize has no barrier after the write: operations issued after one rank returns may reach another rank's image; "
            "the harness issues nothing between serialize and the next barrier. FINDING: std::string contents containing a NUL byte are cut at the "
            "NUL on reload (cereal JSONInputArchive::loadValue(std::string&) assigns GetString() as a C string); the model reproduces it "
            "(cereal_load_roundtrip_partial) and the oracle reports it with signature c20-nul-truncation.",
}

RULE = ("generated: a case = (kind, layout, #inserts per rank, flags, seed); flags choose pre-populated target, barrier or pending inserts before "
        "serialize, only-rank-0 inserts (ranks owning nothing), non-empty default value, two-letter alphabet (duplicates, equal-key runs), NUL bytes, reused prefix (first a big or a tiny container X to the same prefix, then Y with "
        "few keys on rank 0 only / empty / big; files also planted at rank indices size..2*size-1 and one unparsable file beyond); "
        "strings mix printable, control (1..31), quote/backslash/slash, bytes >= 0x80 and a table of special strings; non-trivial = at least one "
        "string token needing an escape or a non-ASCII byte, or an equal-key run, or a rank owning nothing; two counting_sets of one type alive with un-flushed caches at serialize and deserialize (either registration order, inserts continue "
        "afterwards); 2500 dependent pairs (insert;erase / insert v1;insert v2) per rank pending at serialize with capacity 0 and 8 posted receives; "
        "unflushed operations on the target; 9/10/11 ranks; floating-point items; environment rotated over the cases: Issend frequency 0/1/8, posted "
        "receives 1/2/8, isends-wait 0/1/4, send buffer default/0/1 KB with every kind, cyclic node placement; reader: generated JSON string tokens")

LAYOUTS = [(1, 1), (1, 2), (1, 3), (1, 4), (2, 2)]
KINDS = ["map", "multimap", "set", "multiset", "bag", "cset", "mapcount", "bagd", "bagpd", "mapd"]
DISC = {"map": "tree", "multimap": "tree", "set": "tree", "multiset": "tree", "bag": "seq", "cset": "tree", "mapcount": "tree",
        "bagd": "seq", "bagpd": "seq", "mapd": "tree"}
STRKEY = {"map", "multimap", "set", "multiset", "bag", "cset", "mapcount", "mapd"}    # kinds whose keys are strings
STRVAL = {"map", "multimap"}                                                          # kinds whose values are strings
BAGS = {"bag", "bagd", "bagpd"}
BIG_LAYOUTS = [(3, 3), (2, 5), (1, 10), (1, 11)]                                       # 9, 10, 10, 11 ranks


def dbits(x):
    return struct.pack(">d", float(x))
DV = b"d\"v\\\x01\xff"

ENV_KEYS = ("routing", "buffer_kb", "issend_freq", "num_irecvs", "isends_wait", "placement", "policy")


def env_of(case, base=None):
    """the communicator / simulator settings of a case (recorded in the case, so a replay runs under the same settings)"""
    e = dict(base or {})
    e["YGM_COMM_ROUTING"] = case.get("routing", "NONE")
    for key, var in (("buffer_kb", "YGM_COMM_BUFFER_SIZE_KB"), ("issend_freq", "YGM_COMM_ISSEND_FREQ"), ("num_irecvs", "YGM_COMM_NUM_IRECVS"),
                     ("isends_wait", "YGM_COMM_NUM_ISENDS_WAIT")):
        if case.get(key) is not None:
            e[var] = case[key]
    if case.get("placement") == "cyclic":
        e["SIMMPI_PLACEMENT"] = "cyclic"
    return e


def rotate_env(cases):
    """environment dimension rotated over the existing cases (not multiplied): Issend frequency, posted receives, isends-wait,
    node placement; send-buffer sizes 0 and 1 KB occur with every kind"""
    per_kind = {}
    for i, c in enumerate(cases):
        c.setdefault("issend_freq", (8, 0, 1)[i % 3])
        c.setdefault("num_irecvs", (8, 1, 2)[(i + i // 3) % 3])
        c.setdefault("isends_wait", (4, 0, 1)[(i + 2 * (i // 3) + i // 9) % 3])
        if c["nodes"] > 1:
            c.setdefault("placement", "cyclic" if i % 2 == 0 else "block")
        j = per_kind.get(c["kind"], 0)
        per_kind[c["kind"]] = j + 1
        if "buffer_kb" not in c:
            c["buffer_kb"] = (None, 0, 1, None, 1, 0)[j % 6]
    return cases


def unhex(h):
    return b"" if h == "-" else bytes.fromhex(h)


def hx(b):
    return b.hex() if b else "-"


def gen_cases(tier, seed):
    rnd = random.Random(seed * 15485863 + 20)
    cases = []
    reps = 2 if tier == "quick" else 80
    for rep in range(reps):
        for kind in KINDS:
            for (nodes, ppn) in LAYOUTS:
                for variant in range(3):
                    flags = 0
                    if variant == 0:
                        flags = rnd.choice([0, 1]) | rnd.choice([0, 2])
                    elif variant == 1:
                        flags = 1 | (16 if kind in ("map", "multimap", "mapcount", "mapd") else 0) | 32 | rnd.choice([0, 8])
                    else:
                        flags = rnd.choice([0, 1]) | 8 | rnd.choice([0, 2])
                    if rnd.random() < 0.4:
                        flags |= 1024          # the target has unflushed operations when deserialize is called
                    n = rnd.choice([0, 1, 3]) if rnd.random() < 0.25 else rnd.choice([8, 20, 45])
                    cases.append({"kind": kind, "nodes": nodes, "ppn": ppn, "n": n, "flags": flags, "seed": rnd.randrange(1, 10 ** 9),
                                  "sim_seed": rnd.randrange(1, 10 ** 6), "routing": rnd.choice(["NONE", "NR", "NLNR"])})
    # 9, 10 and 11 ranks (file-name suffixes of different widths), every kind; and directed: unflushed operations on the target
    for rep in range(1 if tier == "quick" else 6):
        for i, kind in enumerate(KINDS):
            for (nodes, ppn) in (BIG_LAYOUTS[1 + (i + rep) % 2], BIG_LAYOUTS[0 if (i + rep) % 2 else 3]):
                cases.append({"kind": kind, "nodes": nodes, "ppn": ppn, "n": rnd.choice([3, 6]), "flags": rnd.choice([0, 1]) | rnd.choice([0, 2]) | rnd.choice([0, 1024]),
                              "seed": rnd.randrange(1, 10 ** 9), "sim_seed": rnd.randrange(1, 10 ** 6), "routing": rnd.choice(["NONE", "NR", "NLNR"])})
            nodes, ppn = rnd.choice(LAYOUTS)
            cases.append({"kind": kind, "nodes": nodes, "ppn": ppn, "n": rnd.choice([4, 12]), "flags": 1024 | rnd.choice([0, 1]) | rnd.choice([0, 32]),
                          "seed": rnd.randrange(1, 10 ** 9), "sim_seed": rnd.randrange(1, 10 ** 6), "routing": rnd.choice(["NONE", "NR", "NLNR"]),
                          "buffer_kb": rnd.choice([None, 1, 0])})
    # reused prefix: X serialized to the prefix first, then a different Y (few keys on rank 0 only / empty / big after tiny),
    # optionally with files planted at rank indices beyond the communicator; fresh and pre-populated targets
    for rep in range(1 if tier == "quick" else 12):
        for kind in KINDS:
            for (n, fl) in ((rnd.choice([1, 2]), 8), (0, 0), (rnd.choice([1, 3]), 8 | 256), (0, 256), (20, 512), (rnd.choice([2, 25]), 512 | 256 | 8)):
                nodes, ppn = rnd.choice(LAYOUTS[1:])
                cases.append({"kind": kind, "nodes": nodes, "ppn": ppn, "n": n, "flags": 128 | fl | rnd.choice([0, 1]) | rnd.choice([0, 2]) | rnd.choice([0, 32]),
                              "seed": rnd.randrange(1, 10 ** 9), "sim_seed": rnd.randrange(1, 10 ** 6), "routing": rnd.choice(["NONE", "NR", "NLNR"]),
                              "buffer_kb": rnd.choice([None, 1, 0])})
    # directed: 4 ranks, big set first, then one key (the scenario of the stale-file change), and the same on one rank with an empty set
    cases.append({"kind": "set", "nodes": 1, "ppn": 4, "n": 1, "flags": 128 | 8, "seed": 7, "sim_seed": 1})
    cases.append({"kind": "multiset", "nodes": 2, "ppn": 2, "n": 0, "flags": 128 | 1, "seed": 8, "sim_seed": 1})
    # two counting_sets of one type, both with un-flushed inserts at serialize and at deserialize, either registration order
    for rep in range(1 if tier == "quick" else 8):
        for order in (0, 4096):
            for (nodes, ppn) in (rnd.choice(LAYOUTS), rnd.choice(LAYOUTS[1:])):
                cases.append({"kind": "cset2", "nodes": nodes, "ppn": ppn, "n": rnd.choice([3, 12, 30]), "flags": order | rnd.choice([0, 8]) | rnd.choice([0, 32]),
                              "seed": rnd.randrange(1, 10 ** 9), "sim_seed": rnd.randrange(1, 10 ** 6), "routing": rnd.choice(["NONE", "NR", "NLNR"])})
    # dependent pairs of one issuer pending at serialize: every async its own MPI message (capacity 0), 8 posted receives
    for rep in range(1 if tier == "quick" else 6):
        for kind in ("set", "multiset", "map", "multimap", "mapcount", "mapd"):
            nodes, ppn = rnd.choice([(1, 2), (1, 3), (2, 2), (1, 4)])
            cases.append({"kind": kind, "nodes": nodes, "ppn": ppn, "n": 4, "flags": 8192 | rnd.choice([0, 1]), "seed": rnd.randrange(1, 10 ** 9),
                          "sim_seed": rnd.randrange(1, 10 ** 6), "routing": rnd.choice(["NONE", "NR", "NLNR"]), "buffer_kb": 0, "num_irecvs": 8,
                          "issend_freq": rnd.choice([0, 8]), "policy": rnd.choice(["uniform", "burst", "late"])})
    # strings with NUL bytes, kept apart so that their failures cannot mask anything else; first the minimal directed one
    cases.insert(0, {"kind": "set", "nodes": 1, "ppn": 1, "n": 2, "flags": 4 | 64, "seed": 1, "sim_seed": 1})
    for kind in (KINDS if tier != "quick" else ["map", "set", "bag"]):
        nodes, ppn = rnd.choice(LAYOUTS)
        cases.append({"kind": kind, "nodes": nodes, "ppn": ppn, "n": 12, "flags": 4 | rnd.choice([0, 1]), "seed": rnd.randrange(1, 10 ** 9),
                      "sim_seed": rnd.randrange(1, 10 ** 6)})
    return cases


def run_case(binary, case):
    return C.run_sim(binary, ["ser", case["kind"], case["seed"], case["n"], case["flags"]], nodes=case["nodes"], ppn=case["ppn"],
                     sim_seed=case.get("sim_seed", 1), policy=case.get("policy", "uniform"), want_log=False, timeout=180, env=env_of(case))


def parse_elem(kind, w):
    """-> (key bytes, value) ; value is bytes (maps), int (counts) or None"""
    if ":" in w:
        k, v = w.split(":", 1)
        if kind in ("cset", "mapcount"):
            return (unhex(k), int(v))
        return (unhex(k), unhex(v))
    return (unhex(w), None)


def show_elem(e):
    k, v = e
    if v is None:
        return hx(k)
    return hx(k) + ":" + (str(v) if isinstance(v, int) else hx(v))


def parse_run(kind, sr, ranks):
    per = []
    for r in range(ranks):
        d = {"ins": [], "a": [], "b": [], "m": [], "ms": [], "file": None, "extra": None, "cursor": None}
        for l in sr.outs.get(r, []):
            w = l.split(" ")
            if w[0] in ("ins", "a", "b", "m", "ms"):
                d[w[0]].append(parse_elem(kind, w[1]))
            elif w[0] == "file":
                d["file"] = unhex(w[1])
            elif w[0] == "extra":
                d["extra"] = w[1]
            elif w[0] == "names":
                d["names"] = [unhex(x) for x in w[1:]]
            elif w[0] == "nofile":
                d["nofile"] = True
            elif w[0] == "cursor-expected":
                d["cursor"] = int(w[1])
        per.append(d)
    return per


def expected_content(kind, per):
    """what the container must hold given every insert issued before serialize (pending ones included)"""
    allins = [e for d in per for e in d["ins"]]
    if kind in ("map", "mapcount", "mapd"):
        return collections.Counter(set(allins))                 # equal keys carry equal values by construction
    if kind == "set":
        return collections.Counter(set(allins))
    if kind == "cset":
        c = collections.Counter(k for (k, _) in allins)
        return collections.Counter({(k, n): 1 for k, n in c.items()})
    return collections.Counter(allins)                          # multimap, multiset, bag


def string_tokens(data):
    """raw string tokens of a JSON text in document order, member names skipped"""
    toks, i, n = [], 0, len(data)
    while i < n:
        if data[i] == 0x22:
            j = i + 1
            while j < n and data[j] != 0x22:
                j += 2 if data[j] == 0x5C else 1
            tok = data[i:j + 1]
            k = j + 1
            while k < n and data[k] in b" \t\r\n":
                k += 1
            if not (k < n and data[k] == 0x3A):
                toks.append(tok)
            i = j + 1
        else:
            i += 1
    return toks


def independent_parse(data):
    """the file read by Python's json (bytes <-> latin-1 code points, so every byte survives)"""
    doc = json.loads(data.decode("latin-1"))

    def b(s):
        return s.encode("latin-1")
    return doc, b


def truncate_nul(e, kind):
    k, v = e
    k2 = k.split(b"\0")[0] if kind in STRKEY else k
    v2 = v.split(b"\0")[0] if (isinstance(v, bytes) and kind in STRVAL) else v
    return (k2, v2)


def check_case(res, case, sr, model_ok):
    hkind, ranks = case["kind"], case["nodes"] * case["ppn"]
    kind = "cset" if hkind == "cset2" else hkind       # cset2: the two-counting-sets scenario, analysed like cset
    cs = dict(case)
    nul = bool(case["flags"] & 4)
    if sr.verdict != "ok":
        res.oracle_failures.append({"what": f"serialize/deserialize run did not finish: {sr.verdict}", "signature": "c20-run-" + sr.verdict.split(":")[0],
                                    "case": dict(cs, stderr=sr.stderr[-400:])})
        return
    per = parse_run(kind, sr, ranks)
    expect = expected_content(kind, per)
    got_a = collections.Counter(e for d in per for e in d["a"])
    got_b = collections.Counter(e for d in per for e in d["b"])
    feats = set()
    has_nul = any((kind in STRKEY and b"\0" in k) or (kind in STRVAL and isinstance(v, bytes) and b"\0" in v) for (k, v) in expect)

    # state of every rank's file right after serialize: ok / missing / unparsable
    fstat = {}
    for r, d in enumerate(per):
        if d["file"] is None:
            fstat[r] = "missing"
        else:
            try:
                independent_parse(d["file"])
                fstat[r] = "ok"
            except Exception:   # noqa: BLE001
                fstat[r] = "unparsable"
    badfiles = {r: st for r, st in fstat.items() if st != "ok"}
    stale_back = sorted(r for r, d in enumerate(per) if any(k.startswith(b"stale-") for (k, _) in d["b"]))

    def pending_survived():
        """is something the harness issued on the target right before deserialize among the surplus of the reloaded container?"""
        exp_keys = {k for (k, _) in expect}
        for (k, v) in (got_b - expect):
            if kind in STRKEY and (k.startswith(b"old-pending") or v == b"STALE-VALUE" or (isinstance(v, int) and k in exp_keys)
                                   or (kind == "mapd" and v == dbits(555.0))):
                return True
            if kind == "bagd" and 555.0 <= struct.unpack(">d", k)[0] < 2000.0 and struct.unpack(">d", k)[0] % 1 == 0:
                return True
            if kind == "bagpd" and k[:4] == struct.pack(">i", 555):
                return True
        return False

    def order_broken():
        return any(k.startswith(b"erased-") or (k.startswith(b"over-") and v in (b"first", 1, dbits(1.0))) for (k, v) in (got_b - expect))

    def fail(what, sig, **kw):
        if has_nul:
            # is the difference exactly the NUL truncation the model predicts?
            sig = "c20-nul-truncation" if nul_explains else sig + "-with-nul"
        elif (case["flags"] & 1024) and (sig.startswith("c20-reload") or sig == "c20-target-not-replaced") and pending_survived():
            sig = "c20-target-pending-survived"
            what += "; operations issued on the target right before deserialize (no barrier) are part of the reloaded container"
        elif (case["flags"] & 8192) and sig.startswith("c20-reload") and order_broken():
            sig = "c20-pending-order"
            what += "; an erased key / an overwritten first value of an (insert; erase) or (insert v1; insert v2) pair issued by one rank is in the image"
        elif stale_back and sig.startswith("c20-reload"):
            sig = "c20-stale-rank-file"
            what += f"; ranks {stale_back} reloaded keys of the container serialized to this prefix EARLIER (their file was not overwritten)"
        elif badfiles and sig.startswith("c20-reload"):
            sig += "-rank-file-" + sorted(set(badfiles.values()))[0]
        if badfiles:
            kw["rank_files"] = badfiles
        res.oracle_failures.append({"what": what, "signature": sig, "case": dict(cs, **kw)})

    # does "cut every string at its first NUL, then rebuild" explain the reloaded content?  (computed from the ORIGINAL dumps)
    nul_explains = False
    if has_nul:
        nul_explains = all(collections.Counter(truncate_nul(e, kind) for e in d["a"]) == collections.Counter(d["b"]) for d in per)

    # ---------------- oracle
    if got_a != expect:
        # the original itself is not what was inserted: C11-C15 territory, but the image cannot be right either
        fail("original container does not hold what was inserted before serialize", "c20-original-content",
             missing=[show_elem(e) for e in list((expect - got_a))[:3]], extra=[show_elem(e) for e in list((got_a - expect))[:3]])
    if got_b != expect:
        miss, extra = expect - got_b, got_b - expect
        fail(f"reloaded container differs from what was inserted ({sum(miss.values())} missing, {sum(extra.values())} extra)",
             "c20-reload-content",
             missing=[show_elem(e) for e in list(miss)[:3]], extra=[show_elem(e) for e in list(extra)[:3]])
    for r, d in enumerate(per):
        if got_b == expect and collections.Counter(d["a"]) != collections.Counter(d["b"]):
            fail(f"rank {r}: reloaded local content differs from the original's", "c20-reload-rank", rank=r,
                 a=[show_elem(e) for e in d["a"][:4]], b=[show_elem(e) for e in d["b"][:4]])
            break
    if any(k.startswith(b"old") for d in per for (k, _) in d["b"]) and not any(k.startswith(b"old") for (k, _) in expect):
        fail("the target's previous content survived deserialize", "c20-target-not-replaced")
    # extra member
    if kind in ("map", "multimap"):
        want = hx(DV) if case["flags"] & 16 else "-"
        for r, d in enumerate(per):
            if d["extra"] != want:
                fail(f"rank {r}: default value after reload {d['extra']} != {want}", "c20-default-value", rank=r)
                break
    if kind == "mapd":
        want = hx(dbits(0.1 if case["flags"] & 16 else 0.0))
        for r, d in enumerate(per):
            if d["extra"] != want:
                fail(f"rank {r}: default value after reload {d['extra']} != {want}", "c20-default-value", rank=r)
                break
    if kind == "bag":
        where = {}
        for r, d in enumerate(per):
            for (k, _) in d["m"]:
                if k.startswith(b"\x02marker"):
                    where[int(k[7:])] = r
        for q, d in enumerate(per):
            want = (d["cursor"] + q) % ranks
            if where.get(q) != want:
                fail(f"bag cursor not restored: item inserted by rank {q} after reload landed on {where.get(q)}, expected {want}", "c20-bag-cursor", rank=q)
                break
    if kind in ("cset", "mapcount"):
        dflt = 5 if (kind == "mapcount" and case["flags"] & 16) else 0
        marks = {k: v for d in per for (k, v) in d["m"] if k.startswith(b"\x02marker")}
        if len(marks) != ranks or any(v != dflt + 1 for v in marks.values()):
            fail(f"counting_set default count not restored / later inserts lost: fresh keys count {sorted(marks.values())}, expected {ranks} x {dflt + 1}",
                 "c20-default-count" if hkind != "cset2" else "c20-cset-cache-not-flushed")
    if hkind == "cset2":
        # the source must keep counting too: one insert per rank after everything
        marks = {k: v for d in per for (k, v) in d["ms"] if k.startswith(b"\x02marker")}
        late = {k: v for d in per for (k, v) in d["ms"] if k.startswith(b"\x03late")}
        if len(marks) != ranks or any(v != 1 for v in marks.values()) or len(late) != ranks or any(v != 1 for v in late.values()):
            fail(f"source counting_set lost inserts made after serialize: markers {sorted(marks.values())}, late {sorted(late.values())}, expected {ranks} x 1 each",
                 "c20-cset-cache-not-flushed")

    # ---------------- correspondence
    q_esc, q_load = [], []
    for r, d in enumerate(per):
        data = d["file"]
        if data is None:
            res.corr_failures.append({"relation": "serialize writes every rank's file (Ser.writeAll: one image per rank)", "what": f"rank {r} has no file after serialize",
                                      "case": dict(cs, rank=r)})
            continue
        # (K1) independent parse: field order and values
        try:
            doc, enc = independent_parse(data)
            names = list(doc.keys())
            items = doc["value0"]
            if kind == "bagd":
                parsed = [(dbits(x), None) for x in items]
            elif kind == "bagpd":
                parsed = [(struct.pack(">i", x["first"]) + dbits(x["second"]), None) for x in items]
            elif kind == "mapd":
                parsed = [(enc(x["key"]), dbits(x["value"])) for x in items]
            elif kind in ("set", "multiset", "bag"):
                parsed = [(enc(x), None) for x in items]
            elif kind in ("cset", "mapcount"):
                parsed = [(enc(x["key"]), int(x["value"])) for x in items]
            else:
                parsed = [(enc(x["key"]), enc(x["value"])) for x in items]
            size_field = doc[names[-1]]
            if parsed != d["a"]:
                res.corr_failures.append({"relation": "image.contents == local store in iteration order (independent parse of the file)",
                                          "what": f"rank {r}", "case": dict(cs, rank=r, file=[show_elem(e) for e in parsed[:4]], store=[show_elem(e) for e in d["a"][:4]])})
            if size_field != ranks:
                res.corr_failures.append({"relation": "image.commSize == comm.size() (last field)", "what": f"rank {r}: {size_field}", "case": dict(cs, rank=r)})
            want_fields = 2 if kind in ("set", "multiset") else 3
            if len(names) != want_fields:
                res.corr_failures.append({"relation": "image has (contents, [extra,] commSize)", "what": f"rank {r}: fields {names}", "case": dict(cs, rank=r)})
            elif want_fields == 3:
                ex = doc[names[1]]
                if kind in ("map", "multimap"):
                    okx = enc(ex) == (DV if case["flags"] & 16 else b"")
                elif kind in BAGS:
                    okx = ex == d["cursor"]
                elif kind == "mapd":
                    okx = dbits(ex) == dbits(0.1 if case["flags"] & 16 else 0.0)
                elif kind == "mapcount":
                    okx = ex == (5 if case["flags"] & 16 else 0)
                else:
                    okx = ex == 0
                if not okx:
                    res.corr_failures.append({"relation": "image.extra == default value / round-robin cursor", "what": f"rank {r}: {ex!r}", "case": dict(cs, rank=r)})
        except Exception as ex:   # noqa: BLE001
            res.corr_failures.append({"relation": "file is a JSON document", "what": f"rank {r}: {ex!r}"[:200], "case": dict(cs, rank=r, head=hx(data[:120]))})
            continue
        # (K2) raw tokens vs Ser.escape
        strs = []
        for (k, v) in d["a"]:
            if kind in STRKEY:
                strs.append(k)
            if kind in STRVAL:
                strs.append(v)
        if kind in ("map", "multimap"):
            strs.append(DV if case["flags"] & 16 else b"")
        toks = string_tokens(data)
        q_esc.append((r, strs, toks))
        for s in strs:
            if any(c < 0x20 or c in (0x22, 0x5C) for c in s):
                feats.add("escape")
            if any(c >= 0x7F for c in s):
                feats.add("non-ascii")
            if s == b"":
                feats.add("empty-string")
        if not d["a"]:
            feats.add("rank-owns-nothing")
        keys = [k for (k, _) in d["a"]]
        if len(keys) != len(set(keys)):
            feats.add("equal-key-run")
        if any(isinstance(v, int) and v >= 2 ** 63 for (_, v) in d["a"]):
            feats.add("count>=2^63")
    if model_ok and per and per[0].get("names") is not None:
        # the set of file names under the prefix == Ser.fileNames (prefix ++ decimal rank), plus what the harness planted itself
        pred = {unhex(x) for x in C.model("ser", ["fname %s %d" % (hx(b"img."), r) for r in range(ranks)])}
        planted = {b"img." + str(r).encode() for r in range(ranks, 2 * ranks + 1)} if case["flags"] & 256 else set()
        real = set(per[0]["names"])
        if not (pred <= real and real - pred <= planted):
            res.corr_failures.append({"relation": "names of the files written == Ser.fileNames prefix n (prefix ++ decimal rank, no padding)",
                                      "what": f"missing {sorted(pred - real)[:3]}, unexpected {sorted(real - pred - planted)[:3]}", "case": cs})
        if ranks >= 10:
            feats.add("two-digit-ranks")
    if model_ok:
        flat = [s for (_, strs, _) in q_esc for s in strs]
        esc = C.model("ser", ["esc " + hx(s) for s in flat]) if flat else []
        loads = C.model("ser", ["load " + e for e in esc]) if esc else []
        pos = 0
        loaded = {}
        for (r, strs, toks) in q_esc:
            mine = [unhex(x) for x in esc[pos:pos + len(strs)]]
            for s, l in zip(strs, loads[pos:pos + len(strs)]):
                loaded[s] = unhex(l) if l != "err" else None
            pos += len(strs)
            if mine != toks:
                i = next((i for i, (a, b) in enumerate(zip(mine, toks)) if a != b), min(len(mine), len(toks)))
                res.corr_failures.append({"relation": "string tokens of the file == Ser.escape of the stored strings, in order",
                                          "what": f"rank {r}: {len(toks)} tokens in file, {len(mine)} predicted, first difference at {i}",
                                          "case": dict(cs, rank=r, model=hx(mine[i]) if i < len(mine) else None, real=hx(toks[i]) if i < len(toks) else None)})
        # (K3) Ser.deserializeRank (Ser.serializeRank n c) old, with every string passed through Ser.cLoad, == reloaded state
        rq = []
        for r, d in enumerate(per):
            elems = []
            for (k, v) in d["a"]:
                lk = loaded.get(k, k) if kind in STRKEY else k
                lv = loaded.get(v, v) if kind in STRVAL else v
                elems.append(show_elem((lk if lk is not None else b"?", lv)))
            if kind in ("map", "multimap"):
                dv = DV if case["flags"] & 16 else b""
                extra = hx(loaded.get(dv, dv))
            elif kind in BAGS:
                extra = str(d["cursor"])
            elif kind == "mapd":
                extra = hx(dbits(0.1 if case["flags"] & 16 else 0.0))
            elif kind in ("cset", "mapcount"):
                extra = "5" if (kind == "mapcount" and case["flags"] & 16) else "0"
            else:
                extra = "unit"
            if case["flags"] & 128:   # reused prefix: through Ser.writeAll / Ser.readAll over a prefix full of stale images
                rq.append("rtfs %s %d %d %s %s" % (DISC[kind], ranks, r, extra, " ".join(elems)))
            else:
                rq.append("rt %s %d %s %s" % (DISC[kind], ranks, extra, " ".join(elems)))
        outs = C.model("ser", rq)
        for r, (d, o) in enumerate(zip(per, outs)):
            w = o.split()
            pred = w[2:]
            real = [show_elem(e) for e in d["b"]]
            if pred != real:
                res.corr_failures.append({"relation": "reloaded store (iteration order) == Ser.deserializeRank (Ser.serializeRank ..) / Ser.readAll (Ser.writeAll stale ..) with Ser.cLoad strings",
                                          "what": f"rank {r}", "case": dict(cs, rank=r, model=pred[:6], real=real[:6])})
            if kind in ("map", "multimap", "mapd") and d["extra"] != w[1]:
                res.corr_failures.append({"relation": "default value after reload == image.extra", "what": f"rank {r}: real {d['extra']}, model {w[1]}",
                                          "case": dict(cs, rank=r)})
    res.evaluations += 1
    res.traces_validated += ranks
    res.count(hkind)
    res.count("pending" if not (case["flags"] & 2) else "barrier-first")
    res.count("routing=%s" % case.get("routing", "NONE"))
    res.count("comm-buffer-kb=%s" % case.get("buffer_kb"))
    res.count("issend-freq=%s irecvs=%s isends-wait=%s" % (case.get("issend_freq"), case.get("num_irecvs"), case.get("isends_wait")))
    if case.get("placement") == "cyclic":
        res.count("placement=cyclic")
    res.count("target-prepopulated" if case["flags"] & 1 else "target-empty")
    res.count("ranks=%d" % ranks)
    if case["flags"] & 8192:
        res.count("dependent-pairs-pending")
        feats.add("dependent-pairs")
    if hkind == "cset2":
        feats.add("two-counting-sets" + ("+source-first" if case["flags"] & 4096 else "+target-first"))
    if case["flags"] & 1024:
        res.count("target-has-pending-ops")
        feats.add("target-pending")
    if kind in ("bagd", "bagpd", "mapd") and any(per[r]["a"] for r in range(ranks)):
        feats.add("floating-point")
    if case["flags"] & 128:
        res.count("reused-prefix")
        feats.add("reused-prefix" + ("+planted-higher-ranks" if case["flags"] & 256 else "") + ("+tiny-first" if case["flags"] & 512 else ""))
        if not expect:
            feats.add("empty-after-nonempty")
    for f in feats:
        res.count(f)
    if feats:
        res.distinct.add((kind, case["nodes"], case["ppn"], case.get("routing"), case["flags"], tuple(sorted(feats))))
    if ranks == 4 and kind == "multimap" and "equal-key-run" in feats:
        res.sample({"kind": kind, "layout": f"{case['nodes']}x{case['ppn']}", "flags": case["flags"], "rank0_original": [show_elem(e) for e in per[0]["a"][:5]],
                    "rank0_reloaded": [show_elem(e) for e in per[0]["b"][:5]]})


# ------------------------------------------------------------------ reader tokens

def gen_tokens(rnd, n):
    toks = []
    hexd = "0123456789abcdefABCDEF"
    for _ in range(n):
        body = bytearray()
        for _ in range(rnd.randrange(0, 9)):
            c = rnd.randrange(12)
            if c < 4:
                body.append(rnd.choice([x for x in range(0x20, 0x100) if x not in (0x22, 0x5C)]))
            elif c == 4:
                body += b"\\" + bytes([rnd.choice(b'"\\/bfnrt')])
            elif c in (5, 6):
                body += b"\\u" + "".join(rnd.choice(hexd) for _ in range(4)).encode()
            elif c == 7:
                body += b"\\u00" + "".join(rnd.choice(hexd) for _ in range(2)).encode()
            elif c == 8:   # surrogates: valid pair, lone high, lone low, high + non-low
                hi = "d%s%s%s" % (rnd.choice("89abAB"), rnd.choice(hexd), rnd.choice(hexd))
                lo = "d%s%s%s" % (rnd.choice("cdefCDEF"), rnd.choice(hexd), rnd.choice(hexd))
                body += rnd.choice([b"\\u" + hi.encode() + b"\\u" + lo.encode(), b"\\u" + hi.encode(), b"\\u" + lo.encode(),
                                    b"\\u" + hi.encode() + b"\\u0041", b"\\u" + hi.encode() + b"xx"])
            elif c == 9:   # malformed
                body += rnd.choice([b"\\x", b"\\u12G4", b"\\u12", bytes([rnd.randrange(1, 0x20)]), b"\\"])
            elif c == 10:
                body += b"\\u0000"
            else:
                body += rnd.choice([b"a", b"/", b"\x7f", b"\xc3\xa9", b"\xff"])
        tok = b'"' + bytes(body) + b'"'
        if rnd.random() < 0.05:
            tok = tok[:-1]
        toks.append(tok)
    return toks


def check_tokens(res, binary, seed, tier, model_ok):
    rnd = random.Random(seed * 32452843 + 5)
    n = 400 if tier == "quick" else 4000
    toks = gen_tokens(rnd, n)
    chunks = [toks[i:i + 200] for i in range(0, len(toks), 200)]

    def do(ch):
        return ch, C.run_sim(binary, ["tok"] + [hx(t) for t in ch], nodes=1, ppn=1, want_log=False, timeout=60)
    for ch, sr in C.pmap(do, chunks):
        if sr.verdict != "ok":
            res.corr_failures.append({"relation": "token reader run", "what": sr.verdict, "case": {"stderr": sr.stderr[-300:]}})
            continue
        real = sr.outs.get(0, [])
        if not model_ok:
            continue
        pred = C.model("ser", ["load " + hx(t) for t in ch])
        for t, a, b in zip(ch, real, pred):
            ra = a.split()[1] if a.startswith("ok") else "err"
            if ra != b:
                res.corr_failures.append({"relation": "cereal JSONInputArchive string load == Ser.cLoad", "what": f"token {t!r}: real {ra}, model {b}",
                                          "case": {"token": hx(t)}})
            res.evaluations += 1
            res.count("reader-token-ok" if ra != "err" else "reader-token-err")
    res.distinct.add(("reader-tokens", n))


def observe_leak(res, binary, seed, tier):
    """Not a clause of the property: serialize has no barrier after the write, so an insert issued by a rank that has
    already returned from serialize may still be applied by a rank that is slower to leave the leading barrier and end up
    in that rank's image.  Recorded in the evidence notes; never a failure."""
    n = 20 if tier == "quick" else 200

    def do(ss):
        return C.run_sim(binary, ["leak"], nodes=1, ppn=3, sim_seed=seed * 1000 + ss, env={"YGM_COMM_BUFFER_SIZE_KB": 0}, want_log=False, timeout=60)
    hits = sum(1 for sr in C.pmap(do, list(range(n))) if sr.verdict == "ok" and any(o and o[0].endswith("1") for o in sr.outs.values()))
    res.notes.append(f"observation (outside the property): an insert issued after the issuing rank returned from serialize() reached another "
                     f"rank's image in {hits}/{n} schedules (1x3, capacity 0) - the image is a consistent snapshot only if nothing is issued "
                     f"before every rank has left serialize")
    res.count("leak-observed", hits)


def run(tier, seed, model_ok=True):
    res = C.Result()
    res.rule = RULE
    res.assumptions = ["cereal's JSON document structure, number formatting and std::fstream are trusted (files re-read by an independent parser)",
                       "std::less<std::string> = bytesLt (parameter; compared through the iteration order of the real stores)",
                       "same communicator size for serialize and deserialize; nothing is issued between serialize and the next barrier",
                       "C02: the barrier at the head of serialize has delivered every pending operation (hypothesis of includes_pending)"]
    binary, err = C.build_harness("outser")
    if binary is None:
        res.corr_failures.append({"relation": "harness builds against /repo", "what": err[-800:], "case": None})
        return res
    if not model_ok:
        res.corr_failures.append({"relation": "model driver available", "what": "Lean library does not build", "case": None})
    cases = rotate_env(gen_cases(tier, seed))
    for c, sr in C.pmap(lambda c: (c, run_case(binary, c)), cases):
        check_case(res, c, sr, model_ok)
    check_tokens(res, binary, seed, tier, model_ok)
    observe_leak(res, binary, seed, tier)
    from lib import swaprace
    for kind in ("ser", "deser", "deserset", "deserbag"):     # operations issued right after serialize() / deserialize() returned
        swaprace.run(res, kind, tier, seed)
    return res


def replay(data):
    """re-run the recorded case; True when the failure does NOT reproduce"""
    if (data.get("case") or {}).get("harness") == "swaprace":
        from lib import swaprace
        return swaprace.replay(data)
    case = data.get("case") or {}
    if "kind" not in case or "n" not in case:
        print("replay: nothing executable recorded:", data.get("no_longer_checks") or data.get("what"))
        return False
    binary, err = C.build_harness("outser")
    if binary is None:
        print(err[-500:])
        return False
    keep = {k: case[k] for k in ("kind", "nodes", "ppn", "n", "flags", "seed", "sim_seed") + ENV_KEYS if k in case}
    sr = run_case(binary, keep)
    res = C.Result()
    check_case(res, keep, sr, True)
    print("verdict", sr.verdict, "oracle failures", len(res.oracle_failures), "correspondence failures", len(res.corr_failures))
    for f in (res.oracle_failures + res.corr_failures)[:5]:
        print(" ", f.get("what"), "|", f.get("signature", f.get("relation")))
        for k in ("missing", "extra", "a", "b"):
            if f.get("case", {}).get(k):
                print("     ", k, f["case"][k])
    return not res.oracle_failures and not res.corr_failures
