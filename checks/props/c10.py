"""C10 — each key/index has exactly one owner; array blocks partition the index range.
Tie: exhaustive table comparison (array lengths x communicator sizes, every rank as the
computing rank, every index) between the real array/map/set/disjoint_set code under simmpi
and YgmVerif.Part run by the Lean driver; direct oracle = the property's own clauses."""
from lib import common as C

META = {
    "claimed": True,
    "technique": "Lean 4 proof (div/mod arithmetic, all lengths and rank counts) + exhaustive table correspondence with the real array/hash-partitioner code",
    "text": "Theorems owner_spec/owner_unique/start_succ/start_ranks/sizes_differ_le_one/indicesOf_* over YgmVerif.Part prove, for every length and every "
            "positive rank count, that the block arithmetic of array.ipp yields exactly one in-range owner per index and contiguous, disjoint, covering, "
            "balanced blocks (no division by zero). The model is tied to the code by an exhaustive comparison (every rank, every index) over a box of "
            "lengths x communicator sizes run on the real headers under simmpi, plus hash owners of generated keys through map/set.",
    "note": "Trusted: Lean kernel + propext/Classical.choice/Quot.sound; the hand-written model Part.lean is tied to array.ipp only on the enumerated box "
            "(quick 0..40 x 1..8, thorough 0..200 x 1..16); std::hash is a parameter; 'stored only on owner' is composed from C01 (delivery to dest) and "
            "is exercised, not proved, here.",
}

RULE = ("exhaustive: for every communicator size R and every array length L in the tier's box, every rank "
        "evaluates owner(i)/is_mine(i) for all i and lists its for_all indices; a case = (R, L); non-trivial = "
        "L > 0; hash owners: generated int64/string/double keys through map/set/disjoint_set on every rank; key equivalence: every "
        "representation of one key (+0.0 / -0.0, a struct field outside the identity, padding bytes) has one owner, 1..8 ranks")


def factor_layout(r):
    # vary the node layout a little: composite sizes run as 2 x r/2
    return (2, r // 2) if r % 2 == 0 and r > 2 else (1, r)


def run_array_job(binary, ranks, lens):
    nodes, ppn = factor_layout(ranks)
    return C.run_sim(binary, ["array", ",".join(map(str, lens))], nodes=nodes, ppn=ppn, want_log=False, timeout=300)


def parse_rank(lines):
    d = {"begin": [], "owners": {}, "mine": {}, "forall": {}, "size": {}}
    for l in lines:
        w = l.split()
        if not w:
            continue
        if w[0] == "begin":
            d["begin"].append(int(w[1]))
        else:
            d[w[0]][int(w[1])] = [int(x) for x in w[2:]]
    return d


def check_case(res, ranks, L, per_rank, mtable):
    """per_rank: {rank: parsed}; mtable: (owners, starts, sizes) from the model"""
    case = {"ranks": ranks, "len": L}
    mo, ms, mz = mtable
    ok = True
    all_idx = []
    owners0 = per_rank[0]["owners"].get(L)
    for r in range(ranks):
        pr = per_rank[r]
        ow = pr["owners"].get(L)
        if ow is None:
            continue
        # ---- oracle: the property's own clauses on the real outputs
        if any(o < 0 or o >= ranks for o in ow):
            res.oracle_failures.append({"what": f"owner out of [0,{ranks}) on rank {r}", "signature": "array-owner-range", "case": dict(case, rank=r, owners=ow)}); ok = False
        if ow != owners0:
            res.oracle_failures.append({"what": f"ranks 0 and {r} disagree on owners", "signature": "array-owner-disagree", "case": dict(case, rank=r)}); ok = False
        mine = pr["mine"].get(L, [])
        if mine != [i for i in range(L) if ow[i] == r]:
            res.oracle_failures.append({"what": "is_mine inconsistent with owner", "signature": "array-is-mine", "case": dict(case, rank=r)}); ok = False
        fa = pr["forall"].get(L, [])
        if any(i >= L or ow[i] != r for i in fa):
            res.oracle_failures.append({"what": f"for_all on rank {r} presents an index it does not own", "signature": "array-forall-foreign", "case": dict(case, rank=r, forall=fa)}); ok = False
        if fa and fa != list(range(fa[0], fa[0] + len(fa))):
            res.oracle_failures.append({"what": "block not contiguous", "signature": "array-noncontiguous", "case": dict(case, rank=r, forall=fa)}); ok = False
        all_idx += fa
        # ---- correspondence with the model
        if model_differs(ow, mo):
            res.corr_failures.append({"relation": "Part.owner == array::owner", "what": f"owner table differs on rank {r}", "case": dict(case, real=ow, model=mo)}); ok = False
        mf = list(range(ms[r], ms[r] + mz[r]))
        if fa != mf:
            res.corr_failures.append({"relation": "Part.indicesOf == array::for_all indices", "what": f"block of rank {r} differs", "case": dict(case, real=fa, model=mf)}); ok = False
    if sorted(all_idx) != list(range(L)):
        res.oracle_failures.append({"what": "for_all indices over all ranks are not [0,len) exactly once", "signature": "array-cover", "case": dict(case, seen=sorted(all_idx))}); ok = False
    sizes = [len(per_rank[r]["forall"].get(L, [])) for r in range(ranks)]
    if sizes and max(sizes) - min(sizes) > 1:
        res.oracle_failures.append({"what": "block sizes differ by more than one", "signature": "array-balance", "case": dict(case, sizes=sizes)}); ok = False
    return ok


def model_differs(real, model_owners):
    return [str(x) for x in real] != model_owners


def model_tables(pairs):
    lines = [f"table {L} {R}" for (R, L) in pairs]
    out = C.model("part", lines)
    tabs = {}
    for (R, L), o in zip(pairs, out):
        parts = [p.strip().split() for p in o.split("|")]
        tabs[(R, L)] = (parts[0][1:], [int(x) for x in parts[1][1:]], [int(x) for x in parts[2][1:]])
    return tabs


KEYEQ_KINDS = {"d": "double (+0.0 / -0.0)", "v": "struct {id; tag} compared and hashed by id only", "p": "struct {uint8; uint64} with garbage in its padding bytes"}


def run_keyeq_job(binary, R, seed):
    nodes, ppn = factor_layout(R)
    return C.run_sim(binary, ["keyeq", seed], nodes=nodes, ppn=ppn, want_log=False, timeout=300)


def judge_keyeq(res, R, seed, sr):
    """keys that compare equal are ONE key: every representation of a key (+0.0 / -0.0; a struct field that is not part of
    the identity; padding bytes) must have the same owner, through map and set, on every rank"""
    res.evaluations += 1
    case = {"ranks": R, "mode": "keyeq", "seed": seed}
    if sr.verdict != "ok":
        res.oracle_failures.append({"what": f"key-equivalence harness failed: {sr.verdict} {sr.stderr[-200:]}", "signature": "keyeq-run-failed", "case": case})
        return
    owners = {}
    for r in range(R):
        for l in sr.outs.get(r, []):
            w = l.split()
            if w and w[0] == "eq":
                owners.setdefault((w[1], w[2]), []).append((r, [int(x) for x in w[3:]]))
            elif l == "padlost":
                res.corr_failures.append({"relation": "keyeq harness builds keys with garbage in the padding bytes", "what": "padding bytes were reset", "case": case})
                return
    if not owners or any(len(v) != R for v in owners.values()):
        res.corr_failures.append({"relation": "keyeq harness reports every key on every rank", "what": f"{len(owners)} keys", "case": case})
        return
    bad_kinds = set()
    for (kind, key), per_rank in sorted(owners.items()):
        allo = sorted(set(o for (_, os_) in per_rank for o in os_))
        res.count("keyeq-representations", sum(len(os_) for (_, os_) in per_rank))
        if any(o < 0 or o >= R for o in allo):
            res.oracle_failures.append({"what": f"owner out of [0,{R}) for a {KEYEQ_KINDS[kind]} key", "signature": "hash-owner-range", "case": dict(case, kind=kind, key=key, owners=allo)})
        if len(allo) != 1 and kind not in bad_kinds:
            bad_kinds.add(kind)
            res.oracle_failures.append({"what": f"k1 == k2 but owner(k1) != owner(k2): key {key} of type {KEYEQ_KINDS[kind]} has owners {allo} on {R} ranks "
                                                f"depending on its representation (rank 0 computed {per_rank[0][1]})",
                                        "signature": "owner-not-function-of-key-equivalence", "case": dict(case, kind=kind, key=key, owners=allo)})
    if R > 1:
        res.distinct.add(("keyeq", R))


def run(tier, seed, model_ok=True):
    res = C.Result()
    res.rule = RULE
    res.assumptions = ["std::hash of libstdc++ is a parameter (its values are read from the real run)",
                       "communicator sizes beyond the tier's box are covered by the theorems only"]
    binary, err = C.build_harness("part")
    if binary is None:
        res.corr_failures.append({"relation": "harness builds against /repo", "what": err[-800:], "case": None})
        return res
    maxr, maxl = (8, 40) if tier == "quick" else (16, 200)
    chunk = 41 if tier == "quick" else 67
    jobs = []
    for R in range(1, maxr + 1):
        lens = list(range(0, maxl + 1))
        for i in range(0, len(lens), chunk):
            jobs.append((R, lens[i:i + chunk]))
    pairs = [(R, L) for (R, lens) in jobs for L in lens]
    tabs = model_tables(pairs) if model_ok else {}
    if not model_ok:
        res.corr_failures.append({"relation": "model driver available", "what": "Lean library does not build", "case": None})

    def do(job):
        R, lens = job
        done = {}      # L -> per-rank parsed
        traps = []
        todo = list(lens)
        guard = 0
        while todo and guard < len(lens) + 2:
            guard += 1
            sr = run_array_job(binary, R, todo)
            per_rank = {r: parse_rank(sr.outs.get(r, [])) for r in range(R)}
            finished = [L for L in todo if all(L in per_rank[r]["forall"] for r in range(R))]
            for L in finished:
                done[L] = per_rank
            if sr.verdict == "ok":
                break
            # first length that some rank began but did not finish
            bad = next((L for L in todo if L not in finished), None)
            if bad is None:
                traps.append((None, sr.verdict, sr.stderr[-300:]))
                break
            traps.append((bad, sr.verdict, sr.stderr[-300:]))
            todo = [L for L in todo if L not in finished and L != bad]
        return R, done, traps

    for R, done, traps in C.pmap(do, jobs):
        for (bad, verdict, err) in traps:
            sig = "array-owner-trap len<ranks" if (bad is not None and 0 < bad < R) else "array-owner-trap"
            res.oracle_failures.append({"what": f"real code failed ({verdict}) on array length {bad} with {R} ranks", "signature": sig,
                                        "case": {"ranks": R, "len": bad, "verdict": verdict, "stderr": err}})
            res.count("trap")
        for L, per_rank in done.items():
            res.evaluations += 1
            if L > 0:
                res.distinct.add((R, L))
            res.count("len<ranks" if L < R else ("divisible" if L % R == 0 else "uneven"))
            if model_ok:
                check_case(res, R, L, per_rank, tabs[(R, L)])
            if R == 4 and L == 10:
                res.sample({"ranks": R, "len": L, "owners": per_rank[0]["owners"].get(L), "for_all_by_rank": [per_rank[r]["forall"].get(L) for r in range(R)]})
    res.exhaustive = True
    res.traces_validated = res.evaluations

    # ---- explicit resize: array(a) then resize(b) must give the layout of a fresh array(b)
    def dor(R):
        pairs = [(a0, b0) for a0 in (0, 1, R - 1, R, R + 1, 2 * R + 1, 13) for b0 in (0, 1, R - 1, R + 1, 2 * R - 1, 10, 17) if a0 >= 0 and b0 >= 0]
        nodes, ppn = factor_layout(R)
        sr = C.run_sim(binary, ["resize", ",".join(str(p[0]) for p in pairs), ",".join(str(p[1]) for p in pairs)], nodes=nodes, ppn=ppn, want_log=False, timeout=300)
        return R, pairs, sr

    rsizes = [1, 2, 3, 4, 5, 8] if tier == "quick" else list(range(1, 13))
    for R, pairs, sr in C.pmap(dor, rsizes):
        per_rank = {r: parse_rank(sr.outs.get(r, [])) for r in range(R)}
        mt = model_tables([(R, b0) for (_, b0) in pairs]) if model_ok else {}
        for k, (a0, b0) in enumerate(pairs):
            res.evaluations += 1
            done = all(k in per_rank[r]["forall"] for r in range(R))
            if not done:
                res.oracle_failures.append({"what": f"array({a0}) then resize({b0}) on {R} ranks did not complete: {sr.verdict} {sr.stderr[-200:]}",
                                            "signature": "array-resize-run-failed", "case": {"ranks": R, "len": b0, "from": a0, "mode": "resize"}})
                break
            # re-key the parsed lines by length so that check_case can be reused
            pr = {r: {"owners": {b0: per_rank[r]["owners"].get(k)}, "mine": {b0: per_rank[r]["mine"].get(k, [])}, "forall": {b0: per_rank[r]["forall"].get(k, [])}} for r in range(R)}
            n0 = len(res.oracle_failures)
            if model_ok:
                check_case(res, R, b0, pr, mt[(R, b0)])
            for f in res.oracle_failures[n0:]:
                f["signature"] = "array-resize " + f["signature"]
                f["case"]["from"] = a0
            if a0 % R != b0 % R:
                res.distinct.add(("resize", R, a0, b0))
            res.count("resize-cases")

    # ---- stored only on the owner
    def stored_env(j):
        env = {"YGM_COMM_ROUTING": j["routing"]}
        if j["kb"] is not None:
            env["YGM_COMM_BUFFER_SIZE_KB"] = j["kb"]
        if j["placement"]:
            env["SIMMPI_PLACEMENT"] = j["placement"]
        return env

    def dos(j):
        nodes, ppn = factor_layout(j["R"])
        return j, C.run_sim(binary, ["stored", 120 if tier == "quick" else 600, seed], nodes=nodes, ppn=ppn, env=stored_env(j), want_log=False, timeout=300)

    # routing schemes with forwarding hops, tiny buffers and round-robin placement of ranks on nodes: the process that EXECUTES an
    # operation must be the owner in the communicator's own rank numbering, whatever route the message took
    VARIANTS = [("NONE", None, None), ("NLNR", None, 0), ("NR", "cyclic", 1), ("NLNR", "cyclic", None), ("NR", None, None), ("NONE", "cyclic", 0)]
    sjobs = []
    for R in ([1, 2, 3, 4, 6] if tier == "quick" else list(range(1, 10))):
        for vi, (rt, pl, kb) in enumerate(VARIANTS):
            if tier == "quick" and R < 4 and vi not in (0, (R + seed) % len(VARIANTS)):
                continue
            if R < 4 and pl:
                continue
            sjobs.append({"R": R, "routing": rt, "placement": pl, "kb": kb})
    for j, sr in C.pmap(dos, sjobs):
        R = j["R"]
        res.evaluations += 1
        if sr.verdict != "ok":
            res.oracle_failures.append({"what": f"stored-on-owner harness failed: {sr.verdict} {sr.stderr[-200:]}", "signature": "stored-run-failed", "case": dict(j, ranks=R, mode="stored")})
            continue
        seen = {"map": {}, "set": {}, "dset": {}}
        sizes = None
        for r in range(R):
            for line in sr.outs.get(r, []):
                w = line.split()
                if w[0] == "sizes":
                    sizes = [int(x) for x in w[1:]]
                    continue
                for tok in w[1:]:
                    key, own = tok.rsplit(":", 1)
                    if int(own) != r:
                        res.oracle_failures.append({"what": f"{w[0]}: key {key} is stored on rank {r} but its owner is rank {own}", "signature": "stored-off-owner " + w[0], "case": dict(j, ranks=R, mode="stored", key=key)})
                    seen[w[0]][key] = seen[w[0]].get(key, 0) + 1
        for name, i in (("map", 0), ("set", 1), ("dset", 2)):
            dup = [k for k, c in seen[name].items() if c > 1]
            if dup:
                res.oracle_failures.append({"what": f"{name}: key {dup[0]} is presented by for_all {seen[name][dup[0]]} times across the communicator", "signature": "stored-twice " + name, "case": dict(j, ranks=R, mode="stored", key=dup[0])})
            if sizes and sizes[i] != len(seen[name]):
                res.oracle_failures.append({"what": f"{name}: size() = {sizes[i]} but {len(seen[name])} distinct keys are stored", "signature": "stored-size " + name, "case": dict(j, ranks=R, mode="stored")})
        res.distinct.add(("stored", R, j["routing"], j["placement"], j["kb"]))
        res.count("stored-keys", sum(len(v) for v in seen.values()))

    # ---- two communicators of different size in one process
    def dot(R):
        nodes, ppn = factor_layout(R)
        return R, C.run_sim(binary, ["twocomm", 60 if tier == "quick" else 300, seed], nodes=nodes, ppn=ppn, want_log=False, timeout=300)

    for R, sr in C.pmap(dot, [3, 4, 5] if tier == "quick" else [3, 4, 5, 6, 7, 8]):
        res.evaluations += 1
        case = {"ranks": R, "mode": "twocomm"}
        if sr.verdict != "ok":
            res.oracle_failures.append({"what": f"two-communicator harness failed: {sr.verdict} {sr.stderr[-200:]}", "signature": "twocomm-run-failed", "case": case})
            continue
        seen_any = False
        for r in range(R):
            lines = sr.outs.get(r, [])
            for line in lines:
                w = line.split()
                if w[0] == "owners":
                    for tok in w[1:]:
                        h, ow, os_, ow2, ssz = [int(x) for x in tok.split(":")]
                        if ow != h % R or ow2 != h % R or os_ != h % ssz:
                            res.oracle_failures.append({"what": f"rank {r}: owner of a key differs from hash % size of ITS communicator (world {ow}/{ow2} want {h % R}; sub {os_} want {h % ssz})",
                                                        "signature": "owner-depends-on-other-communicator", "case": case})
                            break
                elif w[0] == "mapr":
                    mpirank, ygmrank = int(line.split("|")[1].split()[0]), int(line.split("|")[1].split()[1])
                    if mpirank != ygmrank:
                        res.oracle_failures.append({"what": f"ygm::comm on a rank-permuted communicator reports rank {ygmrank}, the MPI rank in that communicator is {mpirank}", "signature": "rank-differs-from-mpi-rank", "case": case})
                    for tok in line.split("|")[0].split()[1:]:
                        key, own = tok.rsplit(":", 1)
                        seen_any = True
                        if int(own) != mpirank:
                            res.oracle_failures.append({"what": f"mapr: key {key} stored on MPI rank {mpirank} of the permuted communicator, owner is {own}", "signature": "stored-off-owner twocomm", "case": case})
                elif w[0] in ("mapw", "maps"):
                    toks = line.split("|")[0].split()[1:]
                    myrank = r if w[0] == "mapw" else int(line.split("|")[1].split()[0])
                    for tok in toks:
                        key, own = tok.rsplit(":", 1)
                        seen_any = True
                        if int(own) != myrank:
                            res.oracle_failures.append({"what": f"{w[0]}: key {key} stored on rank {myrank} of its communicator, owner is {own}", "signature": "stored-off-owner twocomm", "case": case})
        if seen_any:
            res.distinct.add(("twocomm", R))

    # ---- owner is a function of the key as Compare / operator== see it, not of its object bytes
    for R, sr in C.pmap(lambda R: (R, run_keyeq_job(binary, R, seed)), list(range(1, 9)) if tier == "quick" else list(range(1, 17))):
        judge_keyeq(res, R, seed, sr)

    # ---- hash owners
    nkeys = 1500 if tier == "quick" else 10000
    sizes = [1, 2, 3, 4, 5, 7, 8] if tier == "quick" else list(range(1, 17))

    def doh(R):
        nodes, ppn = factor_layout(R)
        return R, C.run_sim(binary, ["hash", nkeys, seed], nodes=nodes, ppn=ppn, want_log=False, timeout=300)

    for R, sr in C.pmap(doh, sizes):
        res.evaluations += 1
        if sr.verdict != "ok":
            res.oracle_failures.append({"what": f"hash harness failed: {sr.verdict}", "signature": "hash-run-failed", "case": {"ranks": R, "stderr": sr.stderr[-300:]}})
            continue
        zl = [l for r in range(R) for l in sr.outs.get(r, []) if l.startswith("zeros ")]
        for l in zl:
            w = l.split()[1:]
            if len(set(w)) != 1:
                res.oracle_failures.append({"what": f"+0.0 and -0.0 compare equal but have different owners ({w}) on {R} ranks", "signature": "equal-keys-different-owner",
                                            "case": {"ranks": R, "mode": "hash"}})
                break
        lines = [next((l for l in sr.outs.get(r, []) if l.startswith("hash")), "") for r in range(R)]
        if len(set(lines)) != 1:
            res.oracle_failures.append({"what": "ranks disagree on hash owners", "signature": "hash-owner-disagree", "case": {"ranks": R}})
            continue
        toks = lines[0].split()[1:]
        q = []
        for t in toks:
            f = t.split(":")
            h, owners = int(f[0]), [int(x) for x in f[1:]]
            if any(o < 0 or o >= R for o in owners) or len(set(owners)) != 1:
                res.oracle_failures.append({"what": "hash owner out of range or differs between container kinds", "signature": "hash-owner-range", "case": {"ranks": R, "hash": h, "owners": owners}})
            q.append((h, owners[0]))
        res.distinct.add(("hash", R))
        res.count("hash-keys", len(q))
        if model_ok:
            mo = C.model("part", [f"hash {h} {R}" for h, _ in q])
            bad = [(h, o, m) for (h, o), m in zip(q, mo) if str(o) != m]
            if bad:
                res.corr_failures.append({"relation": "Part.hashOwner == hash_partitioner", "what": f"{len(bad)} keys differ", "case": {"ranks": R, "first": bad[0]}})
        if R == 4:
            res.sample({"ranks": R, "hash_owner_pairs": q[:4]})
    return res


def replay(data):
    """re-run the recorded (ranks, len); returns True when the failure does NOT reproduce"""
    case = data.get("case") or {}
    binary, err = C.build_harness("part")
    R, L = case.get("ranks"), case.get("len", 0)
    if binary is None or R is None:
        print("replay: nothing executable recorded:", data.get("no_longer_checks"))
        return False
    if case.get("mode") == "resize":
        nodes, ppn = factor_layout(R)
        sr = C.run_sim(binary, ["resize", str(case.get("from", 0)), str(L)], nodes=nodes, ppn=ppn, want_log=False)
    elif case.get("mode") == "twocomm":
        nodes, ppn = factor_layout(R)
        sr = C.run_sim(binary, ["twocomm", 60, data.get("seed", 1)], nodes=nodes, ppn=ppn, want_log=False)
    elif case.get("mode") == "keyeq":
        res = C.Result()
        sr = run_keyeq_job(binary, R, case.get("seed", data.get("seed", 1)))
        judge_keyeq(res, R, case.get("seed", 1), sr)
        for f in res.oracle_failures + res.corr_failures:
            print(f.get("signature") or f.get("relation"), f["what"][:300])
        return not (res.oracle_failures or res.corr_failures)
    elif case.get("mode") == "stored":
        nodes, ppn = factor_layout(R)
        env = {"YGM_COMM_ROUTING": case.get("routing", "NONE")}
        if case.get("kb") is not None:
            env["YGM_COMM_BUFFER_SIZE_KB"] = case["kb"]
        if case.get("placement"):
            env["SIMMPI_PLACEMENT"] = case["placement"]
        sr = C.run_sim(binary, ["stored", 120, data.get("seed", 1)], nodes=nodes, ppn=ppn, env=env, want_log=False)
    else:
        sr = run_array_job(binary, R, [L])
    print("verdict", sr.verdict, sr.stderr[-300:])
    for r in range(R):
        print(r, sr.outs.get(r))
    return sr.verdict == "ok"
