"""C01 — every async executes exactly once, on its destination, with its arguments.
Theorems: YgmVerif.Deliver (ledger, exec_at_dest, exactly_once, drain_bounded); acceptor mode `deliver`."""
from lib import common as C
from lib import traffic as T
from lib import campaign as K

META = {
    "claimed": True,
    "technique": "Lean 4 invariant proofs over a labelled message-movement model (buffers, wire FIFOs, walks, forwarding by Router.nextHop) + trace acceptance of real runs under simmpi",
    "text": "Theorems C01_entries_are_the_asyncs / C01_exec_at_dest / C01_at_most_once / C01_exactly_once / C01_drain_bounded(_router) and the liveness half C01_never_stuck / C01_maximal_run_settled / C01_every_drain_settles(_router/_routerP) over YgmVerif.Deliver (and C02C01_exit_implies_all_executed over the product with the barrier model) prove for every layout, routing function and every label sequence "
            "accepted by the model's step that no message is lost, duplicated or executed off its destination and that no message circulates for ever. Event histories of "
            "real runs (asyncs, physical sends with their message lists, receives, executions, forwards) over layouts x routings x capacities x MPI configs x policies are "
            "replayed through that step (the hop chosen for every message, the content of every physical buffer and FIFO delivery must match); the property itself "
            "(each uid executed exactly once on its destination with the regenerated payload) is evaluated on every run.",
    "note": "Trusted: Lean kernel + standard axioms; the model is tied to comm.ipp on the explored runs only; schedules sampled by seeded policies; payload integrity for "
            "arbitrary C++ types rests on C06's model of the cereal archive; message DAGs are finite and generated.",
}

WANT = ("delivery", "barrier", "atomic")


def cases(tier, seed):
    rng = T.Rng(seed * 1000003 + 1)
    out = []
    layouts = T.LAYOUTS_QUICK if tier == "quick" else [(N, P) for N in range(1, 7) for P in range(1, 7) if N * P <= 24]
    reps = 3 if tier == "quick" else 12
    for _ in range(reps):
        for (N, P) in layouts:
            for routing in T.ROUTINGS:
                for kb in (0, 1, None):
                    sc = T.gen_scenario(rng, N * P, epochs=2, ops_per_rank=rng.choice([3, 6]), ttl=2, maxfan=2, hprog=15, hcb=5, hbc=5,
                                        p_bcast=8, p_mcast=6, sizes=(0, 8, 100, 600, 1500, 40000),
                                        fstate=1 if rng.below(3) == 0 else 0, subcomm=1 if rng.below(4) == 0 else 0,
                                        other=rng.choice([0, 0, 0, 50]))
                    out.append((sc, T.Config(N, P, routing, kb, irecvs=rng.choice([1, 2, 8]), isends_wait=rng.choice([0, 1, 4]),
                                             issend=rng.choice([0, 1, 8]), policy=rng.choice(T.POLICIES), eager=rng.choice([0, 50, 100]),
                                             sim_seed=rng.below(1 << 30))))
    return out


def special_cases(tier, seed):
    """(a) single RPCs far larger than the send-buffer capacity (17 MiB with capacity 0 / 1 KB, 72 MB (more than 64 MiB) with the default 16 MB):
    one physical MPI message each, which must fit the posted receive slots; (b) round-robin (cyclic) placement of ranks on
    nodes, where node members are not contiguous rank ranges (trace acceptor with RouterP's cyclic placement).  The huge
    messages are judged by the delivery / barrier oracles only (the trace acceptor needs the payload bytes in the log)."""
    rng = T.Rng(seed * 7919 + 3)
    out = []
    params = {"maxfan": 1, "hprog": 0, "hcb": 0, "hbc": 0}
    for (N, P) in ((1, 2), (2, 2)):
        for kb, size in ((0, 17 << 20), (1, (17 << 20) + 5), (None, 72 * 1000 * 1000)):
            n = N * P
            ops = [(0, 0, "async", (1 << 22) + 1, n - 1, size, 0), (0, n - 1, "async", (1 << 22) + 2, 0, 8, 1)]
            if kb is None:
                ops.append((0, 1 % n, "bcast", (1 << 22) + 3, 24 * 1000 * 1000, 0))     # one broadcast payload larger than the send buffer
            sc = T.Scenario(n, 1, dict(params), [8, 100], ops)
            cfg = T.Config(N, P, rng.choice(T.ROUTINGS), kb, irecvs=rng.choice([1, 2]), isends_wait=rng.choice([0, 4]), issend=rng.choice([0, 8]),
                           policy=rng.choice(T.POLICIES), eager=rng.choice([0, 100]), sim_seed=rng.below(1 << 30))
            cfg.default_irecv_size = 1      # YGM_COMM_IRECV_SIZE_KB unset: the library's default slot size must hold any single message
            out.append((sc, cfg))
    lays = [(3, 2), (4, 2), (2, 4), (2, 3), (2, 2)] if tier == "quick" else [(3, 2), (4, 2), (2, 4), (2, 3), (2, 2), (3, 3), (5, 2), (4, 3), (3, 4)]
    for rep in range(1 if tier == "quick" else 4):
        for (N, P) in lays:
            for routing in ("NR", "NLNR", "NONE"):
                sc = T.gen_scenario(rng, N * P, epochs=2, ops_per_rank=rng.choice([3, 6]), ttl=2, maxfan=2, hprog=15, hcb=5, hbc=5,
                                    p_bcast=8, p_mcast=6, sizes=(0, 8, 100, 600, 1500))
                out.append((sc, T.Config(N, P, routing, rng.choice([0, 1, None]), irecvs=rng.choice([1, 8]), isends_wait=rng.choice([0, 4]),
                                         issend=rng.choice([0, 8]), policy=rng.choice(T.POLICIES), eager=rng.choice([0, 50, 100]),
                                         sim_seed=rng.below(1 << 30), placement="cyclic")))
    return out


def extra(local, sc, cfg, sr, hev, wire, out):
    from props import acceptors
    if any((op[2] == "async" and int(op[5]) > (1 << 20)) or (op[2] == "bcast" and int(op[4]) > (1 << 20)) for op in sc.ops):
        return      # oracle-only family (see special_cases): the payload bytes are not logged
    acceptors.deliver(local, sc, cfg, hev, wire)


def run(tier, seed, model_ok=True):
    res = C.Result()
    res.rule = ("[a quarter of the generated scenarios also run barriers of a SECOND ygm::comm living in the same process between the epochs; its events are removed from the judged history] " +
                "seeded message DAGs (main-context asyncs/bcasts/mcasts, handler scripts that send again, payloads 0..40 kB incl. > capacity) x layouts x 3 routings x "
                "capacity {0,1KB,16MB} x irecvs x isends_wait x issend x policy; non-trivial = handlers ran; distinct = (config, scenario shape). "
                "Oracle-only families: single RPCs of 17 MiB (capacity 0 / 1 KB) and 72 MB (default capacity); round-robin (cyclic) placement of ranks on nodes "
                "for 2x2..4x2 layouts x 3 routings. simmpi aborts a rank that modifies a send buffer before completion or posts overlapping receive buffers")
    res.assumptions = ["schedules sampled by seeded policies", "finite generated message DAGs"]
    binary, err = C.build_harness("traffic")
    if binary is None:
        res.corr_failures.append({"relation": "harness builds against /repo", "what": err[-800:], "case": None})
        return res
    K.run_cases(res, binary, cases(tier, seed), WANT, extra=extra if model_ok else None, log_bytes=-1)
    sp = special_cases(tier, seed)
    K.run_cases(res, binary, [c for c in sp if not getattr(c[1], "placement", None)], WANT, extra=None, log_bytes=0, nontrivial=lambda out: out.get("asyncs", 0) > 0)
    K.run_cases(res, binary, [c for c in sp if getattr(c[1], "placement", None)], WANT, extra=extra if model_ok else None, log_bytes=-1)
    if res.oracle_failures:
        res.oracle_failures[0] = K.shrink(binary, res.oracle_failures[0], WANT, log_bytes=-1)
    return res


def replay(data):
    binary, err = C.build_harness("traffic")
    return K.replay_case(binary, data, WANT, extra, log_bytes=-1)
