"""C12 — set / multiset membership and conditional callbacks are exact.

Same engine as C11 (checks/props/c11.py): (a) 1-rank runs compared operation-sequence-exact with
`Dist.run SetOps.apply` (contents, callback sequence, operations issued by callbacks); (b) multi-rank runs
(2..8 ranks incl. multi-node layouts, three routings, buffer 0 / 1 KB / default, five policies): per key the
Lean driver searches for a sequential order of the <= 6 operations that reproduces the final multiplicity
and the exact callback log of the key; larger per-key workloads are order-independent (identical operations —
e.g. many ranks doing the same insert_exe_if_missing — or all multiset inserts) and compared with the model.
consume_all: the elements handed out must be exactly the model contents after the pending operations
(each once, container empty afterwards); with producing callbacks (consume_all_iterative_adapter) the
multiset handed out must equal SetOps.consumeIter; a non-iterative consume_all with producers is checked
by the ledger handed + remaining = before + produced.  size / count / for_all / swap / clear are compared
with the abstract contents on every rank."""
from lib import common as C
from props import c11 as E

qt, uq = E.qt, E.uq

META = {
    "claimed": True,
    "technique": "Lean 4 proof (sequential semantics of the seven remote lambdas and of consume_all, induction over operation lists) + exact "
                 "FIFO correspondence on 1 rank + per-key sequential-order search on multi-rank simulated runs",
    "text": "YgmVerif.SetOps.apply transcribes the remote lambdas of set_impl.hpp over a list of elements; with the generic composition of "
            "YgmVerif.Dist the multiplicity and callback log of a key depend only on the executed subsequence on that key. Props/C12 proves "
            "set_membership (inserted and not erased => exactly once; erased => absent; set_invariant), multiset_multiplicity, erase_all_copies, "
            "exe_if_missing_once (any interleaving of m >= 1 insert_exe_if_missing k with operations on other keys fires exactly once), "
            "exe_if_contains_per_hit, exe_pure_no_change, consume_all_each_once and consume_ledger. The model is tied to the code by exact "
            "replay on one rank and by a search for an explaining sequential order per contended key on multi-rank runs under simmpi.",
    "note": "Trusted: Lean kernel + propext/Classical.choice/Quot.sound; the hand-written model SetOps.lean tied to set_impl.hpp on the explored "
            "histories only; exactly-once atomic execution on the owner (C01/C02/C08) is an assumption; set / multiset are also "
            "instantiated with a non-default Compare (std::greater, a custom total order) and a non-default Partitioner, with ascending and "
            "descending key sweeps - the model is unchanged for them (the comparator only orders the local store, membership semantics are "
            "the same); async_exe_if_contains tests count == 1 "
            "(modelled as such; equal to membership under the set invariant); the order in which consume_all hands out elements is not part of "
            "the property and is not compared; callbacks are a fixed table mirrored in Driver/MapSet.lean.",
}

RULE = ("a case = (scenario, set|multiset, key kind, layout, routing, buffer, policy, sim seed); 1-rank cases are compared operation-sequence-exact "
        "with the model, multi-rank cases per key by order search / order-independent comparison, consume_all by handed-out multisets; "
        "non-trivial = at least one key with >= 2 operations from different ranks in one block (1-rank: >= 20 operations); every scenario "
        "keeps TWO containers of the same type alive on the communicator with interleaved operations (a third with equal shares), each judged "
        "against its own contents; a quarter of the multi-rank cases run the same scenario, through the same template instantiations, on a "
        "sub-communicator (MPI_Comm_split of the world by local id: last-vs-rest or parity) AND on the world communicator of one process, in "
        "either order, and both runs (every sub-communicator group and the world) are judged with the same oracles / model comparison; "
        "in 40 % of the scenarios some ranks call comm.stats_reset() between operations and after barriers (set / multiset have no copy constructor); environment dimension rotated over the cases: YGM_COMM_ISSEND_FREQ in {0,1,8}, YGM_COMM_NUM_IRECVS in {1,2,8}, YGM_COMM_NUM_ISENDS_WAIT in {0,1,4}, capacity 0 / 1 KB / default for every container kind, cyclic rank placement for a third of the multi-node cases; uint64 keys / values over the whole 64-bit range; the order search keeps the program order of every sender (per-sender FIFO), dependent pairs of one rank on one key and reductions around a swap in opposite key order are generated on purpose")


class SetFlavour(E.MapFlavour):
    mode = "set"
    pid = "C12"

    def __init__(self, what, kinds, variant="d"):
        self.what, self.kinds, self.variant = what, kinds, variant
        self.multi = what == "multiset"
        self.kk, self.vk = kinds[0], kinds[0]

    def prod(self, k):
        if self.kk == "u":
            return None if int(k) % 4 >= 2 else str((int(k) + 1) % E.U64)
        if self.kk == "i":
            return str(int(k) + 3000000) if int(k) < 5000000 else None
        return None if k.endswith("^^") else k + "^"

    def universe(self, base):
        u = E.MapFlavour.universe(self, base)
        g1 = [self.prod(k) for k in u if self.prod(k) is not None]
        g2 = [self.prod(k) for k in g1 if self.prod(k) is not None]
        return u + g1 + g2

    def rand_op(self, rnd, k):
        K, a = qt(k), qt(self.rand_val(rnd))
        if self.multi:
            return ["insm", K] if rnd.random() < 0.75 else ["era", K]
        r = rnd.randrange(100)
        if r < 15:
            return ["ins", K]
        if r < 30:
            return ["era", K]
        if r < 52:
            return ["ieim", K, str(rnd.choice([0, 0, 2, 3])), a]
        if r < 72:
            return ["ieic", K, str(rnd.choice([0, 0, 2, 3])), a]
        if r < 86:
            return ["eim", K, str(rnd.choice([0, 2])), a]
        return ["eic", K, str(rnd.choice([0, 2])), a]

    def pair_ops(self, rnd, k):
        K, a = qt(k), qt(self.rand_val(rnd))
        if self.multi:
            return rnd.choice([[["insm", K], ["era", K]], [["era", K], ["insm", K]], [["insm", K], ["insm", K]]])
        return rnd.choice([[["ins", K], ["era", K]], [["ins", K], ["eic", K, "0", a]], [["era", K], ["ins", K]],
                           [["ieim", K, "0", a], ["era", K]], [["ins", K], ["eim", K, "0", a]]])

    def sweep_op(self, rnd, k):
        if self.multi:
            return ["insm", qt(k)]
        return rnd.choice([["ins", qt(k)], ["ieim", qt(k), "0", qt(self.rand_val(rnd))], ["ieic", qt(k), "0", qt(self.rand_val(rnd))]])

    def post_clear_op(self, rnd, k):
        if self.multi:
            return ["insm", qt(k)]
        return rnd.choice([["ins", qt(k)], ["ieim", qt(k), "0", qt(self.rand_val(rnd))]])

    def rand_val(self, rnd):
        if self.kk == "u":
            return str(rnd.choice([0, 1 << 63, E.U64 - 1, (1 << 32) + 1, rnd.randrange(E.U64)]))
        return rnd.choice(["", "x", "yz", "arg", "q"]) if self.kk == "s" else str(rnd.randrange(0, 50))

    def heavy_ops(self, rnd, k, n):
        if self.multi and rnd.random() < 0.6:
            return "insm", [["insm", qt(k)] for _ in range(n)]
        if not self.multi and rnd.random() < 0.5:
            # many ranks insert the same absent-or-present key with a callback
            o = [rnd.choice(["ieim", "ieic"]), qt(k), str(rnd.choice([0, 2, 3])), qt(self.rand_val(rnd))]
            return "identical", [list(o) for _ in range(n)]
        o = self.rand_op(rnd, k)
        return "identical", [list(o) for _ in range(n)]

    def heavy_class(self, ops):
        if len(set(tuple(o) for o in ops)) == 1:
            return "identical"
        kinds = set(o[0] for o in ops)
        if kinds <= {"insm"} or kinds <= {"ins"} or kinds <= {"era"}:
            return "insm"
        return None

    def state_tokens(self, st, keys=None):
        return ";".join(qt(k) for k in (keys if keys is not None else st.keys()) for _ in st.get(k, []))

    def parse_state(self, field):
        st = {}
        for it in field.split(";"):
            w = it.split()
            if len(w) == 1:
                st.setdefault(uq(w[0]), []).append(uq(w[0]))
        return st

    def model_prefix(self, dflt):
        return self.kinds

    def cb_key(self, cb):
        return uq(cb[2])

    def is_consume_cb(self, cb):
        return cb[0] == "c"

    def mut_kinds(self):
        return ["swap", "clear", "consume", "consume", "consumeiter", "consumeiter", "consumeprod"]

    def mut_with_ops(self):
        return ["swap", "consume"]

    def make_mut(self, rnd, kind):
        c = str(0 if rnd.random() < 0.8 else 1)
        pv = "6" if self.multi else "1"
        if kind == "swap":
            return ["swap"]
        if kind == "clear":
            return ["clear", c]
        if kind == "consume":
            return ["consume", c, "0"]
        if kind == "consumeiter":
            return ["consumeiter", c, pv]
        return ["consume", c, pv]

    def gen_obs(self, rnd, base, uni, ranks):
        obs = []
        for c in (0, 1):
            if rnd.random() < 0.7:
                obs.append(["size", str(c)])
            for _ in range(rnd.randrange(0, 4)):
                obs.append(["count", str(c), qt(rnd.choice(uni))])
        return obs

    def undo_mut(self, A, mut, bi, cont, F, ev, owners, R):
        """consume / consumeiter: returns (contents right after the pending operations, deferred check)"""
        c, vis = int(mut[1]), mut[2]
        handed, produced = [], []
        for r in range(R):
            inc = False
            for e in ev[r]:
                if e[0] == "cb" and e[1] == c:
                    inc = e[2][0] == "c"
                    if inc:
                        k = uq(e[2][2])
                        handed.append(k)
                        if e[2][1] != vis:
                            A.corr("consume callback id", f"{e[2]}", block=bi)
                        if owners.get(k) != r:
                            A.oracle(f"consume_all handed {k!r} out on rank {r}, owner is {owners.get(k)}", "consume-off-owner", block=bi, key=k)
                elif e[0] == "em" and e[1] == c and inc:
                    produced.append(uq(e[2][1]))
        pre = sorted(k for k, vs in cont[c].items() for _ in vs)
        left = sorted(k for k, vs in F[c].items() for _ in vs)
        ctx = dict(block=bi, container=c, directive=mut, before=pre[:60], handed=sorted(handed)[:60], left=left[:20])
        # in a set, re-inserting a key that is (still or again) present is order-dependent: the exact comparisons below need
        # every produced key to be fresh (multisets do not care)
        g1 = [self.prod(k) for k in set(pre) if self.prod(k) is not None]
        g2 = [self.prod(k) for k in g1 if self.prod(k) is not None]
        fresh = self.multi or not (set(g1 + g2) & set(pre))
        if vis != "0" and not fresh:
            A.res.count("consume with producers: produced keys not fresh (emptiness only)")
        if vis == "0":
            # quiet consume_all: what was handed out is the contents after the pending operations; nothing may be left
            if left:
                A.oracle(f"container not empty after consume_all: {left[:5]}", "consume-not-empty", **ctx)
            Qc = {}
            for k in handed:
                Qc.setdefault(k, []).append(k)
            return {c: Qc, 1 - c: F[1 - c]}, None
        if mut[0] == "consumeiter":
            if left:
                A.oracle(f"container not empty after iterative consume_all: {left[:5]}", "consume-not-empty", **ctx)

            def chk(o, handed=handed, ctx=ctx):
                f = o.split("|")
                mh = sorted(uq(x.split()[2]) for x in f[1].split(";") if x.strip())
                if f[0].strip():
                    A.corr("SetOps.consumeIter runs to exhaustion", f"model left {f[0][:80]}", **ctx)
                if mh != sorted(handed):
                    extra = [k for k in set(handed) if sorted(handed).count(k) != mh.count(k)]
                    A.oracle(f"consume_all with producing callbacks handed out a different multiset than the sequential semantics "
                             f"(differs on {sorted(extra)[:5]}; real {len(handed)} model {len(mh)})", "consume-iter-multiset", **ctx)
            if fresh:
                A.ask(f"consume|{self.kinds}|{vis}|{self.state_tokens(cont[c])}", chk)
            elif not set(pre) <= set(handed):
                A.oracle("an element present before consume_all was never handed out", "consume-missed", **ctx)
        elif fresh:
            # one consume_all with producing callbacks: ledger
            if sorted(handed + left) != sorted(pre + produced):
                A.oracle(f"consume_all ledger broken: handed {len(handed)} + left {len(left)} != before {len(pre)} + produced {len(produced)}",
                         "consume-ledger", **ctx)
            exp_prod = sorted(self.prod(k) for k in handed if self.prod(k) is not None)
            if exp_prod != sorted(produced):
                A.corr("operations issued by consume callbacks", f"real {sorted(produced)[:5]} expected {exp_prod[:5]}", **ctx)
        return {c: cont[c], 1 - c: F[1 - c]}, None

    def check_obs(self, A, blk, bi, cont, segs, R):
        for (li, d) in blk["obs"]:
            c = int(d[1])
            st = self.state_tokens(cont[c])
            answers = [segs[r].get(li, {}).get("ans") for r in range(R)]
            if any(a is None for a in answers):
                A.corr("harness completed the scenario", f"no answer for directive {li} {d}", block=bi)
                continue
            if d[0] == "size":
                n = sum(len(v) for v in cont[c].values())
                if any(a != f"S {n}" for a in answers):
                    A.oracle(f"size() = {answers} but for_all presents {n} elements", "size", block=bi, directive=d)
                A.ask(f"q|{self.kinds}|{st}|size", lambda o, answers=answers, bi=bi, d=d: (o != answers[0][2:]) and A.corr(
                    "SetOps.size == size()", f"model {o} real {answers[0]}", block=bi, directive=d))
            elif d[0] == "count":
                n = len(cont[c].get(uq(d[2]), []))
                if any(a != f"C {n}" for a in answers):
                    A.oracle(f"count({d[2]}) = {answers} but for_all presents {n}", "count", block=bi, directive=d)
                A.ask(f"q|{self.kinds}|{st}|count {d[2]}", lambda o, answers=answers, bi=bi, d=d: (o != answers[0][2:]) and A.corr(
                    "SetOps.count == count()", f"model {o} real {answers[0]}", block=bi, directive=d))


FLAVOURS = ([SetFlavour(w, k, v) for v in ("d", "g", "p") for w in ("set", "multiset") for k in ("s", "i")]
            + [SetFlavour(w, "u", "d") for w in ("set", "multiset")])
ASSUME = ["every operation is executed exactly once, atomically, on owner(key) before the barrier returns (C01/C02/C08; Dist.Complete)",
          "operations issued by one rank (resp. by the handlers of one rank) for one owner are executed in the order they were issued (MPI non-overtaking + "
          "one route per pair); the order search of the multi-rank oracle requires it",
          "std::hash is a parameter (owners are read from the real run); the order of elements inside std::multiset is not compared",
          "runs aborted by the messaging layer (comm.ipp assertion, deadlock) are C03's subject and are skipped here, counted in the distribution"]


def run(tier, seed, model_ok=True):
    # a set's quiet workloads are cheap: more cases per flavour than C11
    res = E.run_flavours(FLAVOURS + [f for f in FLAVOURS if f.what == "set"], tier, seed + 1000, model_ok, RULE, ASSUME, race_env="C12_POST_CLEAR_NOBARRIER")
    from lib import swaprace
    swaprace.run(res, "set", tier, seed)     # swap() / clear() followed at once by operations, no barrier
    return res


def replay(data):
    return E.replay_with(lambda w, k, v: SetFlavour(w, k, v), data)
