"""C16 — the reducing adapter folds every contributed value exactly once.
Tie: the real reducing_adapter over a ygm::map and over a ygm::array (and reduce_by_key_map over a vector
and a bag) is driven under simmpi by a script generated from the seed: keys colliding in one cache slot,
contributions from the main program and from handlers, barriers while the adapter is alive and the
destructor barrier, operators sum / max / xor and min / product / and / signed max over value ranges where T{} is not neutral, layouts 1x4 2x2 2x3 3x2 (intermediate ranks combine), every
comm routing, buffer 0 and 1 KB, all scheduler policies.  The instrumented value type logs (key, value)
whenever it is serialised / deserialised; with the comm hooks this gives the label history of every rank,
which is replayed through YgmVerif.Cache.step: every packed (key, value) must be exactly what the model is
about to send, the per-owner container operations are folded by the model, every adapter message must be
received by the next NLNR hop the model computes, and the model's stored values must equal the real final
contents.  Direct oracle: final contents (and the contents after every barrier) equal the per-key fold of
the script's contributions, each key only on its owner, values of different keys never combined.
Two more dimensions: (a) for about a quarter of the cases the whole scenario (target, adapter, reduce_by_key_map) runs
on a sub-communicator made by MPI_Comm_split and on the world communicator in the same process, in either order,
through the same template instantiations — both runs are judged (owners, next hops and folds of the communicator
they ran on); (b) cases with TWO adapters of the same type (over two maps / two arrays) alive at once on one
communicator, disjoint key sets that share cache slots, contributions interleaved, each judged on its own."""
import os

from lib import common as C
from props import c15
from props.c15 import S, LAYOUTS, POLICIES, ROUTINGS, Rng

META = {
    "claimed": True,
    "technique": "Lean 4 proof (ledger invariant of the system of all ranks' cache machines + messages in flight + stored values, for every "
                 "associative-commutative operator and every label sequence) + trace-acceptance correspondence with the real "
                 "reducing_adapter under simmpi + direct oracle on the final contents",
    "text": "Theorems reduce_ledger / reduce_quiescent_spec / reduce_reaches_owner / reduce_by_key_spec over YgmVerif.Cache prove that the fold of "
            "(stored, cached on every rank, in progress, in flight) per key equals the fold of all contributions after every step of every rank "
            "- including re-entrant contributions inside a flush's send and combining at intermediate hops -, that a flushed value reaches its "
            "owner within 3 hops (next-hop function as parameter, and instantiated with the NLNR hop of comm_router.hpp), and that at "
            "quiescence the stored value is the fold of the contributions.",
    "note": "Trusted: Lean kernel + propext/Classical.choice/Quot.sound; hand-written model Cache.lean tied to reducing_adapter.hpp on the explored "
            "runs only; exactly-once delivery of packed messages is DERIVED from the communicator model (Props/ContainersComm: ReduceComm.C16_reduce_after_barrier, values Nat) and checked on the logs; the operator is assumed "
            "associative and commutative (stated as hypotheses); reduce_by_key_map's source traversal is compared by result only.",
}

RULE = ("seeded scripts as in C15 with values drawn from 50 per-operator values; target map<uint64,V> (hash owner) or array<V> (block owner, length 3*2^20+2000 so that indices "
        "collide in a cache slot); operator sum/max/xor and four operators for which the value-initialised T{} is not neutral (min over 10..59, product mod 1000003 over 2..51, bitwise and over values sharing bit 41, signed max over -1..-50; the array is then created with an initial value that is neutral on that range); a case = (script, target, operator, layout, routing, buffer KB, policy, sim seed); "
        "subcomm 1/2 (about a quarter of the cases): the same scenario also runs, before/after the world run and in the same process, on a "
        "sub-communicator from MPI_Comm_split (split 0: parity of the on-node index, 1: parity of the node / halves), script ranks and "
        "destinations >= its size issue nothing; twin: two adapters (and targets) of the same type alive at once, key k belongs to "
        "pair (k >> 20) >= J, each with its own fold and model replay; "
        "rswapk/rswapr: two batches of reductions into map A with A.swap(B) in between (adapter kept / re-created), second batch = "
        "the first batch's keys in the opposite order; mask / environment / cyclic placement / wide (4800 keys) as in C15; "
        "rbkbag2: reduce_by_key_map over a bag built on a second ygm::comm over the same ranks, inserts issued right before the call, "
        "no barrier; non-trivial = a contribution was issued while the rank was inside a flush's send, or a value was combined at an intermediate rank")
M64 = 1 << 64
PRIME = 1000003


def _signed(x):
    return x - M64 if x >= (1 << 63) else x


# 0..2: the value-initialised T{} = 0 is neutral; 3..6: it is NOT (0 is absorbing for min over positives, product and
# bitwise-and, and dominates every negative value under signed max), so an implementation that seeds a partial result
# with T{} instead of the first contributed value is wrong for them
OPS = {0: lambda a, b: (a + b) % M64, 1: max, 2: lambda a, b: a ^ b,
       3: min, 4: lambda a, b: (a % PRIME) * (b % PRIME) % PRIME, 5: lambda a, b: a & b,
       6: lambda a, b: a if _signed(a) > _signed(b) else b}
OPNAMES = ["sum", "max", "xor", "min-positive", "product-mod-p", "and", "max-negative"]
# value actually contributed for the generator's v in 1..50
VMAP = {0: lambda v: v, 1: lambda v: v, 2: lambda v: v,
        3: lambda v: v + 9,                                          # 10..59
        4: lambda v: v + 1,                                          # 2..51, never 0 mod p
        5: lambda v: (1 << 41) | ((v * 2654435761) & 0xFFFFFFFFFF),   # bit 41 always set: the and is never 0
        6: lambda v: M64 - v}                                        # -1..-50 as two's complement
NOKEY = (1 << 64) - 1


def fold(op, vals):
    it = iter(vals)
    acc = next(it)
    for v in it:
        acc = OPS[op](acc, v)
    return acc


def make_cases(tier, seed):
    g = Rng(seed * 104729 + 16)
    cases = []
    nrun = 26 if tier == "quick" else 480
    for i in range(nrun):
        nodes, ppn = LAYOUTS[i % len(LAYOUTS)]
        target = "rarr" if i % 3 == 2 else "rmap"
        if i % 13 == 7:    # wide: thousands of keys, so that a flush-all is long and values routed through a rank arrive during it
            bases, J, nops, hot = list(range(0, 2400)), 2, 150, 0
        elif i % 5 == 4:
            bases, J, nops, hot = [0, 3, 5, 9, 77, 1000, 1048575], 2, 24, 20
        elif i % 5 == 3:
            bases, J, nops, hot = [5, 6], 3, 36, 50
        else:
            bases, J, nops, hot = [5, 77, 1000], 3, 36 + 8 * g.below(3), 70
        if tier != "quick":
            nops *= 2
        case = {"script_seed": g.next() % (1 << 31), "nodes": nodes, "ppn": ppn, "phases": 2 + g.below(2), "nops": nops,
                "bases": bases, "J": J, "hot": hot, "hpct": [45, 60, 30][g.below(3)], "fwdpct": 40, "vmax": 50,
                "routing": ROUTINGS[g.below(3)], "buffer_kb": [0, 0, 1][g.below(3)], "policy": POLICIES[i % len(POLICIES)],
                "sim_seed": 1 + g.below(1 << 20), "mode": target, "op": [0, 3, 1, 4, 2, 5, 6, 0][(i + g.below(2)) % 8]}
        if target == "rarr":
            case["len"] = J * S + 2000
        cases.append(case)
    # reduce_by_key_map: main-context contributions only
    for i in range(8 if tier == "quick" else 32):
        nodes, ppn = LAYOUTS[i % len(LAYOUTS)]
        cases.append({"script_seed": g.next() % (1 << 31), "nodes": nodes, "ppn": ppn, "phases": 1, "nops": 60, "bases": [5, 77], "J": 4,
                      "hot": 70, "hpct": 0, "fwdpct": 0, "vmax": 50, "routing": ROUTINGS[g.below(3)], "buffer_kb": [0, 1][g.below(2)],
                      "policy": POLICIES[g.below(5)], "sim_seed": 1 + g.below(1 << 20), "mode": "rbkvec" if i % 2 == 0 else "rbkbag",
                      "op": [3, 4, 0, 5, 6, 3, 1, 2][i % 8]})
    # reduce_by_key_map whose input bag lives on a SECOND ygm::comm over the same ranks and still has un-barriered
    # async_inserts when it is called (for_all inside must complete them)
    for i in range(4 if tier == "quick" else 16):
        nodes, ppn = LAYOUTS[(i + 1) % len(LAYOUTS)]
        cases.append({"script_seed": g.next() % (1 << 31), "nodes": nodes, "ppn": ppn, "phases": 1, "nops": 40, "bases": [5, 77], "J": 4,
                      "hot": 70, "hpct": 0, "fwdpct": 0, "vmax": 50, "routing": ROUTINGS[g.below(3)], "buffer_kb": [16384, 1024][i % 2],   # default-sized buffers: with tiny ones a rank spins in the bag's communicator while its peer waits in cm.barrier() (two communicators do not service each other)
                      "policy": POLICIES[g.below(5)], "sim_seed": 1 + g.below(1 << 20), "mode": "rbkbag2",
                      "op": [0, 3, 4, 1][i % 4]})
    # reductions into map A, A.swap(B), reductions into A again — the second batch repeats the first batch's keys in the
    # opposite order (ascending, then descending), so that on every owner the first key after the swap is the last one before
    for i in range(4 if tier == "quick" else 16):
        nodes, ppn = LAYOUTS[(i + 2) % len(LAYOUTS)]
        cases.append({"script_seed": g.next() % (1 << 31), "nodes": nodes, "ppn": ppn, "phases": 2, "nops": 6 + 6 * (i % 3), "bases": [5] if i % 4 < 2 else [5, 77], "J": 1 if i % 4 < 2 else 2,
                      "hot": 60, "hpct": 0, "fwdpct": 0, "vmax": 50, "routing": ROUTINGS[g.below(3)], "buffer_kb": [0, 1, 16384][i % 3],
                      "policy": POLICIES[g.below(5)], "sim_seed": 1 + g.below(1 << 20), "mode": "rswapk" if i % 2 == 0 else "rswapr",
                      "op": [0, 3, 4, 2][i % 4], "swap_script": 1})
    c15.add_dimensions(cases, g)
    for c in cases:
        if c["mode"] in ("rbkvec", "rbkbag", "rbkbag2", "rswapk", "rswapr"):
            c["twin"] = 0           # reduce_by_key_map creates its own map and adapter
        if c["mode"] == "rarr":
            if c["twin"]:
                c["J"] = min(c["J"], 2)
            c["len"] = (2 if c["twin"] else 1) * c["J"] * S + 4000
    return cases


def kv3(ws):
    """'k:val:ghostkey' tokens -> {k: (val, ghostkey)}"""
    d = {}
    for t in ws:
        a = t.split(":")
        d[int(a[0])] = (int(a[1]), int(a[2]))
    return d


def judge_reduce(res, case, view, c, ncont, ops, model_ok, per_rank, owner):
    """one adapter + target on one communicator: oracle + model replay; returns (fails, mismatch, pinned_explains)"""
    g = len(view["members"])
    mode, op = case["mode"], case["op"]
    cid = c15.container_of(case)
    contrib = [x for x in c15.contributions(ops, g) if cid(x[1]) == c]
    fails = []

    def expected(upto):
        by = {}
        for (p, k, v) in contrib:
            if p <= upto:
                by.setdefault(k, []).append(v)
        return {k: fold(op, vs) for k, vs in by.items()}

    final = expected(10 ** 9)
    outs = {r: c15.outs_by_tag(view["outs"].get(r, [])) for r in range(g)}

    def nth(rows, i):
        return rows[i] if i < len(rows) else []

    def contents(tag_rows, what, want):
        allkv = {}
        for r in range(g):
            for k, (v, gk) in kv3(tag_rows[r]).items():
                if k in allkv:
                    fails.append((f"{what}: key present on two ranks", {"key": k}))
                if owner.get(k) is not None and owner[k] != r:
                    fails.append((f"{what}: key stored on a rank that does not own it", {"key": k, "rank": r, "owner": owner[k]}))
                if gk != k:
                    fails.append((f"{what}: values contributed for different keys were combined", {"key": k, "ghost": gk}))
                if cid(k) != c:
                    fails.append((f"{what}: key of the other container", {"key": k}))
                allkv[k] = v
        if allkv != want:
            bad = {k: (allkv.get(k), want.get(k)) for k in set(allkv) | set(want) if allkv.get(k) != want.get(k)}
            fails.append((f"{what} != per-key fold of the contributions", {"key: (real, expected)": bad}))

    real_by_rank = {r: {k: v for k, (v, _) in kv3(nth(outs[r].get("kv", []), c)).items()} for r in range(g)}
    contents({r: nth(outs[r].get("kv", []), c) for r in range(g)}, "final contents", final)
    if mode in ("rmap", "rarr"):
        for ph in range(case["phases"]):
            rows = {}
            for r in range(g):
                row = [w for w in outs[r].get("snap", []) if w and int(w[0]) == ph]
                rows[r] = nth(row, c)[1:]
            contents(rows, f"contents after barrier {ph} (adapter alive)", expected(ph))
    else:
        sizes = {int(outs[r].get("size", [["-1"]])[0][0]) for r in range(g)}
        if sizes != {len(final)}:
            fails.append(("reduce_by_key_map: size != number of distinct keys", {"real": sorted(sizes), "expected": len(final)}))

    mismatch, pinned_explains = None, None
    if mode in ("rmap", "rarr"):
        logged = sum(per_rank[r][1]["ib_by_cont"][c] for r in range(g))
        if logged != len(contrib):
            fails.append(("harness log is not the script (contributions logged != scripted)", {"logged": logged, "scripted": len(contrib)}))
        if model_ok:
            own = ",".join(f"{k}:{o}" for k, o in sorted(owner.items()))
            lines = [f"fixed {S} {op} {r} {own} | " + " ".join(per_rank[r][0][c]) for r in range(g)]
            parsed = [c15.parse_model(a) for a in C.model("reduce", lines)]
            res.traces_validated += g
            sent, hopq = [], []
            for r, p in enumerate(parsed):
                if not p["ok"]:
                    mismatch = mismatch or {"relation": "every rank's event history is accepted by Cache.step (repaired order)", "what": f"rank {r}: {p['why']}"}
                    continue
                if p["stack"] != "0" or p["cache"] != "" or p["reg"] != "0":
                    mismatch = mismatch or {"relation": "after the destructor barrier the model's cache is empty and no callback is registered",
                                            "what": f"rank {r}: reg={p['reg']} stack={p['stack']} cache={p['cache']}"}
                if p["stored"] != real_by_rank[r]:
                    mismatch = mismatch or {"relation": "values the model folds into the container on each owner = real final contents",
                                            "what": f"rank {r}: model {p['stored']} real {real_by_rank[r]}"}
                for (cc, k, v) in p["out"]:
                    if k not in owner:
                        mismatch = mismatch or {"relation": "every packed value belongs to one key of the script", "what": f"rank {r} packed key {k}"}
                    elif cc == 0:
                        hopq.append((r, k, v))
                    elif owner.get(k) != r:
                        mismatch = mismatch or {"relation": "container operations are issued by the owner only", "what": f"rank {r} key {k}"}
            if hopq:
                # the model's next hop is stated for a block placement: translate communicator ranks through the
                # (node, on-node index) coordinates the layout gives them (identity for block placement)
                p_ = view["ppn"]
                blk = [nd * p_ + lc for (nd, lc) in view["coords"]]
                inv = {b: cr for cr, b in enumerate(blk)}
                hops = C.model("reduce", [f"hop {p_} {blk[r]} {blk[owner[k]]}" for (r, k, v) in hopq])
                sent = sorted((inv.get(int(h), -1), k, v) for h, (r, k, v) in zip(hops, hopq))
            recv = sorted((r, k, v) for r in range(g) for (k, v) in per_rank[r][1]["delivered_kv"][c])
            if mismatch is None and sent != recv:
                extra = [x for x in recv if x not in sent][:3]
                missing = [x for x in sent if x not in recv][:3]
                mismatch = {"relation": "every flushed partial value is received once by the NLNR next hop towards its owner (Cache.nlnrHop)",
                            "what": f"model sends {len(sent)}, real receives {len(recv)}; not received {missing}; unexpected {extra}"}
            if mismatch or fails:
                pl = [f"pinned {S} {op} {r} {own} | " + " ".join(per_rank[r][0][c]) for r in range(g)]
                pp = [c15.parse_model(a) for a in C.model("reduce", pl)]
                pinned_explains = all(p["ok"] for p in pp) and all(p["stored"] == real_by_rank[r] for r, p in enumerate(pp))
    return fails, mismatch, pinned_explains, final


def judge_swap(res, case, view, ops, owner):
    """reductions into map A, A.swap(B), reductions into A: A ends with the fold of the second batch, B with the fold of
    the first (the swap moves A's entries — its "previous values" — to B; nothing of the second batch may follow them)"""
    g = len(view["members"])
    op = case["op"]
    contrib = c15.contributions(ops, g)
    want = []
    for ph in (1, 0):
        by = {}
        for (p, k, v) in contrib:
            if p == ph:
                by.setdefault(k, []).append(v)
        want.append({k: fold(op, vs) for k, vs in by.items()})
    outs = {r: c15.outs_by_tag(view["outs"].get(r, [])) for r in range(g)}
    for which, name in ((0, "A (reduced into, swapped, reduced into again)"), (1, "B (holds A's entries from before the swap)")):
        real = {}
        for r in range(g):
            rows = outs[r].get("kv", [])
            for k, (v, gk) in kv3(rows[which] if which < len(rows) else []).items():
                real[k] = v
                if owner.get(k) != r or gk != k:
                    res.oracle_failures.append({"what": c15.where(view, 0, 1) + f"map {name}: key {k} on rank {r} (owner {owner.get(k)}), ghost key {gk}",
                                                "signature": "reducing_adapter-swap-misplaced", "case": dict(case, failed_on=view["name"])})
                    return
        if real != want[which]:
            bad = {k: (real.get(k), want[which].get(k)) for k in set(real) | set(want[which]) if real.get(k) != want[which].get(k)}
            res.oracle_failures.append({"what": c15.where(view, 0, 1) + f"map {name} != per-key fold of the batch it must hold",
                                        "signature": "reducing_adapter-swap-fold-mismatch",
                                        "case": dict(case, failed_on=view["name"], detail={"key: (real, expected)": dict(list(bad.items())[:10])})})
            return


def check_reduce(res, case, sr, universe, ops, model_ok):
    mode, op = case["mode"], case["op"]
    sig_base = "reducing_adapter"
    if sr.verdict != "ok":
        res.oracle_failures.append({"what": f"run failed: {sr.verdict} {sr.stderr[-200:]}", "signature": sig_base + "-run-" + sr.verdict.split(":")[0], "case": case})
        return
    ncont = 2 if case.get("twin") else 1
    cid = c15.container_of(case)
    res.evaluations += 1
    res.count("runs")
    res.count(f"target-{mode}")
    res.count(f"op-{OPNAMES[op]}")
    res.count(f"layout-{case['nodes']}x{case['ppn']}")
    res.count(f"buffer-{case['buffer_kb']}KB")
    res.count(f"routing-{case['routing']}")
    res.count(f"policy-{case['policy']}")
    res.count(f"subcomm-{['none', 'sub-then-world', 'world-then-sub'][case.get('subcomm', 0)]}")
    c15.env_counts(res, case)
    if ncont > 1:
        res.count("two-adapters-at-once")
    nontrivial = False
    for view in c15.views(case, sr):
        g = len(view["members"])
        res.count(f"communicator-runs-{view['name']}")
        if view["bad"]:
            res.oracle_failures.append({"what": "scenario did not run on the expected communicator: " + view["bad"], "signature": sig_base + "-subcomm-layout", "case": case})
            continue
        owner = {int(w[0]): int(w[1]) for w in c15.outs_by_tag(view["outs"].get(0, [])).get("own", [])}
        nested_same, per_rank, stats = 0, None, None
        if mode in ("rswapk", "rswapr"):
            judge_swap(res, case, view, ops, owner)
            nontrivial = True
            continue
        if mode in ("rmap", "rarr"):
            c15.check_masks(res, case, view, sig_base, mode)
            per_rank = [c15.tokens(view["events"][r], me=r, owner=owner, cid=cid, ncont=ncont) for r in range(g)]
            for r in range(g):     # harness-issued contributions per container
                cnt = [0] * ncont
                for e in view["events"][r]:
                    if e.startswith("ib "):
                        cnt[cid(int(e.split()[1]))] += 1
                per_rank[r][1]["ib_by_cont"] = cnt
            stats = {k: sum(st[k] for _, st in per_rank) for k in ("inserts", "nested_inserts", "nested_same_slot", "packs", "applied", "delivered", "unbalanced", "cross_container_nesting")}
            nested_same = stats["nested_same_slot"]
            res.count("contributions", stats["inserts"])
            res.count("contributions-issued-inside-a-send", stats["nested_inserts"])
            res.count("contributions-into-a-slot-being-flushed", stats["nested_same_slot"])
            res.count("contributions-issued-inside-a-send-of-the-other-adapter", stats["cross_container_nesting"])
            res.count("partial-values-combined-at-a-next-hop", stats["delivered"])
            res.count("container-operations", stats["applied"])
            nontrivial = nontrivial or stats["nested_inserts"] > 0 or stats["delivered"] > 0
        else:
            # no harness-level insert events here (the library calls async_reduce itself): only note whether a received partial
            # value was combined while this rank was inside a send
            for r in range(g):
                depth = 0
                for e in view["events"][r]:
                    if e == "S":
                        depth += 1
                    elif e == "R":
                        depth -= 1
                    elif e.startswith("uk") and depth > 0:
                        nested_same += 1
            res.count("partial-values-received-inside-a-send(reduce_by_key)", nested_same)
            nontrivial = True
        for c in range(ncont):
            fails, mismatch, pinned_explains, final = judge_reduce(res, case, view, c, ncont, ops, model_ok, per_rank, owner)
            if stats and stats["unbalanced"]:
                fails.append(("harness log is unbalanced", {"events": stats["unbalanced"]}))
            if fails:
                sig = sig_base + ("-reentrant-flush" if (pinned_explains or (pinned_explains is None and nested_same > 0)) else "-fold-mismatch")
                what, detail = fails[0]
                res.oracle_failures.append({"what": c15.where(view, c, ncont) + what + (" [the pinned statement order (PinnedCache) replays this run to exactly these contents]" if pinned_explains else ""),
                                            "signature": sig,
                                            "case": dict(case, failed_on=view["name"], container=c, detail=detail, all_failed_clauses=[w for w, _ in fails][:8],
                                                         contributions_into_a_slot_being_flushed=nested_same, model=mismatch,
                                                         pinned_model_explains_run=pinned_explains)})
            elif mismatch:
                res.corr_failures.append(dict(mismatch, what=c15.where(view, c, ncont) + mismatch["what"], case=case))
            if stats and len(res.samples) < 3 and stats["nested_same_slot"] > 0 and stats["delivered"] > 0 and (ncont > 1 or case.get("subcomm") or len(res.samples) < 1):
                res.sample({"case": {k: case[k] for k in ("mode", "op", "nodes", "ppn", "routing", "buffer_kb", "policy", "sim_seed", "script_seed", "subcomm", "split", "twin")},
                            "communicator": view["name"], "ranks": g, "container": c,
                            "contributions": stats["inserts"], "into_a_slot_being_flushed": stats["nested_same_slot"],
                            "combined_at_next_hop": stats["delivered"], "final": dict(list(final.items())[:6]),
                            "rank0_first_labels": " ".join(per_rank[0][0][c][:40])})
    if nontrivial:
        res.distinct.add((case["script_seed"], mode, op, case["nodes"], case["ppn"], case["routing"], case["buffer_kb"], case["policy"], case["sim_seed"],
                          case.get("subcomm", 0), case.get("split", 0), case.get("twin", 0)))


def run_one(binary, sc, case, idx):
    return c15.run_case(binary, sc, case, idx, mode=case["mode"], extra_args=[case["op"]], vmap=VMAP[case["op"]])


def run(tier, seed, model_ok=True):
    res = C.Result()
    res.rule = RULE
    res.assumptions = ["the operator is associative and commutative (sum, max, xor, min, product mod p, and, signed max are); it need not have a neutral element", "every packed message is executed exactly once by its destination (C01; observed on the logs here)",
                       "handlers do not call barrier() (README rule)", "std::hash of the 64-bit keys is the identity (libstdc++)"]
    binary, err = C.build_harness("cache")
    if binary is None:
        res.corr_failures.append({"relation": "harness builds against /repo", "what": err[-800:], "case": None})
        return res
    if not model_ok:
        res.corr_failures.append({"relation": "model driver available", "what": "Lean library does not build", "case": None})
    cases = make_cases(tier, seed)
    with c15.Scratch() as sc:
        def do(ic):
            i, case = ic
            return (case,) + run_one(binary, sc, case, i)
        results = C.pmap(do, list(enumerate(cases)), workers=max(2, C.NCPU // 2))
    for case, sr, universe, ops in results:
        check_reduce(res, case, sr, universe, ops, model_ok)
    # a disagreement hidden by an idempotent operator or a lucky schedule: same script under other schedules, with the
    # sum (shows lost and duplicated values) and with min over positives (shows an injected T{})
    c15.search_around(res, binary, check_reduce, run_one, model_ok, force=[{"op": 0}, {"op": 3}])
    return res


def replay(data):
    """re-run the recorded case; True when the failure does NOT reproduce"""
    case = data.get("case") or {}
    if "script_seed" not in case:
        print("replay: nothing executable recorded:", data.get("no_longer_checks"))
        return False
    binary, err = C.build_harness("cache")
    if binary is None:
        print(err[-500:])
        return False
    res = C.Result()
    with c15.Scratch() as sc:
        sr, universe, ops = run_one(binary, sc, case, 0)
    check_reduce(res, case, sr, universe, ops, os.path.exists(C.model_bin("reduce")))
    for f in res.oracle_failures:
        print("oracle:", f["what"], f["signature"], f["case"].get("detail"))
    for f in res.corr_failures:
        print("correspondence:", f["relation"], f["what"])
    return not res.oracle_failures and not res.corr_failures
