"""C07 — sends aggregate up to the buffer capacity; back-pressure bounds in-flight data.
Theorems: YgmVerif.Bytes; acceptor mode `bytes`; oracle: bounds evaluated on the real byte counters (hooks)."""
from lib import common as C
from lib import traffic as T
from lib import campaign as K

META = {
    "claimed": True,
    "technique": "Lean 4 invariant proofs over a byte-counter step model of async / flush_to_capacity / back-pressure + trace acceptance of real runs (real counters exported by hooks)",
    "text": "[C07_halt_wait_ends(_early): the back-pressure wait of async ends once the posted sends complete, for every capacity incl. 0] Theorems unsent_bound / no_early_send / aggregate_single_send / producer_pending_bound over YgmVerif.Bytes prove for every capacity, message size sequence and "
            "completion delay that a main-context async leaves at most the capacity unsent (at most capacity + the message inside the call), that nothing is put on the wire "
            "outside flush points while the capacity is not exceeded, and that a pure producer never has more than 2*capacity + one message posted-but-incomplete. Real runs "
            "with message sizes steered to capacity-1/capacity/capacity+1, fan-outs 1..n and starved completions are replayed through the model's step (the real "
            "m_send_buffer_bytes / m_pending_isend_bytes at every hook must equal the model's), and the three bounds are evaluated directly on every run.",
    "note": "Trusted: Lean kernel + standard axioms; model tied to comm.ipp on explored runs; the hooks (guard YGM_VERIF_HOOKS) export the real counters; completion delays "
            "are scheduler choices of simmpi (policies starve/late, always-rendezvous).",
}

WANT = ("delivery",)
MSG0 = 30          # bytes of a message with an empty blob under NONE routing (lid 2 + uid 8 + 3*int32 + vector length 8)


def agg_cases(tier, seed):
    """directed: one sender, k messages to one destination, total steered around the capacity"""
    rng = T.Rng(seed * 31 + 7)
    out = []
    for kb in ([1, 4] if tier == "quick" else [1, 2, 4, 16, 64]):
        cap = kb * 1024
        for delta in (-40, -1, 0, 1, 40):
            for k in ([1, 2, 5] if tier == "quick" else [1, 2, 3, 5, 9]):
                n = rng.choice([2, 3, 4])
                s, d = 0, 1 + rng.below(n - 1)
                total = cap + delta
                base = total // k
                sizes = [base] * k
                sizes[-1] += total - base * k
                if min(sizes) < MSG0:
                    continue
                ops = []
                uid = 1 << 20
                for z in sizes:
                    uid += 1
                    ops.append((0, s, "async", uid, d, z - MSG0, 0))
                sc = T.Scenario(n, 1, {"maxfan": 0, "hprog": 0, "hcb": 0, "hbc": 0}, [0], ops)
                sc.agg = {"sender": s, "dest": d, "total": total, "k": k, "cap": cap}
                out.append((sc, T.Config(1, n, "NONE", kb, policy=rng.choice(T.POLICIES), eager=rng.choice([0, 100]), sim_seed=rng.below(1 << 30))))
    return out


def producer_cases(tier, seed):
    rng = T.Rng(seed * 31 + 9)
    out = []
    for rep in range(3 if tier == "quick" else 20):
        for kb in (0, 1, 4):
            n = rng.choice([2, 3, 4, 6])
            sizes = (0, 100, 400, 900, 2000) if kb else (0, 100, 900)
            sc = T.gen_scenario(rng, n, epochs=1, ops_per_rank=rng.choice([10, 30]), ttl=0, maxfan=0, hprog=0, hcb=0, p_bcast=0, p_mcast=0, p_progress=0,
                                p_mask=0, p_cb=0, sizes=sizes, tail=False, uneven=False, precomm=rng.choice([None, None, 16384]))
            sc.producers = True
            out.append((sc, T.Config(1, n, "NONE", kb, irecvs=rng.choice([1, 8]), isends_wait=rng.choice([0, 1, 4]), issend=rng.choice([0, 1, 8]),
                                     policy=rng.choice(["starve", "late", "uniform"]), eager=rng.choice([0, 0, 100]), sim_seed=rng.below(1 << 30))))
    return out


def general_cases(tier, seed):
    rng = T.Rng(seed * 31 + 11)
    out = []
    for rep in range(2 if tier == "quick" else 12):
        for (N, P) in [(1, 4), (2, 2), (2, 3)]:
            for routing in T.ROUTINGS:
                for kb in (0, 1, 4):
                    sc = T.gen_scenario(rng, N * P, epochs=2, ops_per_rank=6, ttl=2, maxfan=2, hprog=20, hcb=5, sizes=(0, 100, 400, 900, 2000, 5000), other=rng.choice([0, 0, 0, 50]),
                                        precomm=rng.choice([None, None, 16384 if kb < 4 else 0]))
                    out.append((sc, T.Config(N, P, routing, kb, irecvs=rng.choice([1, 8]), isends_wait=rng.choice([0, 4]), issend=rng.choice([0, 8]),
                                             policy=rng.choice(T.POLICIES), eager=rng.choice([0, 50, 100]), sim_seed=rng.below(1 << 30))))
    return out


def wire_pending_oracle(local, sc, cfg, hev, wire):
    """back-pressure measured on the WIRE, not on the library's own counter: the bytes a pure producer has posted and MPI has not yet
    completed (isend lines minus sendcomplete lines of the simulated wire) never exceed 2*capacity + one message when an async proceeds.
    MPI-level completion precedes the library noticing it, so this quantity is <= m_pending_isend_bytes of a correct library."""
    cap = cfg.cap
    maxmsg = max([0] + [int(ev.f[1]) for ev in hev if ev.kind == "k:pk"])
    out, size = {}, {}
    events = sorted([(ev.t, 0, ev) for ev in hev if ev.kind in ("k:as+", "k:ex+", "k:ex-", "k:im+", "k:im-")] +
                    [(i, 1, (kind, d)) for (i, kind, d) in wire if kind in ("isend", "sendcomplete")], key=lambda x: (x[0], x[1]))
    depth, mask = {}, {}
    for t, w, x in events:
        if w == 1:
            kind, d = x
            r = int(d["r"])
            if kind == "isend":
                size[d["msg"]] = int(d["bytes"])
                out[r] = out.get(r, 0) + int(d["bytes"])
            else:
                out[r] = out.get(r, 0) - size.pop(d.get("msg"), 0)
            continue
        ev = x
        r = ev.r
        if ev.kind == "k:ex+":
            depth[r] = depth.get(r, 0) + 1
        elif ev.kind == "k:ex-":
            depth[r] = depth.get(r, 0) - 1
        elif ev.kind == "k:im+":
            mask[r] = 1
        elif ev.kind == "k:im-":
            mask[r] = 0
        elif ev.kind == "k:as+" and not depth.get(r, 0) and not mask.get(r, 0):
            if out.get(r, 0) > 2 * cap + maxmsg:
                T.fail(local, f"async proceeded on producer rank {r} with {out.get(r, 0)} bytes posted and not completed on the wire > 2*{cap}+{maxmsg} "
                              f"(the library's own counter says {ev.f[2]})", "no-backpressure-wire", sc, cfg, {"t": ev.t})
                return


def extra(local, sc, cfg, sr, hev, wire, out):
    ok, wu, wp = T.oracle_bytes(local, sc, cfg, hev, producers_only=getattr(sc, "producers", False))
    out["worst_unsent"], out["worst_pending"] = wu, wp
    if ok and getattr(sc, "producers", False):
        wire_pending_oracle(local, sc, cfg, hev, wire)
    agg = getattr(sc, "agg", None)
    if agg:
        sends = [(int(ev.f[0]), int(ev.f[1])) for ev in hev if ev.kind == "k:fsb" and ev.r == agg["sender"]]
        to_d = [b for (d, b) in sends if d == agg["dest"]]
        if agg["total"] <= agg["cap"]:
            if to_d != [agg["total"]]:
                T.fail(local, f"{agg['k']} messages totalling {agg['total']} <= capacity {agg['cap']} to one destination travelled as sends {to_d} instead of one",
                       "not-aggregated", sc, cfg, {"sends": to_d})
        else:
            if sum(to_d) != agg["total"] or len(to_d) > 2:
                T.fail(local, f"messages totalling {agg['total']} > capacity {agg['cap']} travelled as {to_d}", "aggregation-split", sc, cfg, {"sends": to_d})
        out["agg"] = to_d
    from props import acceptors
    acceptors.bytes_(local, sc, cfg, hev, wire)


def run(tier, seed, model_ok=True):
    res = C.Result()
    res.rule = ("[a quarter of the generated scenarios also run barriers of a SECOND ygm::comm living in the same process between the epochs; its events are removed from the judged history] " +
                "three families: (a) one sender, k messages to one destination with total bytes steered to capacity-40/-1/+0/+1/+40; (b) pure producers flooding with "
                "starved/late completions and rendezvous sends; (c) general scenarios with handler-side sends; capacities 0/1/4(/16/64) KB; distinct = (config, shape)")
    res.assumptions = ["completion delays are simmpi scheduler choices", "counters read through the YGM_VERIF_HOOKS instrumentation"]
    binary, err = C.build_harness("traffic")
    if binary is None:
        res.corr_failures.append({"relation": "harness builds against /repo", "what": err[-800:], "case": None})
        return res
    cs = agg_cases(tier, seed) + producer_cases(tier, seed) + general_cases(tier, seed)
    K.run_cases(res, binary, cs, WANT, extra=extra, nontrivial=lambda o: o.get("isends", 0) > 0)
    return res


def replay(data):
    binary, err = C.build_harness("traffic")
    return K.replay_case(binary, data, WANT, extra)
