"""C14 — bags conserve their items through every operation; rebalance evens them out; tagged_bag tags are unique.
Tie: generated histories (placements, inserts of all three overloads, rebalance, shuffles with a harness RNG,
swap, clear, gathers) run on the real ygm::container::bag / tagged_bag under simmpi (all routing modes, tiny
buffers, several layouts and schedules) and through the Lean model YgmVerif.BagOps (driver mode `bag`), whose
schedule parameters (execution order of inserts, iteration order of to_send, ranks drawn by global_shuffle, and
the interleaving of every rank's pops / swap-out with the arrivals, observed through the "ex-" hook of comm.ipp)
are read off the real run; every rank's vector is compared item by item, in order.
Direct oracle: multiset over all ranks = multiset inserted; after rebalance the local sizes are the block
sizes of an array of that length; gathers return the full multiset; tags are distinct and address their item."""
import hashlib
import itertools
import random

from lib import common as C

META = {
    "claimed": True,
    "technique": "Lean 4 proof (List.Perm multiset conservation through every operation, double counting of rebalance targets over the "
                 "block partition of C10, injectivity of the tag encoding) + differential runs of the real bag/tagged_bag against the executable model",
    "text": "Theorems items_conserved/inserts_conserved/rebalance_conserved/localShuffle_conserved/globalShuffle_conserved/swap_conserved "
            "(the multiset of items in the local bags plus in flight is exactly what was inserted, through any history, any schedule, any "
            "iteration order of rebalance's to_send map, any shuffle outcome), rebalance_counts/rebalance_balanced/rebalance_some (afterwards "
            "rank r holds Part.localSize total ranks r items for every total incl. 0 and < ranks; no division trap, no failing local_pop "
            "assertion, no send outside the communicator), gather_spec/gatherAll_spec, tag_injective/tag_eq/insert_fresh/tag_visits_item/swap_inv/insert_fresh_after_swap (tags stay unique "
            "through tagged_bag::swap because contents and counters are exchanged together) over "
            "YgmVerif.BagOps. The model uses the repaired block size (size % ranks); pinned_traps proves that the expression of the tree as "
            "found (size / ranks) divides by zero whenever 0 < total < ranks. The model is tied to bag.ipp/tagged_bag.hpp by running generated "
            "histories on the real code and comparing every rank's local vector (exact order), gather results and tags with the model's.",
    "note": "Trusted: Lean kernel + propext/Classical.choice/Quot.sound; hand-written model BagOps.lean tied to bag.ipp only on the generated "
            "histories; exactly-once atomic delivery is DERIVED from the communicator model (Props/ContainersComm: C14_bag_after_barrier) rather than assumed; std::shuffle / uniform_int_distribution / the unordered_map "
            "iteration order are parameters read from the real run; the underlying map of tagged_bag is modelled as an association list (C11 "
            "covers map); tag uniqueness needs serial < 2^40 and rank < 2^24 (stated hypotheses, the collision at 2^40 is a checked example).",
}

RULE = ("generated: per communicator size R in 1..8 a history = initial placement (all on one rank / round-robin from one or several ranks / "
        "explicit destinations leaving ranks empty / vectors incl. empty / fewer items than ranks / none) followed by 2-6 operations drawn from "
        "rebalance, local_shuffle(seed), global_shuffle(seed), more inserts, swap with a second bag, clear, gather_to_vector(dest), "
        "gather_to_vector(), size(); a dump of every rank's vector after each; tagged_bag histories = two tagged bags filled to different levels "
        "from several ranks, visits and erases through the returned tags from other ranks, swap of the two bags followed by further inserts / visits / "
        "erases in both, all_gather, size; a case = (R, layout, routing, buffer, schedule seed, script); "
        "two containers of one type: every run holds two bags (two tagged bags) on the same communicator, the history switches between them "
        "(and swaps them), each is judged against its own expected multiset and model state; "
        "two communicators in one process: a quarter of the multi-rank cases (deterministic in the case index, recorded in the case) run a history "
        "of the same kind through the same code on sub-communicators of another size built with MPI_Comm_split (world-rank parity, rank < n-1 versus "
        "the last rank, or node parity — only splits that keep ygm::layout's uniform ranks-per-node) before the world run (a third of them after it); "
        "every communicator's part is judged with the same oracle and model comparison; "
        "tagged_bag: every rank inserts and AT ONCE (no barrier / size()) all_gathers its fresh tag (and the previous one), several times so that ranks own "
        "their own fresh tags; special sizes: vector inserts, rebalance shipments, gathered local vectors and bag<std::string> items of exactly 254 / 255 / 256 "
        "(thorough: 65535 / 65536) elements; environment dimension rotated over the cases: YGM_COMM_ISSEND_FREQ in {default, 0, 1, 8}, NUM_IRECVS in "
        "{default, 1, 2, 8}, NUM_ISENDS_WAIT in {default, 0, 1, 4}, cyclic placement of ranks on nodes for a third of the multi-node cases; "
        "non-trivial = at least one item inserted")

ROUTES = ["NONE", "NR", "NLNR"]
POLICIES = ["uniform", "racer", "starve", "late", "burst"]
M64 = (1 << 64) - 1


def layouts(R):
    return [(n, R // n) for n in range(1, R + 1) if R % n == 0]


def block_sizes(total, R):
    """the property's own statement: block sizes of an array of length `total` on R ranks"""
    return [total // R + (1 if r < total % R else 0) for r in range(R)]


# --------------------------------------------------------------------------- generation

def gen_bag_case(rng, R, placement):
    ops = []
    nxt = [1]
    ninserted = [0]

    def items(n):
        v = list(range(nxt[0], nxt[0] + n))
        nxt[0] += n
        ninserted[0] += n
        return v

    def inserts(kind, n):
        if kind == "one-rank-explicit":
            d = rng.randrange(R)
            for x in items(n):
                ops.append(f"t {rng.randrange(R)} {x} {d}")
        elif kind == "one-rank-vector":
            d, src = rng.randrange(R), rng.randrange(R)
            ops.append(f"v {src} {d} " + (",".join(map(str, items(n))) or "-"))
        elif kind == "rr-one-source":
            src = rng.randrange(R)
            for x in items(n):
                ops.append(f"i {src} {x}")
        elif kind == "rr-all-sources":
            for x in items(n):
                ops.append(f"i {rng.randrange(R)} {x}")
        elif kind == "subset":
            dests = rng.sample(range(R), max(1, R // 2))
            for x in items(n):
                ops.append(f"t {rng.randrange(R)} {x} {rng.choice(dests)}")
        else:   # mixed
            for _ in range(max(1, n // 2)):
                k = rng.random()
                if k < 0.4:
                    ops.append(f"i {rng.randrange(R)} {items(1)[0]}")
                elif k < 0.7:
                    ops.append(f"t {rng.randrange(R)} {items(1)[0]} {rng.randrange(R)}")
                else:
                    ops.append(f"v {rng.randrange(R)} {rng.randrange(R)} " + (",".join(map(str, items(rng.randrange(0, 4)))) or "-"))

    kind, n = placement
    inserts(kind, n)
    ops += ["B", "D"]
    nops = rng.randrange(2, 7)
    cur = 0
    for _ in range(nops):
        k = rng.random()
        if k < 0.34:
            ops += ["R", "D"]
        elif k < 0.46:
            ops += [f"L {rng.randrange(1, 1000)}", "D"]
        elif k < 0.60:
            ops += [f"G {rng.randrange(1, 1000)}", "B", "D"]
        elif k < 0.72:
            inserts(rng.choice(["rr-all-sources", "mixed", "one-rank-vector", "rr-one-source"]), rng.randrange(0, 2 * R + 2))
            ops += ["B", "D"]
        elif k < 0.78:
            ops += ["S", "D", "T 1", "D", "T 0"]
            cur = 0
        elif k < 0.86:      # go on with the other bag (two bags of one type alive, work interleaved between them)
            cur = 1 - cur
            ops += [f"T {cur}", "D"]
        elif k < 0.90:
            ops += ["c", "D"]
        elif k < 0.95:
            ops += [f"g {rng.randrange(R)}"]
        else:
            ops += ["a"]
    ops += ["R", "D", f"g {rng.randrange(R)}", "a", "z"]
    nodes, ppn = rng.choice(layouts(R))
    return {"mode": "bag", "ranks": R, "script": ";".join(ops), "nodes": nodes, "ppn": ppn, "routing": rng.choice(ROUTES),
            "buffer_kb": rng.choice([0, 0, 1, None]), "sim_seed": rng.randrange(1, 1 << 30), "policy": rng.choice(POLICIES),
            "placement": kind, "inserted": ninserted[0]}


def gen_tbag_case(rng, R):
    """two tagged bags filled to different levels, work through the returned tags, swap, more inserts / visits / erases"""
    ops = []
    st = [{"serial": [0] * R, "live": [], "dead": []} for _ in range(2)]
    cur = [0]
    nins = [0]

    def ins(r=None):
        b = st[cur[0]]
        r = (rng.randrange(R) if rng.random() < 0.7 else 0) if r is None else r
        b["live"].append((r << 40) + b["serial"][r])
        b["serial"][r] += 1
        nins[0] += 1
        ops.append(f"i {r} {rng.randrange(0, 1000)}")

    def work():
        b = st[cur[0]]
        for _ in range(rng.randrange(1, 2 * R + 2)):
            k = rng.random()
            if k < 0.5 and b["live"]:
                ops.append(f"{rng.choice('VX')} {rng.randrange(R)} {rng.choice(b['live'])} {rng.randrange(1, 50)}")
            elif k < 0.65 and b["dead"]:
                ops.append(f"X {rng.randrange(R)} {rng.choice(b['dead'])} {rng.randrange(1, 50)}")     # no effect on an erased tag
            elif k < 0.8 and b["live"]:
                t = rng.choice(b["live"])
                b["live"].remove(t); b["dead"].append(t)
                # erase and visit of one tag must not race (async_visit of a missing tag default-constructs it)
                ops.extend(["B", f"E {rng.randrange(R)} {t}", "B"])
            else:
                ops.append("B")     # a tag is visited only after the barrier that follows its insert
                ins()
                ops.append("B")
        ops.extend(["B", "D"])

    def select(n):
        cur[0] = n
        ops.append(f"T {n}")

    def fresh_gather():
        """every rank inserts and AT ONCE (no barrier / size() in between) all_gathers its fresh tag (and the previous fresh one)"""
        b = st[cur[0]]
        for _ in range(rng.randrange(1, R + 3)):      # serials advance, so sooner or later a rank owns its own fresh tag
            for r in range(R):
                b["live"].append((r << 40) + b["serial"][r])
                b["serial"][r] += 1
                nins[0] += 1
            ops.append(f"J {rng.randrange(0, 1000)}")
        ops.extend(["B", "D"])

    n0 = rng.randrange(1, 2 * R + 2)
    for _ in range(n0):
        ins()
    select(1)
    n1 = rng.choice([0, n0 + rng.randrange(1, 2 * R + 2), rng.randrange(0, 4 * R + 2)])
    for _ in range(n1):
        ins()
    ops.extend(["B", "D"])
    select(0)
    ops.append("D")
    if rng.random() < 0.7:
        fresh_gather()
    work()
    for _ in range(rng.randrange(1, 3)):
        ops.append("S")
        st[0], st[1] = st[1], st[0]
        for n in rng.sample([0, 1], 2):
            select(n)
            ops.append("D")
            for _ in range(rng.randrange(1, R + 3)):      # new inserts: their tags must avoid every live tag of the swapped-in contents
                ins()
            ops.extend(["B", "D"])
            if rng.random() < 0.4:
                fresh_gather()
            work()
    for n in (0, 1):
        select(n)
        b = st[n]
        pool = b["live"] + b["dead"]
        if pool:
            ops.append("g " + ",".join(map(str, rng.sample(pool, min(len(pool), rng.randrange(1, 6))))))
        ops.append("z")
    nodes, ppn = rng.choice(layouts(R))
    return {"mode": "tbag", "ranks": R, "script": ";".join(ops), "nodes": nodes, "ppn": ppn, "routing": rng.choice(ROUTES),
            "buffer_kb": rng.choice([0, 0, 1, None]), "sim_seed": rng.randrange(1, 1 << 30), "policy": rng.choice(POLICIES),
            "placement": "tbag", "inserted": nins[0]}


# --------------------------------------------------------------------------- running

def run_real(binary, case, sim_seed=None, policy=None):
    env = {"YGM_COMM_ROUTING": case["routing"]}
    if case["buffer_kb"] is not None:
        env["YGM_COMM_BUFFER_SIZE_KB"] = case["buffer_kb"]
    for key, var in (("issend_freq", "YGM_COMM_ISSEND_FREQ"), ("num_irecvs", "YGM_COMM_NUM_IRECVS"), ("isends_wait", "YGM_COMM_NUM_ISENDS_WAIT"),
                     ("placement_nodes", "SIMMPI_PLACEMENT")):
        if case.get(key) is not None:
            env[var] = case[key]
    args = [case["mode"], case["script"]]
    sub = case.get("sub")
    if sub:      # the same scenario code first (or afterwards) on a sub-communicator of another size, in the same process
        args = ["sub", sub["split"], sub["order"], len(sub["scen"])]
        for size, script in sorted(sub["scen"].items(), key=lambda kv: int(kv[0])):
            args += [size, f"{case['mode']}|{script}"]
        args.append(f"{case['mode']}|{case['script']}")
    return C.run_sim(binary, args, nodes=case["nodes"], ppn=case["ppn"], env=env,
                     sim_seed=sim_seed or case["sim_seed"], policy=policy or case["policy"], want_log=False, timeout=120)


KNOBS = ("issend_freq", "num_irecvs", "isends_wait", "placement_nodes", "oracle_only")


def env_knobs(case, k):
    """environment dimension, rotated over the cases (deterministic in the case index k, recorded in the case):
    YGM_COMM_ISSEND_FREQ / NUM_IRECVS / NUM_ISENDS_WAIT (None = library default 8 / 8 / 4) and cyclic placement of ranks on nodes"""
    case["issend_freq"] = [None, 0, 1, 8][k % 4]
    case["num_irecvs"] = [None, 1, 2, 8][(k // 2) % 4]
    case["isends_wait"] = [None, 0, 1, 4][(k // 3) % 4]
    # cyclic placement only where the block arithmetic of the sub-communicator splits is not needed
    case["placement_nodes"] = "cyclic" if (case["nodes"] > 1 and case["ppn"] > 1 and not case.get("sub") and k % 3 == 0) else None


class Sec:
    """the part of a run's output that belongs to one communicator"""

    def __init__(self, sr, outs):
        self.verdict, self.stderr, self.blocked, self.outs = sr.verdict, sr.stderr, sr.blocked, outs


def sub_groups(split, R):
    """colour -> world ranks of that group (MPI_Comm_split with key = world rank)"""
    g = {}
    for r in range(R):
        c = r % 2 if split == "parity" else ((r // int(split[7:])) % 2 if split.startswith("bynode:") else (0 if r < R - 1 else 1))
        g.setdefault(c, []).append(r)
    return g


def add_sub(case, k, gen_script):
    """deterministically give a quarter of the multi-rank cases the two-communicator dimension; gen_script(size) -> script for a
    communicator of that size"""
    R = case["ranks"]
    if R < 2 or k % 4 != 3:
        return
    # ygm::layout assumes the same number of ranks on every node: only splits that keep the sub-communicator's layout uniform
    nodes, ppn = case["nodes"], case["ppn"]
    options = (["parity", "droplast"] if (nodes == 1 or ppn == 1) else (["parity"] if ppn % 2 == 0 else [])) + ([f"bynode:{ppn}"] if nodes >= 2 else [])
    split = options[(k // 4) % len(options)]
    sizes = sorted({len(v) for v in sub_groups(split, R).values()})
    # every group runs the SAME scenario (written for the smallest group; ranks it names that a group lacks... do not occur, larger groups
    # just have ranks that issue nothing): ygm_ptr hands out per-process indices and checks them collectively, so all ranks of the
    # process set must construct the same number of containers before the world run
    unit = gen_script(sizes[0])
    case["sub"] = {"split": split, "order": "sub-first" if (k // 8) % 3 != 2 else "world-first",
                   "scen": {str(z): unit for z in sizes}}


def sections(case, sr):
    """[(label, unit case, Sec)]: the world run and, with the two-communicator dimension, one entry per sub-communicator"""
    R = case["ranks"]
    sub = case.get("sub")
    if not sub:
        return [("world", case, Sec(sr, sr.outs))]
    world, subs = {}, {}
    for r in range(R):
        cur = None
        for l in sr.outs.get(r, []):
            if l.startswith("@sub "):
                _, c, srank, _ = l.split()
                cur = subs.setdefault(int(c), {}).setdefault(int(srank), [])
            elif l == "@world":
                cur = world.setdefault(r, [])
            elif cur is not None:
                cur.append(l)
    res = [("world", case, Sec(sr, world))]
    for c, ranks in sorted(sub_groups(sub["split"], R).items()):
        unit = dict(case, ranks=len(ranks), script=sub["scen"][str(len(ranks))])
        res.append((f"sub-communicator colour {c} ({len(ranks)} of {R} ranks, {sub['split']}, {sub['order']})", unit, Sec(sr, subs.get(c, {}))))
    return res


def gen_string(n, seed):
    """the harness' string of length n for this seed (splitmix64) and its FNV-1a hash"""
    st = seed & M64
    h = 1469598103934665603
    for _ in range(n):
        st = (st + 0x9e3779b97f4a7c15) & M64
        z = st
        z = ((z ^ (z >> 30)) * 0xbf58476d1ce4e5b9) & M64
        z = ((z ^ (z >> 27)) * 0x94d049bb133111eb) & M64
        z ^= z >> 31
        h = ((h ^ (33 + z % 90)) * 1099511628211) & M64
    return h


def evaluate_sbag(case, sr):
    """bag<std::string>: oracle only — every rank's gather_to_vector() holds exactly the inserted strings (length and content hash)"""
    cid = cid_of(case)
    if sr.verdict != "ok":
        return [{"what": f"real bag<string> run failed ({sr.verdict})", "signature": "sbag-run-failed " + sr.verdict.split(":")[0],
                 "case": dict(cid, verdict=sr.verdict, stderr=sr.stderr[-300:])}]
    R = case["ranks"]
    want = sorted(f"{f[2]}:{gen_string(int(f[2]), int(f[3]))}" for f in (op.split() for op in case["script"].split(";")) if f[0] == "i" and int(f[1]) < R)
    of = []
    for r in range(R):
        lines = [l.split()[1:] for l in sr.outs.get(r, []) if l.startswith("sgather")]
        if not lines or sorted(lines[-1]) != want:
            of.append({"what": f"rank {r}: gather_to_vector() of the bag<string> returned {len(lines[-1]) if lines else None} strings "
                               f"{[x.split(':')[0] for x in (lines[-1] if lines else [])][:8]}, inserted lengths {[x.split(':')[0] for x in want][:8]}",
                       "signature": "sbag-items-not-conserved", "case": dict(cid, rank=r)})
            break
    return of


def judge(case, sr, model_ok=True, world_tb_model=None):
    """evaluate every communicator's part of the run: (oracle failures, correspondence failures, notes)"""
    of, cf, notes = [], [], []
    cid = cid_of(case)
    for label, unit, sec in sections(case, sr):
        if unit["mode"] == "sbag":
            o, c, n = evaluate_sbag(unit, sec), [], []
        elif unit["mode"] == "bag":
            o, c, n = evaluate_bag(unit, sec, model_ok and not unit.get("oracle_only"))
        else:
            mo = world_tb_model if label == "world" and world_tb_model is not None else (C.model("bag", [model_line_tbag(unit)])[0] if model_ok else None)
            o, c = evaluate_tbag(unit, sec, mo)
            n = []
        if label != "world":
            for f in o + c:
                f["what"] = f"[{label}] " + f["what"]
                f["case"] = dict(cid, failed_in=label, detail={kk: vv for kk, vv in (f.get("case") or {}).items() if kk not in cid})
        of += o; cf += c; notes += n
        if sr.verdict != "ok":
            break
    return of, cf, notes


def cid_of(case):
    cid = {k: case[k] for k in ("mode", "ranks", "script", "nodes", "ppn", "routing", "buffer_kb", "sim_seed", "policy")}
    if case.get("sub"):
        cid["sub"] = case["sub"]
    for key in KNOBS:
        if case.get(key) is not None:
            cid[key] = case[key]
    return cid


def fmt_bags(bags):
    return "/".join(",".join(map(str, b)) if b else "-" for b in bags)


class Cursor:
    """per-rank output lines consumed in script order"""

    def __init__(self, sr, R):
        self.lines = [list(sr.outs.get(r, [])) for r in range(R)]
        self.pos = [0] * R
        self.R = R

    def take(self, prefix):
        """next line with this prefix on every rank (None when a rank has none)"""
        res = []
        for r in range(self.R):
            while self.pos[r] < len(self.lines[r]) and not self.lines[r][self.pos[r]].startswith(prefix + " ") and self.lines[r][self.pos[r]] != prefix:
                self.pos[r] += 1
            if self.pos[r] >= len(self.lines[r]):
                return None
            res.append(self.lines[r][self.pos[r]].split()[1:])
            self.pos[r] += 1
        return res

    def block(self, begin, end):
        """the lines between the next `begin` and `end` markers, per rank"""
        res = []
        for r in range(self.R):
            L = self.lines[r]
            while self.pos[r] < len(L) and L[self.pos[r]] != begin:
                self.pos[r] += 1
            if self.pos[r] >= len(L):
                return None
            self.pos[r] += 1
            blk = []
            while self.pos[r] < len(L) and L[self.pos[r]] != end:
                blk.append(L[self.pos[r]])
                self.pos[r] += 1
            if self.pos[r] >= len(L):
                return None
            self.pos[r] += 1
            res.append(blk)
        return res


def fmt_obs(blocks):
    """what every rank saw during a rebalance / global_shuffle: its vector after each message it executed"""
    per = []
    for blk in blocks:
        snaps = [l.split()[1:] for l in blk if l.startswith("snap")]
        per.append(";".join(",".join(sn) for sn in snaps) if snaps else "-")
    return "/".join(per)


def analyse_bag(case, sr):
    """walk the script along the real outputs.  Returns (oracle failures, model tokens, real outputs in model order).
    A token ("R", obs) is a rebalance whose to_send iteration orders are still to be chosen."""
    R = case["ranks"]
    cid = cid_of(case)
    of = []
    cur = 0
    expected = [[], []]            # multiset (as list) each bag must hold
    pending = [[], []]
    prev_dump = [None, None]       # last per-rank vectors of each bag
    toks, real = [], []
    cu = Cursor(sr, R)
    script = case["script"].split(";")
    after = None                   # what the next dump has to satisfy: ("R", total) | ("L", previous vectors)

    def fail(what, sig, **kw):
        of.append({"what": what, "signature": sig, "case": dict(cid, **kw)})

    for k, op in enumerate(script):
        f = op.split()
        c = f[0]
        if c == "i":
            pending[cur].append(int(f[2])); toks.append(f"i:{f[1]}:{f[2]}")
        elif c == "t":
            pending[cur].append(int(f[2])); toks.append(f"t:{f[1]}:{f[2]}:{f[3]}")
        elif c == "v":
            xs = [] if f[3] == "-" else [int(x) for x in f[3].split(",")]
            pending[cur] += xs; toks.append(f"v:{f[1]}:{f[2]}:{f[3]}")
        elif c == "W":
            xs = list(range(int(f[4]), int(f[4]) + int(f[3])))
            pending[cur] += xs; toks.append(f"v:{f[1]}:{f[2]}:" + (",".join(map(str, xs)) or "-"))
        elif c == "T":
            cur = int(f[1]); toks.append(f"T:{cur}")
        elif c == "B":
            expected[cur] += pending[cur]; pending[cur] = []
            toks.append(("B",))          # execution order of the pending inserts: read off the dump that follows
        elif c == "R":
            blk = cu.block("rebalance-begin", "rebalance-end")
            if blk is None:
                fail("rebalance markers missing", "bag-output-missing"); return of, None, None
            toks.append(("R", fmt_obs(blk))); after = ("R", len(expected[cur]))
        elif c == "L":
            toks.append(("L",)); after = ("L", prev_dump[cur])
        elif c == "G":
            blk = cu.block("gshuffle-begin", "gshuffle-end")
            if blk is None:
                fail("global_shuffle markers missing", "bag-output-missing"); return of, None, None
            gd = [next((l.split()[1:] for l in b if l.startswith("gdest")), []) for b in blk]
            if any(int(d) < 0 or int(d) >= R for g in gd for d in g):
                fail("global_shuffle drew a rank outside the communicator", "bag-shuffle-dest-range", gdest=gd)
            toks.append("G:" + "/".join(",".join(g) if g else "-" for g in gd) + ":" + fmt_obs(blk))
        elif c == "S":
            expected[0], expected[1] = expected[1], expected[0]
            prev_dump[0], prev_dump[1] = prev_dump[1], prev_dump[0]
            toks.append("S")
        elif c == "c":
            expected[cur] = []; toks.append("c")
        elif c == "D":
            bag = cu.take("bag")
            ls = cu.take("lsize")
            if bag is None or ls is None:
                fail("dump missing", "bag-output-missing"); return of, None, None
            vec = [[int(x) for x in b] for b in bag]
            if [len(v) for v in vec] != [int(x[0]) for x in ls]:
                fail("local_size() differs from the number of items local_for_all presents", "bag-local-size", vectors=vec, lsize=ls)
            allitems = sorted(x for v in vec for x in v)
            if allitems != sorted(expected[cur]):
                lost = sorted(set(expected[cur]) - set(allitems)); extra = [x for x in allitems if allitems.count(x) > expected[cur].count(x)]
                fail(f"multiset over all ranks differs from the multiset inserted (lost {lost[:6]}, extra {sorted(set(extra))[:6]})",
                     "bag-items-not-conserved", op=k, vectors=vec)
            if after and after[0] == "R":
                if [len(v) for v in vec] != block_sizes(after[1], R):
                    fail(f"after rebalance the local sizes {[len(v) for v in vec]} are not the block sizes {block_sizes(after[1], R)} of an array of length {after[1]}",
                         "bag-rebalance-sizes", vectors=vec)
            if after and after[0] == "L" and after[1] is not None:
                if [sorted(v) for v in vec] != [sorted(v) for v in after[1]]:
                    fail("local_shuffle changed what a rank holds", "bag-local-shuffle-moved", before=after[1], vectors=vec)
            after = None
            prev_dump[cur] = vec
            # parameters of the operations this dump follows
            for j in range(len(toks) - 1, -1, -1):
                t = toks[j]
                if isinstance(t, tuple):
                    if t[0] == "B":
                        toks[j] = "B:@" + fmt_bags(vec)
                    elif t[0] == "L":
                        toks[j] = " ".join(f"L:{r}:" + (",".join(map(str, vec[r])) or "-") for r in range(R))
                    continue
                if t == "D" or t.startswith(("g:", "a:")):
                    break
            toks.append("D"); real.append("|".join(" ".join(map(str, v)) for v in vec))
        elif c == "g":
            g = cu.take("gather")
            if g is None:
                fail("gather output missing", "bag-output-missing"); return of, None, None
            d = int(f[1])
            got = [[int(x) for x in v] for v in g]
            if sorted(got[d]) != sorted(expected[cur]):
                fail(f"gather_to_vector({d}) does not return the multiset of the bag", "bag-gather", got=got)
            if any(got[r] for r in range(R) if r != d):
                fail(f"gather_to_vector({d}) returned items on another rank", "bag-gather-elsewhere", got=got)
            toks.append(f"g:{d}:@" + (",".join(map(str, got[d])) or "-")); real.append("|".join(" ".join(map(str, v)) for v in got))
        elif c == "a":
            g = cu.take("gatherall")
            if g is None:
                fail("gather output missing", "bag-output-missing"); return of, None, None
            got = [[int(x) for x in v] for v in g]
            if any(v != got[0] for v in got):
                fail("gather_to_vector() returned different vectors on different ranks", "bag-gatherall-differs", got=got)
            if sorted(got[0]) != sorted(expected[cur]):
                fail("gather_to_vector() does not return the multiset of the bag", "bag-gatherall", got=got)
            toks.append("a:@" + (",".join(map(str, got[0])) or "-")); real.append("|".join(" ".join(map(str, v)) for v in got))
        elif c == "z":
            z = cu.take("size")
            if z is None:
                fail("size output missing", "bag-output-missing"); return of, None, None
            if any(int(x[0]) != len(expected[cur]) for x in z):
                fail(f"size() = {[x[0] for x in z]} but {len(expected[cur])} items were inserted", "bag-size", got=z)
    # a barrier / local_shuffle not followed by a dump keeps default parameters
    toks = ["B:-" if (isinstance(t, tuple) and t[0] == "B") else t for t in toks]
    toks = [t for t in toks if not (isinstance(t, tuple) and t[0] == "L")]
    return of, toks, real


def model_lines_bag(case, toks, ords_choice):
    """ords_choice: per rebalance 'desc' | 'asc' | explicit lists 'a,b/c/-' (iteration order of every rank's to_send)"""
    out, k = [], 0
    for t in toks:
        if isinstance(t, tuple) and t[0] == "R":
            out.append(f"R:{ords_choice[k]}:{t[1]}")
            k += 1
        elif isinstance(t, tuple):
            out.append(t[0])      # 'K'
        else:
            out.append(t)
    return f"{case['ranks']} | " + " ".join(out)


def compare_bag(case, toks, real, res_model):
    """returns index of the first differing dump or None"""
    md = res_model.split(" # ") if res_model else []
    if len(md) != len(real):
        return 0
    R = case["ranks"]
    for d, (m, r) in enumerate(zip(md, real)):
        mm = [x.strip() for x in m.split("|")] + [""] * R
        rr = [x.strip() for x in r.split("|")] + [""] * R
        if mm[:R] != rr[:R]:
            return d
    return None


def total_at_rebalance(case, n):
    """number of items the current bag holds when the n-th (from 0) rebalance of the script starts"""
    cnt, pend, cur, seen = [0, 0], [0, 0], 0, 0
    for op in case["script"].split(";"):
        f = op.split()
        if f[0] in ("i", "t"):
            pend[cur] += 1
        elif f[0] == "v":
            pend[cur] += 0 if f[3] == "-" else len(f[3].split(","))
        elif f[0] == "W":
            pend[cur] += int(f[3])
        elif f[0] == "B":
            cnt[0] += pend[0]; cnt[1] += pend[1]; pend = [0, 0]
        elif f[0] == "T":
            cur = int(f[1])
        elif f[0] == "S":
            cnt = [cnt[1], cnt[0]]
        elif f[0] == "c":
            cnt[cur] = 0
        elif f[0] == "R":
            if seen == n:
                return cnt[cur] + pend[cur]
            seen += 1
    return None


def trap_signature(case, sr):
    """which operation a failed run died in"""
    R = case["ranks"]
    outs = [sr.outs.get(r, []) for r in range(R)]
    in_reb = [o.count("rebalance-begin") for o in outs if o.count("rebalance-begin") > o.count("rebalance-end")]
    if not in_reb:
        return "bag-run-failed " + sr.verdict.split(":")[0], None
    tot = total_at_rebalance(case, min(in_reb) - 1)
    if tot is not None and 0 < tot < R:
        return "bag-rebalance-trap total<ranks", tot
    return "bag-rebalance-trap", tot


def model_line_tbag(case):
    R = case["ranks"]
    toks = []
    serial = [[0] * R, [0] * R]      # predicted counters of the two bags (exchanged by swap)
    mine = [[[] for _ in range(R)], [[] for _ in range(R)]]     # per harness slot: the fresh tags of the J steps, per rank
    cur = 0
    for op in case["script"].split(";"):
        f = op.split()
        if f[0] == "i":
            toks.append(f"i:{f[1]}:{f[2]}"); serial[cur][int(f[1])] += 1
        elif f[0] in ("V", "X"): toks.append(f"V:{f[2]}:{f[3]}")
        elif f[0] == "E": toks.append(f"E:{f[2]}")
        elif f[0] == "D": toks.append("D")
        elif f[0] == "g": toks.append("g:" + f[1])
        elif f[0] == "T":
            cur = int(f[1]); toks.append("T:" + f[1])
        elif f[0] == "S":
            serial[0], serial[1] = serial[1], serial[0]; toks.append("S")
        elif f[0] == "J":
            qs = []
            for r in range(R):
                t = (r << 40) + serial[cur][r]; serial[cur][r] += 1
                toks.append(f"i:{r}:{(int(f[1]) + r) & M64}")
                qs.append([t] + mine[cur][r][-1:]); mine[cur][r].append(t)
            toks += ["g:" + ",".join(map(str, q)) for q in qs]
    return f"tb {R} | " + " ".join(toks)


def evaluate_tbag(case, sr, mo):
    """walk the script along the real outputs of the two tagged bags.
    Oracle (the property's own clauses, on the REAL tags): an insert never returns the tag of a live item of that bag; after every
    barrier each bag holds exactly the live items, each under the tag its insert returned, on the rank owner(tag) names;
    a visit / erase through a tag touches exactly that item; all_gather and size agree.  swap exchanges the two bags."""
    of, cf = [], []
    R = case["ranks"]
    cid = cid_of(case)
    if sr.verdict != "ok":
        of.append({"what": f"real tagged_bag run failed: {sr.verdict}", "signature": "tbag-run-failed " + sr.verdict.split(":")[0],
                   "case": dict(cid, verdict=sr.verdict, stderr=sr.stderr[-400:])})
        return of, cf
    cu = Cursor(sr, R)
    tagpos = [0] * R
    taglines = [[int(l.split()[1]) for l in sr.outs.get(r, []) if l.startswith("tag ")] for r in range(R)]
    # per bag: expected live items keyed by the REAL tag, predicted counters, predicted tag -> real tag
    bags = [{"live": {}, "serial": [0] * R, "p2r": {}} for _ in range(2)]
    cur = 0
    real_tags, real_dumps, real_gets = [], [], []
    seen = set()
    mine = [[[] for _ in range(R)], [[] for _ in range(R)]]     # per harness slot (not exchanged by swap): fresh tags of the J steps

    def fail(what, sig, **kw):
        if sig not in seen:
            seen.add(sig)
            of.append({"what": what, "signature": sig, "case": dict(cid, **kw)})

    for k, op in enumerate(case["script"].split(";")):
        f = op.split()
        b = bags[cur]
        if f[0] == "T":
            cur = int(f[1])
        elif f[0] == "S":
            bags[0], bags[1] = bags[1], bags[0]
        elif f[0] == "i":
            r = int(f[1])
            pred = (r << 40) + b["serial"][r]
            b["serial"][r] += 1
            if tagpos[r] >= len(taglines[r]):
                fail("an insert printed no tag", "tbag-output-missing"); return of, cf
            t = taglines[r][tagpos[r]]; tagpos[r] += 1
            real_tags.append(t)
            if t in b["live"]:
                fail(f"insert #{len(real_tags) - 1} (op {k}, rank {r}) returned tag {t}, which a live item of the same bag already has: tags are not unique",
                     "tbag-tag-duplicate", tag=t, op=k)
            b["live"][t] = int(f[2])
            b["p2r"][pred] = t
        elif f[0] == "J":
            qs = []
            for r in range(R):
                pred = (r << 40) + b["serial"][r]
                b["serial"][r] += 1
                if tagpos[r] >= len(taglines[r]):
                    fail("an insert printed no tag", "tbag-output-missing"); return of, cf
                t = taglines[r][tagpos[r]]; tagpos[r] += 1
                real_tags.append(t)
                if t in b["live"]:
                    fail(f"insert at op {k} (rank {r}) returned tag {t}, which a live item of the same bag already has", "tbag-tag-duplicate", tag=t, op=k)
                b["live"][t] = (int(f[1]) + r) & M64
                b["p2r"][pred] = t
                qs.append([t] + mine[cur][r][-1:]); mine[cur][r].append(t)
            g = cu.take("jgather")
            if g is None:
                fail("all_gather output missing", "tbag-output-missing"); return of, cf
            for r in range(R):
                want = [f"{t}:{b['live'][t]}" for t in sorted(set(qs[r])) if t in b["live"]]
                if g[r] != want:
                    fail(f"op {k}: rank {r} inserted an item and at once gathered its tag: all_gather({qs[r]}) returned {g[r]}, expected {want}",
                         "tbag-allgather-after-insert", op=k, rank=r)
                real_gets.append(("get " + " ".join(g[r])).strip())
        elif f[0] in ("V", "X"):
            t = b["p2r"].get(int(f[2]), int(f[2]))
            if t in b["live"]:
                b["live"][t] = (b["live"][t] + int(f[3])) & M64
        elif f[0] == "E":
            t = b["p2r"].get(int(f[2]), int(f[2]))
            b["live"].pop(t, None)
        elif f[0] == "D":
            d = cu.take("tbag")
            if d is None:
                fail("dump missing", "tbag-output-missing"); return of, cf
            got = {}
            for r in range(R):
                for tok in d[r]:
                    t, v, o = (int(x) for x in tok.split(":"))
                    if t in got:
                        fail(f"tag {t} is stored twice", "tbag-stored-twice", op=k)
                    if o != r:
                        fail(f"tag {t} presented by rank {r} but owner() says {o}", "tbag-owner", op=k)
                    got[t] = v
            if got != b["live"]:
                lost = sorted(set(b["live"]) - set(got)); wrong = sorted(t for t in got if t in b["live"] and got[t] != b["live"][t])
                fail(f"dump at op {k}: items reachable through their tags differ from the live items (missing tags {lost[:5]}, wrong values at {wrong[:5]}, "
                     f"unexpected {sorted(set(got) - set(b['live']))[:5]})", "tbag-contents", op=k, got=sorted(got.items())[:10], want=sorted(b["live"].items())[:10])
            real_dumps.append("store " + " ".join(f"{t}:{v}" for t, v in sorted(got.items())))
        elif f[0] == "g":
            g = cu.take("allgather")
            if g is None:
                fail("all_gather output missing", "tbag-output-missing"); return of, cf
            if any(x != g[0] for x in g):
                fail("all_gather differs between ranks", "tbag-allgather-differs", got=g)
            q = sorted(set(b["p2r"].get(int(x), int(x)) for x in f[1].split(",")))
            want = [f"{t}:{b['live'][t]}" for t in q if t in b["live"]]
            if g[0] != want:
                fail(f"all_gather returned {g[0]}, expected {want}", "tbag-allgather", op=k)
            real_gets.append(("get " + " ".join(g[0])).strip())
        elif f[0] == "z":
            z = cu.take("size")
            if z is None:
                fail("size output missing", "tbag-output-missing"); return of, cf
            if any(int(x[0]) != len(b["live"]) for x in z):
                fail(f"size() = {[x[0] for x in z]} but {len(b['live'])} items are live", "tbag-size", op=k)
    if mo is not None:
        parts = [p.strip() for p in mo.split(" # ")]
        mtags = [int(p.split()[1]) for p in parts if p.startswith("tag ")]
        if mtags != real_tags:
            bad = next((i for i, (a, c) in enumerate(zip(mtags, real_tags)) if a != c), min(len(mtags), len(real_tags)))
            cf.append({"relation": "BagOps.tag rank serial (counters exchanged by swap) == tag returned by tagged_bag::async_insert",
                       "what": f"insert #{bad}: model {mtags[bad] if bad < len(mtags) else None} real {real_tags[bad] if bad < len(real_tags) else None}", "case": cid})
        ms = [p for p in parts if p.startswith("store")]
        if [x.strip() for x in real_dumps] != ms:
            bad = next((i for i, (a, c) in enumerate(zip(ms, real_dumps)) if a != c.strip()), 0)
            cf.append({"relation": "BagOps.TBag store == contents of tagged_bag after each barrier",
                       "what": f"dump #{bad}: real [{real_dumps[bad][:120] if bad < len(real_dumps) else None}] model [{ms[bad][:120] if bad < len(ms) else None}]", "case": cid})
        mg = [p for p in parts if p.startswith("get")]
        if real_gets != mg:
            cf.append({"relation": "BagOps.TBag.get == all_gather", "what": f"real {real_gets} model {mg}", "case": cid})
    return of, cf


def evaluate_bag(case, sr, model_ok=True):
    """returns (oracle failures, correspondence failures, notes)"""
    cf, notes = [], []
    cid = cid_of(case)
    if sr.verdict != "ok":
        sig, tot = trap_signature(case, sr)
        what = f"real bag run failed ({sr.verdict})"
        if sig.startswith("bag-rebalance-trap"):
            what = f"rebalance() of {tot} items on {case['ranks']} ranks died ({sr.verdict})"
        return [{"what": what, "signature": sig, "case": dict(cid, verdict=sr.verdict, total=tot, stderr=sr.stderr[-300:])}], cf, notes
    of, toks, real = analyse_bag(case, sr)
    if toks is None or not model_ok:
        return of, cf, notes
    nreb = sum(1 for t in toks if isinstance(t, tuple) and t[0] == "R")
    if any(early_arrival(t[1]) for t in toks if isinstance(t, tuple) and t[0] == "R"):
        notes.append("rebalance:arrival-before-pop-observed")
    if any(early_arrival(t.split(":")[2]) for t in toks if isinstance(t, str) and t.startswith("G:")):
        notes.append("gshuffle:arrival-before-swap-out-observed")
    mo, bad = None, 0
    # iteration order of to_send: descending (libstdc++ for few keys), ascending, then searched
    for ords in ((["desc"] * nreb, ["asc"] * nreb) if nreb else ([],)):
        mo = C.model("bag", [model_lines_bag(case, toks, ords)])[0]
        bad = compare_bag(case, toks, real, mo)
        if bad is None:
            break
    if bad is not None and nreb:
        ords, mo, bad = search_ords(case, toks, real, nreb)
        if bad is None:
            notes.append("rebalance:to_send-order-searched")
    if bad is not None:
        md = (mo or "").split(" # ")
        cf.append({"relation": "BagOps.step (schedule parameters read off the real run) == every rank's m_local_bag / gather result",
                   "what": f"output #{bad}: real [{real[bad][:160] if bad < len(real) else None}] model [{md[bad][:160] if bad < len(md) else mo[:160]}]",
                   "case": dict(cid, output=bad)})
    return of, cf, notes


def early_arrival(obs):
    """did some rank see a message before it had finished popping (its vector shrank afterwards)?"""
    for per in obs.split("/"):
        snaps = [] if per == "-" else [x.split(",") for x in per.split(";")]
        for a, b in zip(snaps, snaps[1:]):
            if b[:len(a)] != a:
                return True
    return False


def search_ords(case, toks, real, nreb, budget=300):
    """try explicit iteration orders for the to_send maps, one rebalance after the other"""
    choice = ["desc"] * nreb
    R = case["ranks"]
    for k in range(nreb):
        ktoks, seen = [], 0
        for t in toks:
            if isinstance(t, tuple) and t[0] == "R":
                if seen == k:
                    ktoks.append(("K",))
                seen += 1
            ktoks.append(t)
        ans = C.model("bag", [model_lines_bag(case, ktoks, choice)])[0].split(" # ")
        kline = next((a for a in ans if "=" in a), None)
        if kline is None:
            continue
        per_rank = [[kv.split("=")[0] for kv in x.split()] for x in kline.split("|")]
        per_rank += [[]] * (R - len(per_rank))
        options = [list(itertools.permutations(p)) if len(p) <= 4 else [tuple(reversed(p)), tuple(p)] for p in per_rank[:R]]
        tried, best = 0, None
        for combo in itertools.product(*options):
            tried += 1
            if tried > budget:
                break
            choice[k] = "/".join(",".join(p) if p else "-" for p in combo)
            mo = C.model("bag", [model_lines_bag(case, toks, choice)])[0]
            bad = compare_bag(case, toks, real, mo)
            if bad is None:
                return choice, mo, None
            if best is None or bad > best[0]:
                best = (bad, choice[k])
        if best:
            choice[k] = best[1]
    mo = C.model("bag", [model_lines_bag(case, toks, choice)])[0]
    return choice, mo, compare_bag(case, toks, real, mo)


DIRECTED = [
    # fewer items than ranks (D4): 2 items on 4 ranks, then rebalance
    {"mode": "bag", "ranks": 4, "script": "i 0 1;i 0 2;B;D;R;D", "nodes": 1, "ppn": 4, "routing": "NONE", "buffer_kb": None,
     "sim_seed": 1, "policy": "uniform", "placement": "fewer-than-ranks", "inserted": 2},
    {"mode": "bag", "ranks": 3, "script": "t 1 5 2;B;D;R;D;g 0;a;z", "nodes": 1, "ppn": 3, "routing": "NR", "buffer_kb": 0,
     "sim_seed": 2, "policy": "uniform", "placement": "fewer-than-ranks", "inserted": 1},
    {"mode": "bag", "ranks": 4, "script": "B;D;R;D;a;z", "nodes": 2, "ppn": 2, "routing": "NLNR", "buffer_kb": 0,
     "sim_seed": 3, "policy": "uniform", "placement": "none", "inserted": 0},
]


def directed_sizes(tier):
    """serialized vectors and strings of special lengths: rebalance's per-destination vectors, gather_to_vector's local vector,
    async_insert(vector), string items — exactly 254 / 255 / 256 (thorough: 65535 / 65536) elements"""
    base = {"nodes": 1, "routing": "NONE", "buffer_kb": None, "sim_seed": 5, "policy": "uniform", "placement": "special-size"}
    out = []
    for n in (254, 255, 256) + ((65535, 65536) if tier != "quick" else ()):
        big = n > 1000
        # 4 ranks, 4n items on rank 0: rebalance ships exactly n to each other rank; afterwards every local vector has n items (gathers)
        out.append(dict(base, mode="bag", ranks=4, ppn=4, script=f"W 0 0 {4 * n} 1;B;D;R;D;g 1;a;z", inserted=4 * n, oracle_only=big))
        # 2 ranks: a vector insert of exactly n items to the other rank, gather of an n-item local vector
        out.append(dict(base, mode="bag", ranks=2, ppn=2, routing="NR", buffer_kb=(0 if not big else None), script=f"W 0 1 {n} 1;B;D;g 0;a;z", inserted=n, oracle_only=big))
        # string items of length n-1, n, n+1... as items of a bag<std::string>, rebalanced and gathered to all
        out.append(dict(base, mode="sbag", ranks=2, ppn=2, script=f"i 0 {n} 7;i 1 {max(n - 1, 0)} 8;i 0 {n + 1} 9;i 1 3 1;i 0 {n} 11;B;R;a", inserted=5))
        out.append(dict(base, mode="sbag", ranks=3, ppn=3, routing="NLNR", buffer_kb=1, script=f"i 2 {n} 17;i 2 {n} 18;i 2 0 1;i 1 {n} 19;B;a;R;a", inserted=4))
    return out


def run(tier, seed, model_ok=True):
    res = C.Result()
    res.rule = RULE
    res.assumptions = ["every async is delivered exactly once to the addressed rank and executed atomically (C01/C08)",
                       "execution order of messages, iteration order of rebalance's unordered_map, std::shuffle and uniform_int_distribution outcomes are "
                       "parameters of the model; they are read off the real run (the theorems hold for all of them)",
                       "tag uniqueness: serial < 2^40, rank < 2^24; the tagged_bag's map is an association list in the model",
                       "communicator sizes beyond 8 are covered by the theorems only"]
    binary, err = C.build_harness("arrbag")
    if binary is None:
        res.corr_failures.append({"relation": "harness builds against /repo", "what": err[-800:], "case": None})
        return res
    if not model_ok:
        res.corr_failures.append({"relation": "model driver available", "what": "Lean library does not build", "case": None})
    rng = random.Random(seed * 104729 + (14 if tier == "quick" else 1400))
    per_size = 32 if tier == "quick" else 4000
    tb_per_size = 8 if tier == "quick" else 600
    cases = [dict(c) for c in DIRECTED] + directed_sizes(tier)
    for R in range(1, 9 if tier == "quick" else 13):
        placements = [("one-rank-explicit", 2 * R + 1), ("one-rank-vector", 3 * R), ("rr-one-source", 2 * R + 3), ("rr-all-sources", 3 * R + 1),
                      ("subset", 2 * R), ("mixed", 2 * R + 2), ("one-rank-explicit", max(R - 1, 0)), ("rr-one-source", max(R - 2, 1) if R > 1 else 1),
                      ("one-rank-vector", 0), ("one-rank-vector", 1), ("subset", R)]
        for k in range(per_size):
            pl = placements[k] if k < len(placements) else (rng.choice(placements)[0], rng.randrange(0, 4 * R + 2))
            case = gen_bag_case(rng, R, pl)
            rng2 = random.Random(seed * 350377 + 1000 * R + k)      # separate stream: the world scenarios stay what they were
            add_sub(case, k, lambda size, rng2=rng2, pl=pl: gen_bag_case(rng2, size, (pl[0], min(pl[1], 3 * size + 1)))["script"])
            env_knobs(case, k)
            cases.append(case)
        for k in range(tb_per_size):
            case = gen_tbag_case(rng, R)
            rng2 = random.Random(seed * 350377 + 1000 * R + 500 + k)
            add_sub(case, k, lambda size, rng2=rng2: gen_tbag_case(rng2, size)["script"])
            env_knobs(case, k + 1)
            cases.append(case)
    runs = C.pmap(lambda c: run_real(binary, c), cases)
    tb_cases = [(c, sr) for c, sr in zip(cases, runs) if c["mode"] == "tbag"]
    tb_model = C.model("bag", [model_line_tbag(c) for c, _ in tb_cases]) if (model_ok and tb_cases) else [None] * len(tb_cases)
    tb_iter = iter(tb_model)

    def ev(pair):
        c, sr = pair
        if c["mode"] in ("bag", "sbag"):
            return judge(c, sr, model_ok)
        return None

    bag_results = C.pmap(ev, list(zip(cases, runs)))
    seen_sigs = set()
    for case, sr, br in zip(cases, runs, bag_results):
        res.evaluations += 1
        of, cf, notes = br if br is not None else judge(case, sr, model_ok, world_tb_model=next(tb_iter))
        for nt in notes:
            res.count(nt)
        if cf and not of and case["mode"] == "bag" and not case.get("oracle_only"):
            for k in range(6):      # search around the disagreeing case for a failing input
                alt = dict(case, sim_seed=case["sim_seed"] + 1 + k, policy=POLICIES[k % len(POLICIES)])
                of2 = judge(alt, run_real(binary, alt), model_ok=False)[0]
                if of2:
                    of = of2
                    break
        # one replay per signature is enough; keep the smallest script
        for f in of:
            key = f["signature"]
            if key in seen_sigs:
                res.count("repeat:" + key)
                continue
            seen_sigs.add(key)
            res.oracle_failures.append(f)
        res.corr_failures += cf
        if case["inserted"] > 0:
            res.distinct.add((case["mode"], case["ranks"], hashlib.sha1(case["script"].encode()).hexdigest()[:12], case["routing"], case["buffer_kb"]))
        res.count("ranks=%d" % case["ranks"])
        res.count("mode=" + case["mode"])
        res.count("placement=" + case["placement"])
        res.count("routing=" + case["routing"])
        res.count("buffer_kb=" + str(case["buffer_kb"]))
        res.count("items", case["inserted"])
        res.count("env:issend_freq=%s" % case.get("issend_freq")); res.count("env:num_irecvs=%s" % case.get("num_irecvs"))
        res.count("env:isends_wait=%s" % case.get("isends_wait"))
        if case.get("placement_nodes"):
            res.count("placement=cyclic")
        res.count("insert-then-gather steps", sum(1 for o in case["script"].split(";") if o.split()[0] == "J"))
        if case.get("sub"):
            res.count("two-communicators:" + case["sub"]["split"].split(":")[0] + ":" + case["sub"]["order"])
        for op, name in (("R", "rebalances"), ("L", "local_shuffles"), ("G", "global_shuffles"), ("S", "swaps"), ("g", "gathers"), ("a", "gather_alls")):
            res.count(name, sum(1 for o in case["script"].split(";") if o.split()[0] == op))
        if case["mode"] == "bag" and 0 < case["inserted"] < case["ranks"]:
            res.count("fewer-items-than-ranks")
        if sr.verdict == "ok":
            res.traces_validated += 1
        if case["ranks"] == 4 and case["inserted"]:
            res.sample({"case": {k: case[k] for k in ("mode", "ranks", "routing", "buffer_kb", "nodes", "ppn")}, "script": case["script"][:300],
                        "real_rank0": sr.outs.get(0, [])[:4]}, cap=3)
    # keep the shortest script per signature first (the replay the report quotes)
    res.oracle_failures.sort(key=lambda f: (0 if "total<ranks" in f["signature"] else 1, len((f.get("case") or {}).get("script", ""))))
    from lib import swaprace
    swaprace.run(res, "bag", tier, seed)     # swap() / clear() followed at once by inserts, no barrier
    return res


def replay(data):
    """re-run the recorded case; True = the failure did not reproduce"""
    if (data.get("case") or {}).get("harness") == "swaprace":
        from lib import swaprace
        return swaprace.replay(data)
    case = data.get("case") or {}
    binary, err = C.build_harness("arrbag")
    if binary is None or "script" not in case:
        print("replay: nothing executable recorded:", data.get("no_longer_checks"))
        return False
    case = dict(case)
    case.setdefault("placement", "replay"); case.setdefault("inserted", 1)
    sr = run_real(binary, case)
    print("verdict", sr.verdict, sr.stderr[-300:])
    for r in range(case["ranks"]):
        print(r, sr.outs.get(r))
    try:
        of, cf, _ = judge(case, sr, True)
    except Exception as ex:  # noqa: BLE001
        print("model unavailable:", ex)
        of, cf, _ = judge(case, sr, False)
    for f in of + cf:
        print("FAIL", f.get("signature") or f.get("relation"), f["what"])
    return not of and not cf
