"""C04 — routing schemes deliver along their promised hop structure.
Tie: exhaustive over layouts N x p and two placements of the ranks on the nodes (block: rank r on node r / p;
round-robin: rank r on node r % N, simmpi SIMMPI_PLACEMENT=cyclic).  (1) every rank of a simmpi job prints the
layout tables and router().next_hop(d, scheme) for all d and the three schemes; compared entry by entry with the
placement-generic model YgmVerif.RouterP (and, for block, with the block-only YgmVerif.Router) run by the Lean
driver; the real next-hop tables are composed into routes and the theorem conclusions are evaluated on them (oracle).
(2) wire: with exactly one async in flight between barriers, the (sender, receiver) sequence of MPI sends on the
async communicator must be the model's `route` for every (s, d) and every scheme, and the property's clauses must
hold on the wire.  (3) aggregated traffic: all-to-all with 3 messages per (s, d) in one epoch (default and 1 KB
buffers); every physical buffer of the wire log is split into its messages by walking the routing headers and every
message is followed hop by hop: each transmission must be next_hop(sender, final destination), the hop sequence the
promised route, every message executed once."""
from lib import common as C

META = {
    "claimed": True,
    "technique": "Lean 4 proof (closed forms of NR/NLNR routes for EVERY placement whose (node_id, local_id) tables are a bijection; block and "
                 "round-robin placements proved to be instances for all N, p) + exhaustive next-hop table and wire-level route correspondence "
                 "with comm_router.hpp / layout.hpp / comm.ipp on every layout of a box under both placements",
    "text": "Theorems route_none / route_NR_shape / route_NLNR_shape / route_ends_at_dest / route_nodup / route_lt / offnode_same_local / "
            "offHops_NR / offHops_NLNR / NLNR_pairs_subset_NR / NLNR_single_pair / route_progress are proved twice: over YgmVerif.Router (block "
            "placement, div/mod arithmetic) and over YgmVerif.RouterP.Placement for every well-formed placement given by the lookup tables "
            "layout.hpp builds (block_wf, cyclic_wf: both placements are instances; block_nextHop_eq: the generic model specialises to the block "
            "one). They state that the hop iteration of next_hop gives [d] under NONE, off/on under NR (<= 2 hops), on/off/on under NLNR (<= 3 "
            "hops), ends at d, never revisits a rank, crosses nodes only between equal local ids, that NLNR uses one NR pair per ordered node "
            "pair, and that every hop gets strictly closer. The model is tied to the code by comparing the layout and next-hop tables of every "
            "rank and the isend sequence of a single in-flight async for every (s, d), scheme, layout and placement of the tier's box.",
    "note": "Trusted: Lean kernel + propext/Classical.choice/Quot.sound; the hand-written models Router.lean / RouterP.lean are tied to the code "
            "only on the enumerated layouts (quick: block N*p <= 16 with N,p <= 6, round-robin N*p <= 12 with N,p <= 5; thorough N,p <= 8 for "
            "both), placements as produced by simmpi's MPI_Comm_split_type; nodes with unequal rank counts are outside the hypothesis; a message "
            "to oneself is a one-hop route (MPI self-send), so 'never revisits' excludes s = d for the source.",
}

RULE = ("exhaustive: every layout N x p of the tier's box under block placement and every layout of the round-robin box under cyclic placement; "
        "tables: every rank, every destination, 3 schemes (+5 layout tables); wire: every (s, d) pair under each scheme with one async in flight "
        "between barriers; a case = (N, p, placement, scheme, s, d); non-trivial = s and d on different nodes; aggregated: all-to-all of 3 messages per "
        "(s, d) in one epoch on {2x3,3x2,4x2,2x4,3x3} x placement x scheme x buffer {default, 1 KB} (thorough: every layout with N,p > 1, N*p <= 24), "
        "every message followed through the physical buffers")

SCHEMES = ["NONE", "NR", "NLNR"]
NR_KINDS = [[False], [True], [True, False]]
NLNR_KINDS = [[False], [True], [False, True], [True, False], [False, True, False]]


PLACEMENTS = ["block", "cyclic"]


def layouts(tier):
    """(N, p, placement): block = rank r on node r / p; cyclic = rank r on node r % N (SIMMPI_PLACEMENT=cyclic)"""
    if tier == "quick":
        box = [(N, p) for N in range(1, 7) for p in range(1, 7) if N * p <= 16]
        cyc = [(N, p) for N in range(1, 6) for p in range(1, 6) if N * p <= 12]     # sub-box
    else:
        box = cyc = [(N, p) for N in range(1, 9) for p in range(1, 9)]
    return [(N, p, "block") for (N, p) in box] + [(N, p, "cyclic") for (N, p) in cyc]


def penv(pl, env=None):
    e = dict(env or {})
    if pl == "cyclic":
        e["SIMMPI_PLACEMENT"] = "cyclic"
    return e


# ------------------------------------------------------------------ model side

def model_layout(lays):
    """{(N,p,pl): {"layout": {me: {...}}, "hops": {me: {sch: [..]}}, "routes": {sch: {s: [[..] per d]}}}} from the
    placement-generic model YgmVerif.RouterP; for the block placement the block-only model YgmVerif.Router (the one
    Props/C04.lean is about) is queried too, under the key (N,p,"block-only") — the two must agree (block_nextHop_eq)."""
    lines, keys = [], []
    for (N, p, pl) in lays:
        n = N * p
        for me in range(n):
            lines.append(f"playout {pl} {N} {p} {me}"); keys.append((N, p, pl, "layout", me))
            lines.append(f"phops {pl} {N} {p} {me}"); keys.append((N, p, pl, "hops", me))
            if pl == "block":
                lines.append(f"layout {N} {p} {me}"); keys.append((N, p, "block-only", "layout", me))
                lines.append(f"hops {N} {p} {me}"); keys.append((N, p, "block-only", "hops", me))
        for sch in SCHEMES:
            for s in range(n):
                lines.append(f"proutes {sch} {pl} {N} {p} {s}"); keys.append((N, p, pl, "routes", (sch, s)))
                if pl == "block":
                    lines.append(f"routes {sch} {N} {p} {s}"); keys.append((N, p, "block-only", "routes", (sch, s)))
    out = C.model("route", lines)
    res = {}
    for k, o in zip(keys, out):
        N, p, pl, kind, x = k
        d = res.setdefault((N, p, pl), {"layout": {}, "hops": {}, "routes": {s: {} for s in SCHEMES}})
        parts = [q.strip() for q in o.split("|")]
        if kind == "layout":
            t = {}
            for q in parts:
                w = q.split()
                t[w[0]] = [int(v) for v in w[1:]]
            d["layout"][x] = t
        elif kind == "hops":
            t = {}
            for q in parts:
                w = q.split()
                t[w[0]] = [int(v) for v in w[1:]]
            d["hops"][x] = t
        else:
            sch, s = x
            d["routes"][sch][s] = [[int(v) for v in q.split()] for q in parts]
    return res


# ------------------------------------------------------------------ real side

def parse_tables(lines):
    t = {"hop": {}}
    for l in lines:
        w = l.split()
        if not w:
            continue
        if w[0] == "hop":
            t["hop"][w[1]] = [int(x) for x in w[2:]]
        else:
            t[w[0]] = [int(x) for x in w[1:]]
    return t


COMPOSE_FUEL = 8


def compose(hop, s, d, fuel=COMPOSE_FUEL):
    """route s -> d from the real per-rank next-hop tables; hop[me][d]"""
    r, cur = [], s
    for _ in range(fuel):
        h = hop[cur][d]
        r.append(h)
        if h == d or h < 0 or h >= len(hop):
            break
        cur = h
    return r


def kinds(node, s, route):
    return [node[a] != node[b] for a, b in zip([s] + route, route)]   # callers guarantee ranks in range


def shape_failures(sch, N, p, s, d, route, node, loc, where):
    """the property's clauses on one route (given as list of receivers); returns [(signature, what)]"""
    f = []
    n = N * p
    if any(h < 0 or h >= n for h in route):
        return [(f"{where}-hop-out-of-range", f"next hop outside the communicator [0,{n})")]
    if not route or route[-1] != d:
        if where == "tables" and len(route) >= COMPOSE_FUEL:
            # iterating the real next_hop tables never reaches d (self-loop or cycle)
            return [(f"{where}-route-does-not-terminate", f"iterating next_hop does not reach the destination within {COMPOSE_FUEL} hops")]
        f.append((f"{where}-not-at-dest", "route does not end at the destination"))
    k = kinds(node, s, route)
    if sch == "NONE" and route != [d]:
        f.append((f"{where}-shape-NONE", "NONE is not a single direct hop"))
    if sch == "NR" and (len(route) > 2 or k not in NR_KINDS):
        f.append((f"{where}-shape-NR", "NR route is not (off-node)(on-node) with <= 2 hops"))
    if sch == "NLNR" and (len(route) > 3 or k not in NLNR_KINDS):
        f.append((f"{where}-shape-NLNR", "NLNR route is not (on)(off)(on) with <= 3 hops"))
    if len(set(route)) != len(route) or (s != d and s in route):
        f.append((f"{where}-revisit", "route revisits a rank"))
    if sch != "NONE":
        for a, b in zip([s] + route, route):
            if node[a] != node[b] and loc[a] != loc[b]:
                f.append((f"{where}-offnode-local", f"off-node hop {a}->{b} joins different on-node indices"))
    return f


def in_range(node, s, route):
    return all(0 <= x < len(node) for x in [s] + list(route))


def offpairs(node, s, route):
    if not in_range(node, s, route):      # reported separately as <where>-hop-out-of-range
        return []
    return [(a, b) for a, b in zip([s] + route, route) if node[a] != node[b]]


def global_pair_failures(N, p, routes_by_sch, node, where):
    """NLNR pairs subset of NR pairs; one NLNR pair per ordered node pair. routes_by_sch[sch][(s,d)] = route"""
    f = []
    nr = set()
    for (s, d), r in routes_by_sch.get("NR", {}).items():
        nr.update(offpairs(node, s, r))
    per = {}
    for (s, d), r in routes_by_sch.get("NLNR", {}).items():
        op = offpairs(node, s, r)
        if routes_by_sch.get("NR") and any(x not in nr for x in op):
            f.append((f"{where}-nlnr-subset", f"NLNR off-node pair {op} of {s}->{d} is not used by NR", {"s": s, "d": d}))
        if node[s] != node[d]:
            per.setdefault((node[s], node[d]), set()).update(op)
    for ab, ps in per.items():
        if len(ps) != 1:
            f.append((f"{where}-nlnr-single-pair", f"NLNR traffic node {ab[0]}->{ab[1]} crosses on {sorted(ps)}", {"nodes": ab}))
    return f


def parse_p2p_log(log):
    """-> (async_comm, [ {s,d,sends:[(src,dst,bytes,hex)],execs:[(rank,uid)]} ])"""
    acomm, segs, cur = None, [], None
    for line in log:
        sp = line.split(" ", 2)
        if len(sp) < 3:
            continue
        k, rest = sp[1], sp[2]
        if k == "irecv" and acomm is None:
            acomm = C.kv(rest).get("comm")
        elif k == "h":
            w = rest.split()
            if len(w) >= 4 and w[1] == "p2p":
                cur = {"s": int(w[2]), "d": int(w[3]), "sends": [], "execs": []}
                segs.append(cur)
            elif len(w) >= 3 and w[1] == "x" and cur is not None:
                cur["execs"].append((int(w[0][2:]), int(w[2])))
            elif len(w) >= 2 and w[1] == "end":
                cur = None
        elif k == "isend" and cur is not None:
            d = C.kv(rest)
            if d.get("comm") == acomm:
                cur["sends"].append((int(d["r"]), int(d["dst"]), int(d["bytes"]), d.get("data", "")))
    return acomm, segs


def le32(hexs, off):
    b = bytes.fromhex(hexs[2 * off:2 * off + 8])
    return int.from_bytes(b, "little", signed=True) if len(b) == 4 else None


def run_tables(binary, N, p, pl="block"):
    sch = SCHEMES[(N + p + PLACEMENTS.index(pl)) % 3]
    sr = C.run_sim(binary, ["tables"], nodes=N, ppn=p, env=penv(pl, {"YGM_COMM_ROUTING": sch}), want_log=False, timeout=300)
    return sch, sr


POLICIES = ["uniform", "racer", "starve", "late", "burst"]


def wire_variant(N, p, sch, pl="block"):
    """buffer size and scheduler policy of a wire job (routes must not depend on either): rotated over the jobs"""
    k = N + 2 * p + SCHEMES.index(sch) + 3 * PLACEMENTS.index(pl)
    return (0 if k % 2 else None), POLICIES[k % 5]


def run_p2p(binary, N, p, sch, lo, hi, sim_seed=1, pl="block"):
    n = N * p
    buf, pol = wire_variant(N, p, sch, pl)
    env = penv(pl, {"YGM_COMM_ROUTING": sch})
    if buf is not None:
        env["YGM_COMM_BUFFER_SIZE_KB"] = buf
    pairs = (min(hi, n) - lo) * n
    # a healthy run needs about 5*n scheduler steps per pair; a forwarding loop must hit the budget quickly
    return C.run_sim(binary, ["p2p", lo, hi], nodes=N, ppn=p, env=env, sim_seed=sim_seed, policy=pol,
                     log_bytes=16, timeout=600, max_steps=5000 + pairs * (60 * n + 600))


def check_tables(res, N, p, envsch, sr, M, model_ok, pl="block", MB=None):
    n = N * p
    case0 = {"N": N, "p": p, "placement": pl, "kind": "tables"}
    if model_ok and MB is not None and MB != M:
        res.corr_failures.append({"relation": "RouterP on the block placement == Router (block_nextHop_eq / block_route_eq)",
                                  "what": "the two models' tables differ", "case": case0})
    if sr.verdict != "ok":
        res.oracle_failures.append({"what": f"tables job failed: {sr.verdict}", "signature": "tables-run-failed",
                                    "case": dict(case0, stderr=sr.stderr[-300:])})
        return None
    T = {r: parse_tables(sr.outs.get(r, [])) for r in range(n)}
    node, loc = T[0].get("r2n", []), T[0].get("r2l", [])
    if len(node) != n or len(loc) != n:
        res.oracle_failures.append({"what": "layout tables incomplete", "signature": "tables-incomplete", "case": case0})
        return None
    hop = {sch: [T[r]["hop"].get(sch, []) for r in range(n)] for sch in SCHEMES}
    for sch in SCHEMES:
        if any(len(hop[sch][r]) != n for r in range(n)):
            res.oracle_failures.append({"what": "next-hop table incomplete", "signature": "tables-incomplete", "case": dict(case0, scheme=sch)})
            return None
    # ---- correspondence, entry by entry
    if model_ok:
        for me in range(n):
            ml, mh, t = M["layout"][me], M["hops"][me], T[me]
            real_nl = t.get("layout", [])[:2]
            for name, real, mod in (("node_id/local_id", real_nl, ml["nl"]), ("strided_ranks", t.get("strided"), ml["strided"]),
                                    ("local_ranks", t.get("local"), ml["local"]), ("rank_to_node", t.get("r2n"), ml["r2n"]),
                                    ("rank_to_local", t.get("r2l"), ml["r2l"])):
                res.evaluations += 1
                if real != mod:
                    res.corr_failures.append({"relation": f"RouterP layout table {name} == layout.hpp ({pl} placement)", "what": f"rank {me} differs",
                                              "case": dict(case0, rank=me, real=real, model=mod)})
            if t.get("layout", [])[2:] != [N, p, n, me]:
                res.corr_failures.append({"relation": "layout sizes == (N, p, N*p, rank)", "what": f"rank {me}", "case": dict(case0, rank=me, real=t.get("layout"))})
            for sch in SCHEMES:
                res.evaluations += n
                if hop[sch][me] != mh[sch]:
                    dd = next(d for d in range(n) if hop[sch][me][d] != mh[sch][d])
                    res.corr_failures.append({"relation": f"RouterP.nextHop == comm_router::next_hop ({pl} placement)", "what": f"{sch}: rank {me} -> dest {dd}: real {hop[sch][me][dd]} model {mh[sch][dd]}",
                                              "case": dict(case0, scheme=sch, s=me, d=dd, real=hop[sch][me], model=mh[sch])})
            if t.get("hopdef") != hop[envsch][me]:
                res.corr_failures.append({"relation": "next_hop(dest) == next_hop(dest, configured scheme)", "what": f"rank {me} under YGM_COMM_ROUTING={envsch}",
                                          "case": dict(case0, scheme=envsch, rank=me, real=t.get("hopdef"))})
            isl = [int(node[r] == node[me]) for r in range(n)]
            iss = [int(loc[r] == loc[me]) for r in range(n)]
            if t.get("isl") != isl or t.get("iss") != iss:
                res.corr_failures.append({"relation": "is_local/is_strided consistent with node_id/local_id", "what": f"rank {me}", "case": dict(case0, rank=me)})
    # ---- oracle: theorem conclusions on the routes composed from the real tables
    n_before = len(res.oracle_failures)
    routes = {sch: {} for sch in SCHEMES}
    for sch in SCHEMES:
        for s in range(n):
            for d in range(n):
                r = compose(hop[sch], s, d)
                routes[sch][(s, d)] = r
                for sig, what in shape_failures(sch, N, p, s, d, r, node, loc, "tables"):
                    res.oracle_failures.append({"what": f"{sch} {s}->{d}: {what} (route {r})", "signature": sig,
                                                "case": dict(case0, scheme=sch, s=s, d=d, route=r)})
                if model_ok and r != M["routes"][sch][s][d]:
                    res.corr_failures.append({"relation": f"RouterP.route == composition of real next_hop tables ({pl} placement)", "what": f"{sch} {s}->{d}: real {r} model {M['routes'][sch][s][d]}",
                                              "case": dict(case0, scheme=sch, s=s, d=d)})
    for sig, what, extra in global_pair_failures(N, p, routes, node, "tables"):
        res.oracle_failures.append({"what": what, "signature": sig, "case": dict(case0, **{k: (list(v) if isinstance(v, tuple) else v) for k, v in extra.items()})})
    if len(res.oracle_failures) > n_before:
        # the next-hop tables of this layout already violate the property (possibly hops outside the communicator or
        # routing loops): real traffic over them is undefined behaviour / unbounded, so the wire part is not attempted
        res.count("wire-skipped: tables of the layout already fail")
        return None
    return node, loc, hop


def check_wire(res, N, p, sch, sr, lo, hi, M, model_ok, node, loc, wire_routes, pl="block"):
    n = N * p
    case0 = {"N": N, "p": p, "placement": pl, "kind": "wire", "scheme": sch, "lo": lo, "hi": hi}
    if sr.verdict != "ok":
        res.oracle_failures.append({"what": f"single-message run did not finish: {sr.verdict} {sr.blocked[:200]}", "signature": f"wire-run-{sr.verdict.split(':')[0]}",
                                    "case": dict(case0, stderr=sr.stderr[-300:])})
        return
    acomm, segs = parse_p2p_log(sr.log)
    want = [(s, d) for s in range(lo, min(hi, n)) for d in range(n)]
    if [(g["s"], g["d"]) for g in segs] != want:
        res.corr_failures.append({"relation": "wire log has one segment per (s,d)", "what": f"{len(segs)} segments, expected {len(want)}", "case": case0})
        return
    hdr = 0 if sch == "NONE" else 8
    for g in segs:
        s, d = g["s"], g["d"]
        case = dict(case0, s=s, d=d)
        res.evaluations += 1
        if node[s] != node[d]:
            res.distinct.add((N, p, pl, sch, s, d))
        route = [x[1] for x in g["sends"]]
        senders = [x[0] for x in g["sends"]]
        wire_routes[(s, d)] = route
        case["wire"] = [[a, b] for a, b in zip(senders, route)]
        # oracle: delivery + chain + the property's clauses on the wire
        if g["execs"] != [(d, s * n + d)]:
            res.oracle_failures.append({"what": f"{sch} {s}->{d}: executions {g['execs']}, expected once on {d}", "signature": "wire-delivery", "case": case})
        if senders != [s] + route[:-1]:
            res.oracle_failures.append({"what": f"{sch} {s}->{d}: sends do not form a chain from the source: {case['wire']}", "signature": "wire-chain", "case": case})
        for sig, what in shape_failures(sch, N, p, s, d, route, node, loc, "wire"):
            res.oracle_failures.append({"what": f"{sch} {s}->{d}: {what} (wire {case['wire']})", "signature": sig, "case": case})
        for (a, b, nbytes, hx) in g["sends"]:
            if sch != "NONE":
                sz, dest = le32(hx, 0), le32(hx, 4)
                if dest != d or sz is None or nbytes != hdr + sz:
                    res.corr_failures.append({"relation": "every transmission carries exactly the one message with header dest = d", "what": f"{a}->{b}: bytes {nbytes} header size {sz} dest {dest}", "case": case})
        k = kinds(node, s, route) if all(0 <= h < n for h in route) else None
        res.count(sch + ":" + ("/".join("off" if x else "on" for x in k) if k else "bad"))
        res.count("wire-policy:" + wire_variant(N, p, sch, pl)[1])
        res.count("wire-buffer:" + ("0" if wire_variant(N, p, sch, pl)[0] == 0 else "default"))
        res.count("wire-placement:" + pl)
        if model_ok:
            mr = M["routes"][sch][s][d]
            if route != mr:
                res.corr_failures.append({"relation": f"RouterP.route == (sender,receiver) sequence on the async communicator ({pl} placement)", "what": f"{sch} {s}->{d}: wire {route} model {mr}", "case": dict(case, model=mr)})
            else:
                res.traces_validated += 1
        if (N, p, s, d) in ((2, 3, 0, 5), (3, 2, 1, 4)) and (pl == "cyclic" or sch != "NLNR") and sch != "NONE":
            res.sample({"N": N, "p": p, "placement": pl, "scheme": sch, "s": s, "d": d, "wire": case["wire"], "model_route": M["routes"][sch][s][d] if model_ok else None})


# ------------------------------------------------------------------ aggregated traffic (several messages per physical buffer)

AGG_LAYOUTS = [(2, 3), (3, 2), (4, 2), (2, 4), (3, 3)]
AGG_K, AGG_PAD = 3, 32
AGG_MSG = 2 + 4 + 8 + AGG_PAD          # lambda id + int32 uid + cereal string (size_t length + bytes)


def agg_jobs(tier, lays):
    jobs = []
    for (N, p, pl) in lays:
        if (N, p) in AGG_LAYOUTS or (tier != "quick" and N * p <= 24 and N > 1 and p > 1):
            for sch in SCHEMES:
                for buf in (None, 1):
                    jobs.append((N, p, pl, sch, buf))
    return jobs


def run_a2a(binary, N, p, pl, sch, buf, sim_seed=1):
    env = penv(pl, {"YGM_COMM_ROUTING": sch})
    if buf is not None:
        env["YGM_COMM_BUFFER_SIZE_KB"] = buf
    n = N * p
    k = (N + p + SCHEMES.index(sch) + (0 if buf is None else 1)) % 5
    return C.run_sim(binary, ["a2a", AGG_K, AGG_PAD], nodes=N, ppn=p, env=env, sim_seed=sim_seed, policy=POLICIES[k],
                     log_bytes=-1, timeout=300, max_steps=20000 + 400 * n * n * AGG_K)


def parse_a2a_log(log, sch):
    """split every physical buffer of the async communicator into its messages by walking the routing headers
    (uint32 size, int32 dest); -> ({uid: [(sender, receiver, header dest)]} in wire order, execs, stats, malformed)"""
    acomm, tx, execs, malformed = None, {}, [], []
    stats = {"buffers": 0, "messages": 0, "multi_dest_buffers": 0}
    for line in log:
        sp = line.split(" ", 2)
        if len(sp) < 3:
            continue
        k, rest = sp[1], sp[2]
        if k == "irecv" and acomm is None:
            acomm = C.kv(rest).get("comm")
        elif k == "h":
            w = rest.split()
            if len(w) >= 3 and w[1] == "x":
                execs.append((int(w[0][2:]), int(w[2])))
        elif k == "isend":
            d = C.kv(rest)
            if d.get("comm") != acomm:
                continue
            a, b = int(d["r"]), int(d["dst"])
            try:
                raw = bytes.fromhex(d.get("data", ""))
            except ValueError:
                malformed.append((a, b, "payload not logged in full"))
                continue
            stats["buffers"] += 1
            off, dests = 0, set()
            while off < len(raw):
                if sch == "NONE":
                    size, dest, body = AGG_MSG, b, off
                else:
                    if off + 8 > len(raw):
                        malformed.append((a, b, "truncated header"))
                        break
                    size = int.from_bytes(raw[off:off + 4], "little")
                    dest = int.from_bytes(raw[off + 4:off + 8], "little", signed=True)
                    body = off + 8
                if size < 6 or body + size > len(raw):
                    malformed.append((a, b, f"message of size {size} at offset {off} overruns the buffer of {len(raw)} bytes"))
                    break
                uid = int.from_bytes(raw[body + 2:body + 6], "little", signed=True)
                tx.setdefault(uid, []).append((a, b, dest))
                dests.add(dest)
                stats["messages"] += 1
                off = body + size
            if len(dests) > 1:
                stats["multi_dest_buffers"] += 1
    return tx, execs, stats, malformed


def check_a2a(res, N, p, pl, sch, buf, sr, M, model_ok, node, loc, hop):
    n = N * p
    case0 = {"N": N, "p": p, "placement": pl, "kind": "agg", "scheme": sch, "buffer_kb": buf, "k": AGG_K}
    res.count("agg-job:" + pl + ":" + sch + ":" + ("default" if buf is None else f"{buf}KB"))
    if sr.verdict != "ok":
        res.oracle_failures.append({"what": f"all-to-all run did not finish: {sr.verdict} {sr.blocked[:200]}", "signature": f"wire-agg-run-{sr.verdict.split(':')[0]}",
                                    "case": dict(case0, stderr=sr.stderr[-300:])})
        return
    tx, execs, stats, malformed = parse_a2a_log(sr.log, sch)
    for (a, b, why) in malformed[:3]:
        res.corr_failures.append({"relation": "a physical buffer is a sequence of (routing header, message) records", "what": f"buffer {a}->{b}: {why}", "case": case0})
    total = n * n * AGG_K
    ecount = {}
    for (r, uid) in execs:
        ecount.setdefault(uid, []).append(r)
    seen = {}          # at most a few reports per signature and job

    def fail(sig, what, case):
        seen[sig] = seen.get(sig, 0) + 1
        if seen[sig] <= 2:
            res.oracle_failures.append({"what": what + f" ({N}x{p} {pl} {sch} buffer {'default' if buf is None else str(buf) + 'KB'})", "signature": sig, "case": case})

    hops_real = hops_model = 0
    for uid in range(total):
        sd, j = divmod(uid, AGG_K)
        s, d = divmod(sd, n)
        t = tx.get(uid, [])
        route = [x[1] for x in t]
        senders = [x[0] for x in t]
        case = dict(case0, s=s, d=d, uid=uid, wire=[[a, b] for a, b, _ in t])
        res.evaluations += 1
        hops_real += len(t)
        if ecount.get(uid, []) != [d]:
            fail("wire-agg-delivery", f"message {uid} ({s}->{d}) executed on {ecount.get(uid, [])}, expected once on {d}", case)
        if senders != ([s] + route[:-1])[:len(senders)] or not t:
            fail("wire-agg-chain", f"message {uid} ({s}->{d}): transmissions {case['wire']} do not form a chain from the source", case)
        for (a, b, hd) in t:
            if sch != "NONE" and hd != d:
                res.corr_failures.append({"relation": "forwarding keeps the header's final destination", "what": f"message {uid}: header dest {hd}, final destination {d}", "case": case})
            want = hop[sch][a][d] if 0 <= a < n else None
            if b != want:
                fail("wire-agg-illegal-hop", f"message for rank {d} travels on link {a}->{b}; next_hop({d}) on rank {a} is {want}", case)
        for sig, what in shape_failures(sch, N, p, s, d, route, node, loc, "wire-agg"):
            fail(sig, f"{sch} {s}->{d} (message {uid}): {what} (wire {case['wire']})", case)
        if model_ok:
            mr = M["routes"][sch][s][d]
            hops_model += len(mr)
            if route != mr:
                if seen.get("corr-route", 0) < 2:
                    res.corr_failures.append({"relation": f"RouterP.route == hop sequence of every message of an aggregated all-to-all ({pl} placement)",
                                              "what": f"{sch} {s}->{d} message {uid}: wire {route} model {mr}", "case": dict(case, model=mr)})
                seen["corr-route"] = seen.get("corr-route", 0) + 1
            else:
                res.traces_validated += 1
    extra = [u for u in tx if not (0 <= u < total)] + [u for u in ecount if not (0 <= u < total)]
    if extra:
        fail("wire-agg-delivery", f"messages with unknown uids on the wire / executed: {sorted(set(extra))[:5]}", case0)
    if model_ok and hops_real != hops_model:
        res.corr_failures.append({"relation": "total message hops == sum of the model's route lengths", "what": f"{hops_real} on the wire, {hops_model} promised", "case": case0})
    res.count("agg-buffers", stats["buffers"])
    res.count("agg-buffers-with-several-final-destinations", stats["multi_dest_buffers"])
    if stats["multi_dest_buffers"]:
        res.distinct.add((N, p, pl, sch, buf, "agg"))
    if (N, p, pl, sch, buf) == (3, 2, "block", "NLNR", None):
        res.sample({"N": N, "p": p, "placement": pl, "scheme": sch, "kind": "aggregated all-to-all", "messages": total, "buffers": stats["buffers"],
                    "buffers_with_several_final_destinations": stats["multi_dest_buffers"], "hops": hops_real, "hops_promised": hops_model})


def guarded(res, case, fn, *a):
    """an exception while judging one job must not discard the failures already collected for the others"""
    try:
        return fn(*a)
    except Exception as ex:  # reported, never swallowed
        import traceback
        res.corr_failures.append({"relation": "check-machinery", "what": "exception while judging this job: " + repr(ex)[:200] + " | " + traceback.format_exc()[-300:], "case": case})
        return None


def run(tier, seed, model_ok=True):
    res = C.Result()
    res.rule = RULE
    res.assumptions = ["the layout tables (node_id, local_id) are a bijection [0,N*p) ~ [0,N)x[0,p) (Placement.WF): every node holds the same number p of ranks",
                       "placements run: block (rank r on node r / p) and round-robin (rank r on node r % N), as produced by simmpi's MPI_Comm_split_type; "
                       "other placements and layouts beyond the tier's box are covered by the theorems only"]
    binary, err = C.build_harness("route")
    if binary is None:
        res.corr_failures.append({"relation": "harness builds against /repo", "what": err[-800:], "case": None})
        return res
    lays = layouts(tier)
    if not model_ok:
        res.corr_failures.append({"relation": "model driver available", "what": "Lean library does not build", "case": None})
    M = model_layout(lays) if model_ok else {}

    # ---- (1) tables
    nl = {}
    for (N, p, pl), (envsch, sr) in zip(lays, C.pmap(lambda L: run_tables(binary, *L), lays)):
        r = guarded(res, {"N": N, "p": p, "placement": pl, "kind": "tables"}, check_tables, res, N, p, envsch, sr, M.get((N, p, pl)), model_ok,
                    pl, M.get((N, p, "block-only")) if pl == "block" else None)
        res.count("tables-placement:" + pl)
        if r:
            nl[(N, p, pl)] = r
    # ---- (2) wire
    jobs = []
    for (N, p, pl) in lays:
        if (N, p, pl) not in nl:
            continue
        n = N * p
        chunk = max(1, 384 // n)
        for sch in SCHEMES:
            for lo in range(0, n, chunk):
                jobs.append((N, p, sch, lo, min(n, lo + chunk), pl))
    jobs.sort(key=lambda j: -(j[0] * j[1]) * (j[4] - j[3]))
    wire = {}
    outs = C.pmap(lambda j: run_p2p(binary, j[0], j[1], j[2], j[3], j[4], sim_seed=seed, pl=j[5]), jobs)
    for j, sr in zip(jobs, outs):
        N, p, sch, lo, hi, pl = j
        node, loc, _ = nl[(N, p, pl)]
        guarded(res, {"N": N, "p": p, "placement": pl, "kind": "wire", "scheme": sch, "lo": lo, "hi": hi}, check_wire,
                res, N, p, sch, sr, lo, hi, M.get((N, p, pl)), model_ok, node, loc, wire.setdefault((N, p, pl), {}).setdefault(sch, {}), pl)
    for (N, p, pl), by in wire.items():
        node, loc, _ = nl[(N, p, pl)]
        for sig, what, extra in global_pair_failures(N, p, by, node, "wire"):
            res.oracle_failures.append({"what": what, "signature": sig, "case": dict({"N": N, "p": p, "placement": pl, "kind": "wire", "scheme": "NLNR"}, **{k: (list(v) if isinstance(v, tuple) else v) for k, v in extra.items()})})
    # ---- (3) aggregated traffic: several messages (with different next hops) per physical buffer
    ajobs = [j for j in agg_jobs(tier, lays) if (j[0], j[1], j[2]) in nl]
    aouts = C.pmap(lambda j: run_a2a(binary, *j, sim_seed=seed), ajobs)
    for j, sr in zip(ajobs, aouts):
        N, p, pl, sch, buf = j
        node, loc, hop = nl[(N, p, pl)]
        guarded(res, {"N": N, "p": p, "placement": pl, "kind": "agg", "scheme": sch, "buffer_kb": buf}, check_a2a,
                res, N, p, pl, sch, buf, sr, M.get((N, p, pl)), model_ok, node, loc, hop)
    res.notes.append(f"{len(ajobs)} aggregated all-to-all jobs (k={AGG_K} messages per pair, buffer default / 1 KB)")
    res.exhaustive = True
    res.notes.append(f"{len(lays)} layouts ({sum(1 for L in lays if L[2] == 'cyclic')} with round-robin placement), {len(jobs)} single-message wire jobs, sim seed {seed}")
    return res


def replay(data):
    """re-run the recorded layout (tables + the wire pairs of the recorded source); True = did not reproduce"""
    case = data.get("case") or {}
    if not case and data.get("no_longer_checks"):
        case = next((b.get("case") for b in data["no_longer_checks"] if b.get("case")), {}) or {}
    N, p = case.get("N"), case.get("p")
    binary, err = C.build_harness("route")
    if binary is None or N is None:
        print("replay: nothing executable recorded:", data.get("no_longer_checks"))
        return False
    res = C.Result()
    pl = case.get("placement", "block")
    MM = model_layout([(N, p, pl)])
    M = MM.get((N, p, pl))
    envsch, sr = run_tables(binary, N, p, pl)
    nl = check_tables(res, N, p, envsch, sr, M, True, pl, MM.get((N, p, "block-only")) if pl == "block" else None)
    if nl and case.get("kind") == "agg":
        sr = run_a2a(binary, N, p, pl, case.get("scheme", "NLNR"), case.get("buffer_kb"), sim_seed=data.get("seed", 1))
        check_a2a(res, N, p, pl, case.get("scheme", "NLNR"), case.get("buffer_kb"), sr, M, True, nl[0], nl[1], nl[2])
    if nl and case.get("kind") == "wire":
        s = case.get("s", case.get("lo", 0))
        sr = run_p2p(binary, N, p, case.get("scheme", "NLNR"), s, s + 1, sim_seed=data.get("seed", 1), pl=pl)
        check_wire(res, N, p, case.get("scheme", "NLNR"), sr, s, s + 1, M, True, nl[0], nl[1], {}, pl)
    for f in res.oracle_failures[:10]:
        print("oracle:", f["signature"], f["what"])
    for f in res.corr_failures[:10]:
        print("correspondence:", f["relation"], f["what"])
    return not (res.oracle_failures or res.corr_failures)
