"""C11 — map / multimap contents equal a sequential application of all operations.

Tie (a) step semantics: scenario files with all operation kinds are run by the real containers on a
1-rank communicator (buffer 0 / 1 KB / default).  There the execution order is the order in which
operations were put into the send buffer (`I`/`em` lines of the harness log), so after every barrier
the real contents, the sequence of visitor invocations and the sequence of handler-issued operations
must equal `Dist.run MapOps.apply` on that sequence exactly.
Tie (b) distributed: multi-rank histories (2..8 ranks incl. 2x2, 2x3, 2x4, 4x2 layouts, the three
routings, buffer 0 / 1 KB / default, five scheduler policies, several blocks separated by barriers,
several ranks hitting one key in one block).  Per key (justified by Dist.proj_run: the value of a key is
the fold over the subsequence of operations on that key) the Lean driver searches for a sequential
order of the <= 6 operations on the key that reproduces the real final values and the real visitor
log exactly (`explain`); none found = the property fails on this history.  Keys with more operations
only receive order-independent workloads and are compared with the model run in issue order.
size / count / for_all / all_gather / topk / swap / clear are compared with MapOps' queries on the
abstract contents on every rank.

The engine below is shared with C12 (checks/props/c12.py) through a `Flavour`."""
import os
import random
import shutil
import tempfile

from lib import common as C

META = {
    "claimed": True,
    "technique": "Lean 4 proof (sequential semantics of every remote lambda + generic per-key composition, all operation sequences) + "
                 "exact FIFO correspondence on 1 rank + per-key sequential-order search on multi-rank simulated runs",
    "text": "YgmVerif.MapOps.apply transcribes the nine remote lambdas of map_impl.hpp over an association list; YgmVerif.Dist proves for every "
            "keyed container and every execution sequence that the final value and callback log of a key are the fold over the subsequence of "
            "operations on that key (proj_run, cbs_run, commute, exactly_once_fold, execGlobal_rank, stored_only_on_owner). Props/C11 proves one theorem per "
            "clause: insert_overwrites, insert_if_missing_keeps, visit_creates_default_and_calls_once, visit_multi_once_per_value, group_once, "
            "visit_if_exists_never_creates, else_visit_offered_value, reduce_is_fold (+ reduce_perm for associative-commutative operators), "
            "erase_removes_all, multimap_adds, multimap_inserts_append, map_invariant, queries_agree_*, copy_same_default, copy_independent. The model is tied to the code by exact replay on one rank and by "
            "a search for an explaining sequential order per contended key on multi-rank runs under simmpi.",
    "note": "Trusted: Lean kernel + propext/Classical.choice/Quot.sound; the hand-written model MapOps.lean, tied to map_impl.hpp on the "
            "explored histories only; exactly-once atomic execution on the owner (C01/C02/C08) is the assumption `Dist.Complete`, not proved "
            "here; std::hash and std::multimap (equal keys keep insertion order) are trusted; the containers are also instantiated "
            "with a non-default Compare (std::greater, a custom order) and a non-default Partitioner, with ascending and descending key sweeps - the "
            "model is unchanged for them, because the comparator only orders the local store and the partitioner only picks the owner; user lambdas are parameters (the harness registers "
            "a fixed table of visitors/reducers mirrored in Driver/MapSet.lean); topk's distributed merge is compared, not proved; "
            "serialize/deserialize belong to C20. Per-process (static) state shared between communicators or containers is probed by the two-communicator "
            "and two-container cases only on the explored layouts (sub-communicators with a uniform ranks-per-node layout).",
}

RULE = ("a case = (scenario, container kind, key/value kinds, layout, routing, buffer, policy, sim seed); 1-rank cases are compared "
        "operation-sequence-exact with the model, multi-rank cases per key by order search / order-independent comparison; "
        "non-trivial = at least one key with >= 2 operations from different ranks in one block (1-rank: >= 20 operations); every scenario "
        "keeps TWO containers of the same type alive on the communicator with interleaved operations (a third with equal shares), each judged "
        "against its own contents; a quarter of the multi-rank cases run the same scenario, through the same template instantiations, on a "
        "sub-communicator (MPI_Comm_split of the world by local id: last-vs-rest or parity) AND on the world communicator of one process, in "
        "either order, and both runs (every sub-communicator group and the world) are judged with the same oracles / model comparison; "
        "map / multimap scenarios copy-construct container 1 from container 0 (custom defaults) and continue at once, without a barrier, on "
        "the copy and on the original (copy = same contents + same default, then independent), incl. loops of several copies after "
        "rank-skewed work at capacity 0; in 40 % of the scenarios some ranks call comm.stats_reset() between operations and after barriers; environment dimension rotated over the cases: YGM_COMM_ISSEND_FREQ in {0,1,8}, YGM_COMM_NUM_IRECVS in {1,2,8}, YGM_COMM_NUM_ISENDS_WAIT in {0,1,4}, capacity 0 / 1 KB / default for every container kind, cyclic rank placement for a third of the multi-node cases; uint64 keys / values over the whole 64-bit range; the order search keeps the program order of every sender (per-sender FIFO), dependent pairs of one rank on one key and reductions around a swap in opposite key order are generated on purpose")

LAYOUTS = [(1, 2), (1, 3), (2, 2), (1, 5), (2, 3), (1, 7), (2, 4), (4, 2), (1, 4), (3, 2), (1, 8), (1, 6)]
ROUTINGS = ["NONE", "NR", "NLNR"]
BUFFERS = [0, 1, None]
POLICIES = ["uniform", "racer", "starve", "late", "burst"]
MOD = 1000003
U64 = 1 << 64
MAXSEARCH = 6


def qt(s):
    return "=" + str(s)


def uq(t):
    return t[1:]


# ---------------------------------------------------------------------------------------- flavours

class MapFlavour:
    """what: 'map' | 'multimap'; kinds: 'ss' | 'is' | 'si'"""
    mode = "map"
    pid = "C11"

    def __init__(self, what, kinds, variant="d"):
        # variant: 'd' default template arguments, 'g' Compare = std::greater<Key>, 'p' alt_compare + alt_partitioner
        # (harness/mapset.cpp).  The model is the same for every variant: the comparator only orders the local store,
        # the partitioner only picks the owner (owners are read from the run).
        self.what, self.kinds, self.variant = what, kinds, variant
        self.multi = what == "multimap"
        self.kk, self.vk = kinds[0], kinds[1]

    def sweep_keys(self):
        """a run of keys used by the ascending / descending sweeps (listed in ascending operator< order)"""
        if self.kk == "u":
            return [str((1 << 63) + 100 + i) for i in range(24)]
        return [str(100 + i) for i in range(24)] if self.kk == "i" else ["s%02d" % i for i in range(24)]

    def pair_ops(self, rnd, k):
        """two order-dependent operations on one key, to be issued by one rank"""
        K, v, v2, a = qt(k), qt(self.rand_val(rnd)), qt(self.rand_val(rnd)), qt(self.rand_val(rnd))
        if self.multi:
            return rnd.choice([[["insm", K, v], ["era", K]], [["insm", K, v], ["vis", K, "1", a]], [["insm", K, v], ["insm", K, v2]],
                               [["era", K], ["insm", K, v]]])
        return rnd.choice([[["ins", K, v], ["era", K]], [["ins", K, v], ["ins", K, v2]], [["ins", K, v], ["vie", K, "1", a]],
                           [["era", K], ["ins", K, v]], [["ins", K, v], ["red", K, v2, "0"]]])

    def absent_keys(self):
        """keys that are never inserted (targets of work that must not change anything)"""
        if self.kk == "u":
            return [str(U64 - 5000 + i) for i in range(12)]
        return [str(9000000 + i) for i in range(12)] if self.kk == "i" else ["absent%02d" % i for i in range(12)]

    def fixed_arg(self):
        return "7" if self.vk in "iu" else "w"

    def sweep_op(self, rnd, k):
        v, a, K = qt(self.rand_val(rnd)), qt(self.rand_val(rnd)), qt(k)
        if self.multi:
            return rnd.choice([["insm", K, v], ["insm", K, v], ["vis", K, str(rnd.choice([0, 1])), a]])
        return rnd.choice([["ins", K, v], ["iim", K, v], ["vis", K, str(rnd.choice([0, 1])), a], ["iev", K, v, "0", a], ["red", K, v, "0"]])

    # --- universe
    def base_keys(self, rnd):
        if self.kk == "s":
            pool = ["", "a", "b", "ab", "k7", "Key_long_0123456789_abcdefghijklmnopqrstuvwxyz", "z", "A", "0", "a.b"]
        elif self.kk == "u":
            # uint64 keys over the whole range: bit 63 set, all ones, 2^63, 2^32 +- 1, ...
            pool = [0, 4, 1 << 63, (1 << 63) + 4, U64 - 1, (1 << 32) - 1, (1 << 32) + 1, U64 - 4, 12345678901234567892, 0xDEADBEEFCAFEF00D]
        else:
            pool = [0, -1, 5, 42, -1000, 99999, 7, 8, 524288, -524287]
        return [str(x) for x in pool]

    def dk(self, k):
        if self.kk == "u":
            return str((int(k) + 1000000) % U64)
        return str(int(k) + 1000000) if self.kk == "i" else k + "~"

    def universe(self, base):
        u = list(base) + self.sweep_keys() + self.absent_keys()
        u += [self.dk(k) for k in base]
        u += [self.dk(self.dk(k)) for k in base]
        return u

    def rand_val(self, rnd):
        if self.vk == "s":
            return rnd.choice(["", "x", "yz", "v1", "Q", "m", "n", "longer-value_" + str(rnd.randrange(100)), "b", "c"])
        if self.vk == "u":
            return str(rnd.choice([0, 1, 1 << 63, U64 - 1, (1 << 32) - 1, (1 << 32) + 1, (1 << 63) + 12345, rnd.randrange(U64), rnd.randrange(U64)]))
        return str(rnd.randrange(0, 1000))

    def defaults(self, rnd):
        if self.vk == "s":
            return rnd.choice([("", "e"), ("d", ""), ("dflt", "other")])
        if self.vk == "u":
            return rnd.choice([(str(1 << 63), "17"), (str(U64 - 1), "0")])
        return rnd.choice([("0", "17"), ("5", "0")])

    # --- operations
    def op_key(self, op):
        return uq(op[1])

    def rand_op(self, rnd, k):
        """an arbitrary (order-dependent) operation on key k"""
        v, a = qt(self.rand_val(rnd)), qt(self.rand_val(rnd))
        K = qt(k)
        if self.multi:
            r = rnd.randrange(100)
            if r < 34:
                return ["insm", K, v]
            if r < 54:
                return ["vis", K, str(rnd.choice([0, 1, 1, 4])), a]
            if r < 72:
                return ["visg", K, str(rnd.choice([0, 1, 4, 5])), a]
            if r < 88:
                return ["vie", K, str(rnd.choice([0, 1, 4])), a]
            return ["era", K]
        r = rnd.randrange(100)
        if r < 16:
            return ["ins", K, v]
        if r < 28:
            return ["iim", K, v]
        if r < 44:
            return ["vis", K, str(rnd.choice([0, 1, 1, 2, 3])), a]
        if r < 58:
            return ["vie", K, str(rnd.choice([0, 1, 1, 2, 3])), a]
        if r < 72:
            return ["iev", K, v, str(rnd.choice([0, 1, 1, 2])), a]
        if r < 90:
            return ["red", K, v, str(rnd.choice([0, 0, 1, 2]))]
        return ["era", K]

    def post_clear_op(self, rnd, k):
        """operations issued right after clear() (no barrier in between)"""
        v, a, K = qt(self.rand_val(rnd)), qt(self.rand_val(rnd)), qt(k)
        if self.multi:
            return rnd.choice([["insm", K, v], ["insm", K, v], ["vis", K, str(rnd.choice([0, 1])), a]])
        return rnd.choice([["ins", K, v], ["iim", K, v], ["vis", K, str(rnd.choice([0, 1])), a], ["red", K, v, str(rnd.choice([0, 1, 2]))]])

    def heavy_ops(self, rnd, k, n):
        """n operations on k whose result does not depend on their order; returns (class, ops)"""
        K = qt(k)
        if rnd.random() < 0.3:
            o = self.rand_op(rnd, k)
            return "identical", [list(o) for _ in range(min(n, 14))]
        if self.multi:
            if rnd.random() < 0.85:
                return "insm", [["insm", K, qt(self.rand_val(rnd))] for _ in range(n)]
            return "era", [["era", K] for _ in range(n)]
        c = rnd.choice(["red1", "red2", "red1", "red2", "ins-same", "iim-same", "era"])
        if c in ("red1", "red2"):
            return c, [["red", K, qt(self.rand_val(rnd)), c[3]] for _ in range(n)]
        if c == "era":
            return c, [["era", K] for _ in range(n)]
        v = qt(self.rand_val(rnd))
        return c, [[c[:3], K, v] for _ in range(n)]

    def heavy_class(self, ops):
        """order-independence class of an operation multiset, or None"""
        kinds = set(o[0] for o in ops)
        if len(set(tuple(o) for o in ops)) == 1:
            return "identical"
        if kinds == {"insm"}:
            return "insm"
        if kinds == {"era"}:
            return "era"
        if kinds == {"red"} and len(set(o[3] for o in ops)) == 1 and ops[0][3] in ("1", "2"):
            return "red" + ops[0][3]
        if kinds in ({"ins"}, {"iim"}) and len(set(o[2] for o in ops)) == 1:
            return "same"
        return None

    # --- state: dict key -> list of values
    def state_tokens(self, st, keys=None):
        items = []
        for k in (keys if keys is not None else st.keys()):
            for v in st.get(k, []):
                items.append(f"{qt(k)} {qt(v)}")
        return ";".join(items)

    def parse_state(self, field):
        st = {}
        for it in field.split(";"):
            w = it.split()
            if len(w) == 2:
                st.setdefault(uq(w[0]), []).append(uq(w[1]))
        return st

    def parse_F(self, ans):
        """'F =k =v; =k =v;' -> dict key -> list (container order)"""
        return self.parse_state(ans[1:].strip()) if ans else {}

    def canon(self, vals, cls):
        return sorted(vals) if cls == "insm" else list(vals)

    def cb_key(self, cb):
        return uq(cb[2])

    def model_prefix(self, dflt):
        return f"{self.kinds}|{qt(dflt)}"

    def qprefix(self):
        return self.kinds


# ---------------------------------------------------------------------------------------- scenario generation

def gen_scenario(fl, rnd, ranks, nblocks, onerank, scale=1.0, clearrace=False, copyloop=False):
    """returns dict(lines=[...], blocks=[...]); a block = dict(ops=[(line, rank, c, op)], mut=…, obs=[(line, dir)], F={c: line})"""
    base = fl.base_keys(rnd)
    rnd.shuffle(base)
    base = base[:rnd.randrange(5, len(base) + 1)]
    uni = fl.universe(base)
    lines, blocks = [], []
    dv = fl.defaults(rnd) if fl.mode == "map" else ("", "")
    if fl.mode == "map":
        lines.append(f"dv {qt(dv[0])} {qt(dv[1])}")
    lines.append("keys " + " ".join(qt(k) for k in uni))

    def add(s):
        lines.append(s)
        return len(lines) - 1

    # two containers of the same type are alive on the communicator, operations interleaved between them, each judged against
    # its own model contents; in a third of the scenarios they get equal shares
    pc0 = rnd.choice([0.8, 0.8, 0.5])
    # comm.stats_reset() is public API and must not influence anything: in 40 % of the scenarios some ranks call it at random
    # points between their operations and right after barriers
    use_sr = rnd.random() < 0.4

    def maybe_sr(p):
        if use_sr and rnd.random() < p:
            add(f"sr {rnd.randrange(ranks)}")

    forced = None
    for b in range(nblocks):
        blk = {"ops": [], "mut": None, "obs": [], "F": {}, "classes": {}}
        kind = "ops"
        if b > 0 and rnd.random() < 0.22:
            kind = rnd.choice(fl.mut_kinds())
        plan, forced = forced, None
        if (plan is None and fl.mode == "map" and not fl.multi and not clearrace and not copyloop and b + 1 < nblocks
                and rnd.random() < 0.15):
            # reductions around a swap: one rank reduces into a run of keys of container 0, the containers are swapped, the same
            # rank reduces into the same keys of container 0 in the OPPOSITE order - on every owner the first key reduced after
            # the swap is the last one reduced before it (or a single hot key)
            sk = fl.sweep_keys()
            run = sk[rnd.randrange(0, 8):][:rnd.choice([1, 2, 6, 12, 16])]
            if rnd.random() < 0.5:
                run = run[::-1]
            r, rop = rnd.randrange(ranks), str(rnd.choice([0, 1, 2]))
            plan = ("swap", [(r, 0, ["red", qt(k), qt(fl.rand_val(rnd)), rop]) for k in run])
            forced = ("ops", [(r, 0, ["red", qt(k), qt(fl.rand_val(rnd)), rop]) for k in run[::-1]])
        if plan is not None:
            kind = plan[0]
            blk["redswap"] = True
        if plan is None and fl.mode == "map" and b > 0 and not clearrace and (copyloop or kind == "copy"):
            # copy construction: container 1 is destroyed and re-created as `C(container 0)`; the script goes on AT ONCE (no
            # barrier) on the copy and on the original.  Before the copy one rank may do a lot of work that changes nothing
            # (visit_if_exists of absent keys), so that ranks reach the copy constructor at different times.
            blk["mut"], blk["mut_first"] = ["copy"], True
            if rnd.random() < 0.7:
                r0, ak = rnd.randrange(ranks), fl.absent_keys()
                for j in range(rnd.randrange(15, 60)):
                    o = ["vie", qt(ak[j % len(ak)]), "0", qt(fl.fixed_arg())]
                    blk["ops"].append((add(f"o {r0} 0 " + " ".join(o)), r0, 0, o))
            maybe_sr(0.3)
            blk["mut_line"] = add("copy")
            keys = list(base)
            rnd.shuffle(keys)
            pops = []
            for k in keys[:rnd.randrange(3, len(keys) + 1)]:
                for _ in range(rnd.randrange(1, 5)):
                    pops.append((rnd.randrange(ranks), 1 if rnd.random() < 0.7 else 0, fl.rand_op(rnd, k)))
            for k in fl.sweep_keys()[:rnd.randrange(1, 4)]:      # (mostly) absent keys visited on the copy: default value
                pops.append((rnd.randrange(ranks), 1, ["vis", qt(k), "1", qt(fl.rand_val(rnd))]))
            rnd.shuffle(pops)
            for (r, c, o) in pops:
                maybe_sr(0.05)
                blk["ops"].append((add(f"o {r} {c} " + " ".join(o)), r, c, o))
            add("B")
            maybe_sr(0.3)
            blk["F"][0] = add("forall 0")
            blk["F"][1] = add("forall 1")
            for d in fl.gen_obs(rnd, base, uni, ranks)[:3]:
                blk["obs"].append((add(" ".join(d)), d))
            add("B")
            blocks.append(blk)
            continue
        if plan is None and clearrace and b > 0:
            # clear() called collectively and followed IMMEDIATELY (no barrier) by new operations: a rank that leaves
            # clear()'s barrier early issues them while a slower rank may still be inside that barrier
            blk["mut"], blk["mut_first"] = ["clear", "0"], True
            blk["mut_line"] = add("clear 0")
            keys = list(base)
            rnd.shuffle(keys)
            pops = []
            for k in keys[:rnd.randrange(3, len(keys) + 1)]:
                for _ in range(rnd.randrange(1, 5)):
                    pops.append((rnd.randrange(ranks), 0, fl.post_clear_op(rnd, k)))
            rnd.shuffle(pops)
            for (r, c, o) in pops:
                blk["ops"].append((add(f"o {r} {c} " + " ".join(o)), r, c, o))
            add("B")
            blk["F"][0] = add("forall 0")
            blk["F"][1] = add("forall 1")
            for d in fl.gen_obs(rnd, base, uni, ranks)[:3]:
                blk["obs"].append((add(" ".join(d)), d))
            add("B")
            blocks.append(blk)
            continue
        ops = []
        if plan is not None:
            ops = list(plan[1])
        elif kind in ("ops", "swap") or (kind in fl.mut_with_ops()):
            keys = list(base)
            rnd.shuffle(keys)
            if rnd.random() < 0.25:
                # sweeps: one or two ranks walk a run of keys in ascending resp. descending order (messages of one rank
                # reach an owner in issue order), so every owner stores smaller AND larger keys when the next one arrives
                sk = fl.sweep_keys()
                for _ in range(rnd.randrange(1, 3)):
                    r, c = rnd.randrange(ranks), 0 if rnd.random() < pc0 else 1
                    run = sk[rnd.randrange(0, 8):rnd.randrange(12, len(sk) + 1)]
                    for k in (run if rnd.random() < 0.5 else run[::-1]):
                        ops.append((r, c, fl.sweep_op(rnd, k)))
                blk["sweep"] = True
            elif onerank:
                n = int(rnd.randrange(30, 70) * scale)
                for _ in range(n):
                    k = rnd.choice(keys[:max(3, len(keys) // 2)]) if rnd.random() < 0.7 else rnd.choice(keys)
                    ops.append((0, 0 if rnd.random() < pc0 else 1, fl.rand_op(rnd, k)))
            else:
                ncont = rnd.randrange(2, 5)
                for k in keys[:ncont]:                       # contended keys, order-dependent
                    c = 0 if rnd.random() < pc0 else 1
                    for _ in range(rnd.randrange(2, MAXSEARCH + 1)):
                        ops.append((rnd.randrange(ranks), c, fl.rand_op(rnd, k)))
                rest = keys[ncont:]
                for k in rest[:rnd.randrange(0, 3)]:         # heavy keys, order-independent
                    c = 0 if rnd.random() < pc0 else 1
                    cls, hops = fl.heavy_ops(rnd, k, int(rnd.randrange(7, 30) * scale))
                    for o in hops:
                        ops.append((rnd.randrange(ranks), c, o))
                for k in rest[3:]:                           # singles, or a dependent pair issued by ONE rank (per-sender order)
                    if rnd.random() < 0.4:
                        r, c = rnd.randrange(ranks), 0 if rnd.random() < pc0 else 1
                        ops += [(r, c, o) for o in fl.pair_ops(rnd, k)]
                    elif rnd.random() < 0.6:
                        ops.append((rnd.randrange(ranks), 0 if rnd.random() < pc0 else 1, fl.rand_op(rnd, k)))
                rnd.shuffle(ops)
        for (r, c, o) in ops:
            maybe_sr(0.04)
            li = add(f"o {r} {c} " + " ".join(o))
            blk["ops"].append((li, r, c, o))
        if kind != "ops":
            blk["mut"] = fl.make_mut(rnd, kind)
        # closing: optionally an explicit barrier, then mutation, observations, the two for_alls
        if rnd.random() < 0.5:
            add("B")
            maybe_sr(0.5)
        if blk["mut"]:
            blk["mut_line"] = add(" ".join(blk["mut"]))
        obs = fl.gen_obs(rnd, base, uni, ranks)
        rnd.shuffle(obs)
        cut = rnd.randrange(0, len(obs) + 1)
        for d in obs[:cut]:
            blk["obs"].append((add(" ".join(d)), d))
        blk["F"][0] = add("forall 0")
        blk["F"][1] = add("forall 1")
        for d in obs[cut:]:
            blk["obs"].append((add(" ".join(d)), d))
        # no rank starts the next block before every rank has finished these observations (a rank still inside the
        # last collective could otherwise execute operations of the next block before its local for_all)
        add("B")
        blocks.append(blk)
    return {"lines": lines, "blocks": blocks, "dv": dv, "universe": uni, "base": base}


def map_gen_obs(fl, rnd, base, uni, ranks):
    obs = []
    for c in (0, 1):
        if rnd.random() < 0.7:
            obs.append(["size", str(c)])
        for _ in range(rnd.randrange(0, 3)):
            obs.append(["count", str(c), qt(rnd.choice(uni))])
        if rnd.random() < 0.6:
            ks = [rnd.choice(uni) for _ in range(rnd.randrange(0, 6))]
            if ks and rnd.random() < 0.4:
                ks.append(ks[0])                     # a key requested twice
            who = -1 if rnd.random() < 0.5 else rnd.randrange(ranks)
            obs.append(["gather", str(c), str(who)] + [qt(k) for k in ks])
        if rnd.random() < 0.6:
            obs.append(["topk", str(c), str(rnd.choice([0, 1, 2, 3, 5, 50]))])
    return obs


MapFlavour.gen_obs = map_gen_obs
MapFlavour.mut_kinds = lambda self: ["swap", "clear", "copy"]
MapFlavour.mut_with_ops = lambda self: ["swap"]
MapFlavour.make_mut = lambda self, rnd, kind: ["swap"] if kind == "swap" else ["clear", str(rnd.randrange(2))]


# ---------------------------------------------------------------------------------------- running + parsing

def run_case(binary, fl, case, scn_lines):
    d = tempfile.mkdtemp(prefix="ygm-c11-")
    try:
        p = os.path.join(d, "scenario.txt")
        with open(p, "w") as f:
            f.write("\n".join(scn_lines) + "\n")
        env = {"YGM_COMM_ROUTING": case["routing"]}
        if case["buffer"] is not None:
            env["YGM_COMM_BUFFER_SIZE_KB"] = case["buffer"]
        for knob, var in (("issend", "YGM_COMM_ISSEND_FREQ"), ("irecvs", "YGM_COMM_NUM_IRECVS"), ("isends_wait", "YGM_COMM_NUM_ISENDS_WAIT")):
            if case.get(knob) is not None:
                env[var] = case[knob]
        if case.get("placement") == "cyclic":
            env["SIMMPI_PLACEMENT"] = "cyclic"
        tc = case.get("twocomm")
        comms = f"{tc['order']}-{tc['split']}" if tc else "w"
        return C.run_sim(binary, [fl.what, fl.kinds, p, fl.variant, comms], nodes=case["nodes"], ppn=case["ppn"], env=env,
                         sim_seed=case["sim_seed"], policy=case["policy"], eager_pct=case.get("eager", 50), want_log=False,
                         timeout=case.get("timeout", 40), max_steps=400000, livelock=100000)
    finally:
        shutil.rmtree(d, ignore_errors=True)


def parse_rank(lines):
    """-> owners {key: rank}, segs {directive line: dict(events=[(kind, tokens)], ans=str|None)}, bad [lines]"""
    owners, segs, events, bad = {}, {}, [], []
    last = None
    for l in lines:
        w = l.split(" ")
        t = w[0]
        if t == "O":
            owners[uq(w[1])] = int(w[2])
        elif t == "I":
            events.append(("I", int(w[1])))
        elif t == "P":
            events.append(("P",))
        elif t == "cb":
            events.append(("cb", int(w[1]), w[2:]))
        elif t == "em":
            events.append(("em", int(w[1]), w[2:]))
        elif t == "M":
            last = int(w[1])
            segs[last] = {"events": events, "ans": None}
            events = []
        elif t in ("S", "C", "F", "G", "T") and last is not None:
            segs[last]["ans"] = l
        else:
            bad.append(l)
    return owners, segs, bad, events


def comm_layer_abort(sr):
    """messaging-layer failures that are the subject of C03 (not of the container semantics)"""
    e = sr.stderr or ""
    return ("comm.ipp" in e and "ASSERT" in e.upper()) or sr.verdict.startswith("deadlock")


# ---------------------------------------------------------------------------------------- analysis

class Analysis:
    """collects driver queries for one run; evaluated in one batch"""

    def __init__(self, fl, case, res):
        self.fl, self.case, self.res = fl, case, res
        self.lines, self.after = [], []
        self.fail_o, self.fail_c = [], []
        self.contended = 0
        self.tag = ""               # prefix of the oracle signatures of the current block

    def ask(self, line, fn):
        tag = self.tag

        def tagged(o):
            self.tag = tag
            try:
                fn(o)
            finally:
                self.tag = ""
        self.lines.append(line)
        self.after.append(tagged)

    def oracle(self, what, sig, **kw):
        self.fail_o.append({"what": what, "signature": f"{self.tag}{self.fl.what}-{sig}", "case": dict(self.case, **kw)})

    def corr(self, relation, what, **kw):
        self.fail_c.append({"relation": relation, "what": what, "case": dict(self.case, **kw)})

    def finish(self, model_ok):
        if model_ok and self.lines:
            out = C.model(self.fl.mode, self.lines)
            for o, fn, l in zip(out, self.after, self.lines):
                if o == "bad-op":
                    self.corr("driver accepts the line", "bad-op", line=l[:400])
                else:
                    fn(o)
        self.res.oracle_failures += self.fail_o[:6]
        self.res.corr_failures += self.fail_c[:6]
        return not self.fail_o and not self.fail_c


def restrict(scn, R):
    """the scenario as seen by a communicator of R ranks: ranks named by the script that do not exist issue nothing"""
    blocks = [dict(b, ops=[o for o in b["ops"] if o[1] < R]) for b in scn["blocks"]]
    return dict(scn, blocks=blocks)


def split_phases(outs):
    """per-process output -> {(phase, group): {rank in that communicator: lines}}, sizes {(phase, group): size}, order [phases]"""
    runs, sizes, order = {}, {}, []
    for w in sorted(outs):
        cur = None
        for l in outs[w]:
            if l.startswith("PH "):
                t = l.split()
                cur = (t[1], int(t[2]))
                runs.setdefault(cur, {})[int(t[3])] = []
                sizes[cur] = int(t[4])
                if t[1] not in order:
                    order.append(t[1])
                cur = runs[cur][int(t[3])]
            elif cur is not None:
                cur.append(l)
    return runs, sizes, order


def analyse(fl, scn, outs, R, case, res, model_ok):
    """compare one real run (one communicator of R ranks) with the model; returns True when everything agreed"""
    A = Analysis(fl, case, res)
    scn = restrict(scn, R)
    onerank = R == 1
    parsed = [parse_rank(outs.get(r, [])) for r in range(R)]
    owners = parsed[0][0]
    for r in range(R):
        if parsed[r][0] != owners:
            A.oracle(f"ranks 0 and {r} disagree on owners", "owner-disagree")
        if parsed[r][2]:
            A.corr("harness output well-formed", f"rank {r}: {parsed[r][2][:2]}")
    if any(o < 0 or o >= R for o in owners.values()):
        A.oracle("owner out of range", "owner-range")
    segs = [p[1] for p in parsed]
    cont = {0: {}, 1: {}}
    dflt = {0: scn["dv"][0], 1: scn["dv"][1]}
    prev_line = -1
    for bi, blk in enumerate(scn["blocks"]):
        # ---- events of this block = events of all segments whose directive line lies in (prev_line, F1 line]
        lastline = max([blk["F"][1]] + [li for li, _ in blk["obs"]])
        ev = {r: [] for r in range(R)}
        for r in range(R):
            for li in sorted(segs[r].keys()):
                if prev_line < li <= lastline:
                    ev[r] += segs[r][li]["events"]
        prev_line = lastline
        missing = [(r, li) for r in range(R) for li in [blk["F"][0], blk["F"][1]] if li not in segs[r]]
        if missing:
            A.corr("harness completed the scenario", f"no answer for directive {missing[0]}", block=bi)
            break
        # ---- real contents after the block (per container): union of the local for_alls
        F = {}
        for c in (0, 1):
            F[c] = {}
            for r in range(R):
                loc = fl.parse_F(segs[r][blk["F"][c]]["ans"])
                for k, vs in loc.items():
                    if owners.get(k) != r:
                        A.oracle(f"key {k!r} stored on rank {r}, owner is {owners.get(k)}", "stored-off-owner", block=bi, key=k)
                    if k in F[c]:
                        A.oracle(f"key {k!r} stored on two ranks", "stored-twice", block=bi, key=k)
                    F[c].setdefault(k, [])
                    F[c][k] = F[c][k] + vs
        # ---- undo the mutation to obtain the contents right after the operations
        mut = blk["mut"]
        if blk.get("redswap"):
            res.count("blocks: reductions around a swap (opposite key order)")
        res.count("block:" + ("+".join(mut[:1] + mut[2:3]) if mut else ("sweep asc/desc" if blk.get("sweep") else "ops")) + ("" if blk["ops"] else "(no ops)")
                  + (" then ops without barrier" if blk.get("mut_first") else ""))
        for (_, d) in blk["obs"]:
            res.count("obs:" + d[0])
        Q = {0: F[0], 1: F[1]}
        d_ops = dict(dflt)
        post_expect = None
        if mut and mut[0] == "swap":
            Q = {0: F[1], 1: F[0]}
            dflt = {0: dflt[1], 1: dflt[0]}
        elif mut and mut[0] == "copy":
            # container 1 = copy of container 0: same contents, same default value (MapOps.copy_same_default); afterwards the
            # two are independent (copy_independent) — the operations of this block are judged against that
            A.tag = "map-copy "
            cont = {0: cont[0], 1: {k: list(v) for k, v in cont[0].items()}}
            dflt = {0: dflt[0], 1: dflt[0]}
            d_ops = dict(dflt)
        elif mut and mut[0] == "clear" and blk.get("mut_first"):
            # clear(), then (without a barrier) the operations of this block: they belong to the new contents
            A.tag = ("map" if fl.mode == "map" else "set") + "-clear-race "
            cont = {int(mut[1]): {}, 1 - int(mut[1]): cont[1 - int(mut[1])]}
        elif mut and mut[0] == "clear":
            c = int(mut[1])
            if F[c]:
                A.oracle(f"container {c} not empty after clear()", "clear-not-empty", block=bi, left=fl.state_tokens(F[c])[:200])
            Q = {c: cont[c], 1 - c: F[1 - c]}
        elif mut:
            Q, post_expect = fl.undo_mut(A, mut, bi, cont, F, ev, owners, R)
        # ---- 1 rank: the execution order is the order in which operations were packed into the send buffer (`P`)
        pack_order = []
        if onerank:
            line_op = {li: (cc, o) for (li, r, cc, o) in blk["ops"]}
            pend_main, pend_em, consuming = None, None, False
            for e in ev[0]:
                if e[0] == "I":
                    pend_main = line_op.get(e[1])
                elif e[0] == "cb":
                    consuming = fl.is_consume_cb(e[2])
                elif e[0] == "em":
                    pend_em = (e[1], e[2], consuming)
                elif e[0] == "P":
                    if pend_em is not None:
                        if not pend_em[2]:
                            pack_order.append((pend_em[0], pend_em[1]))
                        pend_em = None
                    elif pend_main is not None:
                        pack_order.append(pend_main)
                        pend_main = None
        # ---- operations of the block, per container: main + handler-issued
        for c in (0, 1):
            main = [(li, r, o) for (li, r, cc, o) in blk["ops"] if cc == c]
            cbs_by_key, em_by_parent, em_all, cbseq, emseq, order = {}, {}, [], [], [], []
            em_rank = []
            for r in range(R):
                lastcb, in_consume = None, False
                for e in ev[r]:
                    if e[0] == "cb" and e[1] == c:
                        in_consume = fl.is_consume_cb(e[2])
                        if in_consume:
                            continue
                        k = fl.cb_key(e[2])
                        if owners.get(k) != r:
                            A.oracle(f"callback for key {k!r} ran on rank {r}, owner is {owners.get(k)}", "callback-off-owner", block=bi, key=k)
                        cbs_by_key.setdefault(k, []).append(e[2])
                        cbseq.append(e[2])
                        lastcb = k
                    elif e[0] == "em" and e[1] == c:
                        if in_consume:
                            continue
                        em_by_parent.setdefault(lastcb, []).append(e[2])
                        em_all.append(e[2])
                        em_rank.append(r)
                        emseq.append(e[2])
            order = [o for (cc, o) in pack_order if cc == c]
            allops = [o for (_, _, o) in main] + em_all
            if onerank:
                # ------------------------------------------------ (a) exact sequence semantics
                if len(order) != len(allops):
                    A.corr("every issued operation is logged", f"{len(order)} logged, {len(allops)} issued", block=bi)
                st_line = f"run|{fl.model_prefix(d_ops[c])}|{fl.state_tokens(cont[c])}|" + ";".join(" ".join(o) for o in order)

                def chk(o, c=c, bi=bi, cbseq=cbseq, emseq=emseq, order=order, Qc=Q[c], pre=cont[c]):
                    f = o.split("|")
                    mst = fl.parse_state(f[0])
                    mem = [x.split() for x in f[1].split(";") if x.strip()]
                    mcb = [x.split() for x in f[2].split(";") if x.strip()]
                    ctx = dict(block=bi, container=c, pre=fl.state_tokens(pre)[:300], ops=[" ".join(x) for x in order][:80])
                    if mcb != cbseq:
                        i = next((i for i, (a, b) in enumerate(zip(mcb, cbseq)) if a != b), min(len(mcb), len(cbseq)))
                        A.oracle(f"visitor log differs from the sequential semantics at call {i}: real {cbseq[i:i+1]} model {mcb[i:i+1]}",
                                 "seq-callbacks", real=len(cbseq), model=len(mcb), **ctx)
                    elif mem != emseq:
                        A.corr("operations issued by callbacks", f"real {emseq[:3]} model {mem[:3]}", **ctx)
                    if fl.norm_state(mst) != fl.norm_state(Qc):
                        dk = [k for k in set(mst) | set(Qc) if fl.norm_state({k: mst.get(k, [])}) != fl.norm_state({k: Qc.get(k, [])})]
                        A.oracle(f"contents differ from the sequential semantics for keys {sorted(dk)[:4]}: real "
                                 f"{[Qc.get(k) for k in sorted(dk)[:4]]} model {[mst.get(k) for k in sorted(dk)[:4]]}", "seq-contents", **ctx)
                if order or cont[c] or Q[c]:
                    A.ask(st_line, chk)
                if len(order) >= 20:
                    A.contended += 1
            else:
                # ------------------------------------------------ (b) per key
                # operations of one source (the main program of rank r, resp. the handlers of rank r) to one owner arrive in
                # the order they were issued (per-sender FIFO): the order search keeps that order within every source
                by_key = {}
                for (li, r, o) in main:
                    by_key.setdefault(fl.op_key(o), {"ops": [], "ranks": set(), "src": []})
                    by_key[fl.op_key(o)]["ops"].append(o)
                    by_key[fl.op_key(o)]["src"].append(f"@m{r}")
                    by_key[fl.op_key(o)]["ranks"].add(r)
                for o, er in zip(em_all, em_rank):
                    by_key.setdefault(fl.op_key(o), {"ops": [], "ranks": set(), "src": []})
                    by_key[fl.op_key(o)]["ops"].append(o)
                    by_key[fl.op_key(o)]["src"].append(f"@e{er}")
                    by_key[fl.op_key(o)]["ranks"].add(-1)
                for k in set(cont[c]) | set(Q[c]) | set(cbs_by_key):
                    if k not in by_key:
                        if fl.norm_state({k: cont[c].get(k, [])}) != fl.norm_state({k: Q[c].get(k, [])}):
                            A.oracle(f"key {k!r} changed without any operation on it: {cont[c].get(k)} -> {Q[c].get(k)}", "untouched-changed", block=bi, key=k)
                        if cbs_by_key.get(k):
                            A.oracle(f"callback for key {k!r} without any operation on it", "spurious-callback", block=bi, key=k)
                for k, info in by_key.items():
                    ops = info["ops"]
                    pre_k = {k: cont[c].get(k, [])} if cont[c].get(k) else {}
                    post_k = {k: Q[c].get(k, [])} if Q[c].get(k) else {}
                    cbs_k = cbs_by_key.get(k, [])
                    em_k = em_by_parent.get(k, [])
                    ctx = dict(block=bi, container=c, key=k, pre=pre_k.get(k, []), ops=[sr_ + " " + " ".join(x) for sr_, x in zip(info["src"], ops)][:40], real=post_k.get(k, []),
                               real_callbacks=[" ".join(x) for x in cbs_k][:40])
                    if len(info["ranks"]) >= 2 and len(ops) >= 2:
                        A.contended += 1
                    if len(ops) <= MAXSEARCH:
                        res.count("key-blocks-searched")
                        line = (f"explain|{fl.model_prefix(d_ops[c])}|{fl.state_tokens(pre_k)}|" + ";".join(sr_ + " " + " ".join(o) for sr_, o in zip(info["src"], ops))
                                + f"|{fl.state_tokens(post_k)}|" + ";".join(" ".join(x) for x in cbs_k))

                        def chk(o, ctx=ctx, em_k=em_k):
                            if o == "none":
                                A.oracle(f"no sequential order (keeping every sender's program order) of the {len(ctx['ops'])} operations on key "
                                         f"{ctx['key']!r} explains the final values {ctx['real']} and the callback log", "no-sequential-order", **ctx)
                                return
                            f = o.split("|")
                            mem = [x.split() for x in f[1].split(";") if x.strip()]
                            if mem != em_k:
                                A.corr("operations issued by callbacks", f"key {ctx['key']!r}: real {em_k[:3]} model {mem[:3]}", **ctx)
                        A.ask(line, chk)
                    else:
                        cls = fl.heavy_class(ops)
                        if cls is None:
                            res.count("key-blocks-unverified(mixed heavy)")
                            continue
                        res.count("key-blocks-order-independent")
                        line = f"run|{fl.model_prefix(d_ops[c])}|{fl.state_tokens(pre_k)}|" + ";".join(" ".join(o) for o in ops)

                        def chk(o, ctx=ctx, cls=cls, post_k=post_k, cbs_k=cbs_k, k=k, em_k=em_k):
                            f = o.split("|")
                            mst = fl.parse_state(f[0])
                            mem = [x.split() for x in f[1].split(";") if x.strip()]
                            mcb = [x.split() for x in f[2].split(";") if x.strip()]
                            if fl.canon(mst.get(k, []), cls) != fl.canon(post_k.get(k, []), cls):
                                A.oracle(f"order-independent workload ({cls}) on key {k!r}: real {post_k.get(k)} model {mst.get(k)}", "order-independent-differs", **ctx)
                            if mcb != cbs_k:
                                A.oracle(f"order-independent workload ({cls}) on key {k!r}: callback log differs: real {cbs_k[:4]} ({len(cbs_k)}) "
                                         f"model {mcb[:4]} ({len(mcb)})", "order-independent-callbacks", **ctx)
                            elif mem != em_k:
                                A.corr("operations issued by callbacks", f"key {k!r}: real {em_k[:3]} model {mem[:3]}", **ctx)
                        A.ask(line, chk)
        # ---- observations against the abstract contents (after the mutation) on every rank
        cont = {0: F[0], 1: F[1]}
        if mut and mut[0] == "clear":
            pass
        if post_expect is not None:
            post_expect()
        fl.check_obs(A, blk, bi, cont, segs, R)
        A.tag = ""
    ok = A.finish(model_ok)
    return ok, A.contended


def map_check_obs(fl, A, blk, bi, cont, segs, R):
    for (li, d) in blk["obs"]:
        c = int(d[1])
        st = fl.state_tokens(cont[c])
        answers = [segs[r].get(li, {}).get("ans") for r in range(R)]
        if any(a is None for a in answers):
            A.corr("harness completed the scenario", f"no answer for directive {li} {d}", block=bi)
            continue
        npairs = sum(len(v) for v in cont[c].values())
        if d[0] == "size":
            if any(a != f"S {npairs}" for a in answers):
                A.oracle(f"size() = {answers} but for_all presents {npairs} pairs", "size", block=bi, directive=d)
            A.ask(f"q|{fl.qprefix()}|{st}|size", lambda o, answers=answers, bi=bi, d=d: (o != answers[0][2:]) and A.corr(
                "MapOps.size == size()", f"model {o} real {answers[0]}", block=bi, directive=d))
        elif d[0] == "count":
            n = len(cont[c].get(uq(d[2]), []))
            if any(a != f"C {n}" for a in answers):
                A.oracle(f"count({d[2]}) = {answers} but for_all presents {n}", "count", block=bi, directive=d)
            A.ask(f"q|{fl.qprefix()}|{st}|count {d[2]}", lambda o, answers=answers, bi=bi, d=d: (o != answers[0][2:]) and A.corr(
                "MapOps.count == count()", f"model {o} real {answers[0]}", block=bi, directive=d))
        elif d[0] == "gather":
            who = int(d[2])
            keys = d[3:]
            for r in range(R):
                got = sorted((k, v) for k, vs in fl.parse_F(answers[r]).items() for v in vs)
                if who >= 0 and who != r:
                    if got:
                        A.oracle(f"all_gather returned data on rank {r} which asked for nothing", "gather-spurious", block=bi, directive=d)
                    continue
                exp = []
                if fl.multi:
                    for k in keys:
                        exp += [(uq(k), v) for v in cont[c].get(uq(k), [])]
                else:
                    for k in sorted(set(keys)):
                        if cont[c].get(uq(k)):
                            exp.append((uq(k), cont[c][uq(k)][0]))
                if got != sorted(exp):
                    A.oracle(f"all_gather on rank {r}: got {got[:6]} expected {sorted(exp)[:6]}", "gather", block=bi, directive=d, rank=r)

                def chk(o, got=got, r=r, bi=bi, d=d):
                    mg = sorted((k, v) for k, vs in fl.parse_state(o).items() for v in vs)
                    if mg != got:
                        A.corr("MapOps.allGather == all_gather", f"rank {r}: model {mg[:6]} real {got[:6]}", block=bi, directive=d)
                A.ask(f"q|{fl.qprefix()}|{st}|{'gatherm' if fl.multi else 'gatheru'} " + " ".join(keys), chk)
        elif d[0] == "topk":
            if len(set(answers)) != 1:
                A.oracle("topk differs between ranks", "topk-rank-disagree", block=bi, directive=d, answers=answers[:3])
            n = int(d[2])
            pairs = [(k, v) for k, vs in cont[c].items() for v in vs]
            kf = (lambda x: int(x)) if fl.kk in "iu" else (lambda x: x)
            vf = (lambda x: int(x)) if fl.vk in "iu" else (lambda x: x)
            import functools

            def cmpf(a, b):
                if vf(a[1]) != vf(b[1]):
                    return -1 if vf(a[1]) > vf(b[1]) else 1
                if kf(a[0]) != kf(b[0]):
                    return -1 if kf(a[0]) < kf(b[0]) else 1
                return 0
            exp = sorted(pairs, key=functools.cmp_to_key(cmpf))[:n]
            got = [tuple(uq(t) for t in it.split()) for it in answers[0][1:].split(";") if it.strip()]
            if got != exp:
                A.oracle(f"topk({n}) = {got[:5]} expected {exp[:5]}", "topk", block=bi, directive=d)

            def chk(o, got=got, bi=bi, d=d):
                mg = [tuple(uq(t) for t in it.split()) for it in o.split(";") if it.strip()]
                if mg != got:
                    A.corr("MapOps.topk == topk", f"model {mg[:5]} real {got[:5]}", block=bi, directive=d)
            A.ask(f"q|{fl.qprefix()}|{st}|topk {n}", chk)


MapFlavour.check_obs = map_check_obs
MapFlavour.norm_state = lambda self, st: {k: list(v) for k, v in st.items() if v}
MapFlavour.is_consume_cb = lambda self, cb: False


# ---------------------------------------------------------------------------------------- case lists

RACE_LAYOUTS = [(1, 2), (1, 3), (2, 2), (1, 5), (2, 3), (1, 4), (1, 6), (3, 2)]


def clear_race_cases(flavours, tier, seed):
    """clear() followed immediately (no barrier) by new operations, 2..6 ranks, racer / late / burst, capacity 0 / default.
    map_impl::clear() / set_impl::clear() are `barrier(); local clear;`: a rank still inside that barrier executes the
    early operations of a faster rank and then wipes them (known finding; OFF unless C1x_POST_CLEAR_NOBARRIER=1)."""
    rnd = random.Random(seed * 104729 + 5)
    cases = []
    for i in range((40 if tier == "quick" else 300) * len(flavours)):
        nodes, ppn = RACE_LAYOUTS[i % len(RACE_LAYOUTS)]
        cases.append({"fl": flavours[i % len(flavours)], "nodes": nodes, "ppn": ppn, "routing": ROUTINGS[i % 3], "buffer": [0, None][(i // 3) % 2],
                      "policy": ["racer", "late", "burst"][(i // 2) % 3], "sim_seed": rnd.randrange(1, 1 << 30),
                      "gen_seed": rnd.randrange(1 << 30), "blocks": 4, "eager": rnd.choice([0, 50, 100]), "clearrace": True})
    return cases


def copy_loop_cases(flavours, tier, seed):
    """several copy constructions in a row, each followed at once by operations on the copy from some ranks while others lag
    (rank-skewed work before the copy), mostly capacity 0, racer / late / burst"""
    rnd = random.Random(seed * 15485863 + 3)
    fls = [f for f in flavours if f.mode == "map"]
    cases = []
    for i in range((16 if tier == "quick" else 150) * len(fls)):
        nodes, ppn = LAYOUTS[i % len(LAYOUTS)]
        cases.append({"fl": fls[i % len(fls)], "nodes": nodes, "ppn": ppn, "routing": ROUTINGS[i % 3], "buffer": [0, 0, None][(i // 3) % 3],
                      "policy": ["racer", "late", "burst"][(i // 2) % 3], "sim_seed": rnd.randrange(1, 1 << 30),
                      "gen_seed": rnd.randrange(1 << 30), "blocks": 6, "eager": rnd.choice([0, 50, 100]), "copyloop": True})
    return cases


def env_knobs(cases, seed):
    """environment dimension, rotated over the existing cases (recorded in the case): YGM_COMM_ISSEND_FREQ in {0, 1, 8},
    YGM_COMM_NUM_IRECVS in {1, 2, 8}, YGM_COMM_NUM_ISENDS_WAIT in {0, 1, 4}; cyclic placement for a third of the multi-node cases"""
    per = {}
    for case in cases:
        key = (case["fl"].what, case["fl"].kinds, case["fl"].variant)
        j = per.get(key, len(per) * 5 + seed)      # a different phase per flavour
        per[key] = j + 1
        case["issend"] = [8, 0, 1][j % 3]
        case["irecvs"] = [8, 1, 2][(j // 3 + j) % 3]
        case["isends_wait"] = [4, 0, 1][(j // 9 + j // 2) % 3]
        if case["nodes"] > 1 and j % 3 == 2:
            case["placement"] = "cyclic"
        # capacity 0 together with 8 posted receives: messages of one sender travel one by one and several can be complete at a poll
        if case["nodes"] * case["ppn"] > 1 and j % 7 == 3:
            case["buffer"], case["irecvs"] = 0, 8
    return cases


def make_cases(flavours, tier, seed):
    rnd = random.Random(seed * 7919 + 11)
    cases = []
    n1 = 4 if tier == "quick" else 24
    # (a) one rank: every flavour x buffer
    for fl in flavours:
        for buf in BUFFERS:
            for j in range(n1):
                cases.append({"fl": fl, "nodes": 1, "ppn": 1, "routing": rnd.choice(ROUTINGS), "buffer": buf, "policy": rnd.choice(POLICIES),
                              "sim_seed": rnd.randrange(1, 1 << 30), "gen_seed": rnd.randrange(1 << 30), "blocks": 5 if tier == "quick" else 8,
                              "eager": rnd.choice([0, 50, 100]), "scale": 1.0 if tier == "quick" else rnd.choice([1.0, 2.0])})
    # (b) distributed: rotate through layouts x routings x buffers x policies
    nd = (60 if tier == "quick" else 1200) * len(flavours)
    off = rnd.randrange(1000)
    for i in range(nd):
        fl = flavours[i % len(flavours)]
        j = i + off
        nodes, ppn = LAYOUTS[j % len(LAYOUTS)]
        cases.append({"fl": fl, "nodes": nodes, "ppn": ppn, "routing": ROUTINGS[(j // 2) % 3], "buffer": BUFFERS[(j // 3 + j) % 3],
                      "policy": POLICIES[(j // 5 + j) % 5], "sim_seed": rnd.randrange(1, 1 << 30), "gen_seed": rnd.randrange(1 << 30),
                      "blocks": 4 if tier == "quick" else 7, "eager": rnd.choice([0, 50, 100]),
                      "scale": 1.0 if tier == "quick" else rnd.choice([1.0, 1.0, 3.0])})
        if i % 4 == 1:
            # two communicators in one process: the scenario runs on a sub-communicator (MPI_Comm_split of the world) and on
            # the world communicator, same code and types; state wrongly kept per process is initialised by the first run
            cases[-1]["twocomm"] = {"order": "sw" if (i // 4) % 3 != 2 else "ws", "split": "last" if (i // 4) % 2 == 0 else "parity"}
            if tier != "quick":
                cases[-1]["scale"] = 1.0
    return cases


def case_public(case):
    d = {k: v for k, v in case.items() if k != "fl"}
    d["what"], d["kinds"], d["variant"] = case["fl"].what, case["fl"].kinds, case["fl"].variant
    return d


_RETRIES = [0]


def do_case(binary, case, model_ok, res_factory=C.Result):
    """generate, run, analyse one case -> (case, Result fragment, info)"""
    fl = case["fl"]
    R = case["nodes"] * case["ppn"]
    rnd = random.Random(case["gen_seed"])
    scn = gen_scenario(fl, rnd, R, case["blocks"], R == 1, scale=case.get("scale", 1.0), clearrace=case.get("clearrace", False),
                       copyloop=case.get("copyloop", False))
    sr = run_case(binary, fl, case, scn["lines"])
    if sr.verdict == "wall-timeout" and _RETRIES[0] < 8:   # a loaded machine is not a violation: once more with a generous limit
        _RETRIES[0] += 1                                  # (bounded: a tree that really hangs must not stall the check)
        sr = run_case(binary, fl, dict(case, timeout=150), scn["lines"])
    frag = res_factory()
    pub = case_public(case)
    info = {"verdict": sr.verdict, "nops": sum(len(b["ops"]) for b in scn["blocks"]), "contended": 0, "skipped": False}
    if sr.verdict != "ok":
        if comm_layer_abort(sr):
            info["skipped"] = True
            info["why"] = (sr.verdict + " " + (sr.stderr or "")[-160:].replace("\n", " "))
            return case, frag, info
        frag.oracle_failures.append({"what": f"real run failed: {sr.verdict}", "signature": f"{fl.what}-run-failed {sr.verdict.split(':')[0]}",
                                     "case": dict(pub, stderr=(sr.stderr or "")[-400:])})
        return case, frag, info
    runs, sizes, order = split_phases(sr.outs)
    expect = [("world", 0)]
    tc = case.get("twocomm")
    if tc:
        expect += [("sub", 0), ("sub", 1)]
    contended = 0
    for key in expect:
        if key not in runs or len(runs[key]) != sizes.get(key):
            frag.corr_failures.append({"relation": "harness completed the scenario", "what": f"no / incomplete output for run {key}", "case": pub})
            continue
        if key[0] == "world":
            if sizes[key] != R:
                frag.corr_failures.append({"relation": "world communicator size", "what": f"{sizes[key]} != {R}", "case": pub})
                continue
            _, cn = analyse(fl, scn, runs[key], R, dict(pub, run="world" + (" (" + ("second" if order[0] == "sub" else "first") + ")" if tc else "")),
                            frag, model_ok)
            contended += cn
        else:
            # the same scenario on a sub-communicator of the same process, same template instantiations
            analyse(fl, scn, runs[key], sizes[key], dict(pub, run=f"sub-communicator group {key[1]} of {sizes[key]} ranks "
                                                         f"({'first' if order[0] == 'sub' else 'second'})"), frag, model_ok)
            frag.count("runs on a sub-communicator (judged)")
    info["contended"] = contended
    return case, frag, info


def run_flavours(flavours, tier, seed, model_ok, rule, assumptions, race_env=None):
    res = C.Result()
    res.rule = rule
    res.assumptions = assumptions
    binary, err = C.build_harness("mapset")
    if binary is None:
        res.corr_failures.append({"relation": "harness builds against /repo", "what": err[-800:], "case": None})
        return res
    if not model_ok:
        res.corr_failures.append({"relation": "model driver available", "what": "Lean library does not build", "case": None})
    cases = make_cases(flavours, tier, seed) + copy_loop_cases(flavours, tier, seed)
    if race_env and os.environ.get(race_env, "1") == "1":
        cases += clear_race_cases(flavours, tier, seed)
        res.notes.append("clear() followed immediately by operations without a barrier is included (defect D10/D11 repaired in /repo)")
    elif race_env:
        res.notes.append(f"scenario 'clear() followed immediately by new operations, no barrier' is OFF (known finding *-clear-race); "
                         f"enable with {race_env}=1")
    env_knobs(cases, seed)
    out = C.pmap(lambda c: do_case(binary, c, model_ok), cases)
    for case, frag, info in out:
        fl = case["fl"]
        R = case["nodes"] * case["ppn"]
        res.evaluations += 1
        res.oracle_failures += frag.oracle_failures
        res.corr_failures += frag.corr_failures
        for k, v in frag.distribution.items():
            res.count(k, v)
        res.count(f"{fl.what}/{fl.kinds}/" + {"d": "default", "g": "std::greater", "p": "alt_compare+alt_partitioner"}[fl.variant])
        res.count("ranks=" + str(R))
        res.count("routing=" + case["routing"])
        res.count("buffer=" + str(case["buffer"]))
        res.count("policy=" + case["policy"])
        res.count(f"issend_freq={case.get('issend')}")
        res.count(f"num_irecvs={case.get('irecvs')}")
        res.count(f"num_isends_wait={case.get('isends_wait')}")
        if case.get("placement"):
            res.count("placement=cyclic")
        res.count(f"{fl.what} buffer={case['buffer']}")
        res.count("operations", info["nops"])
        if case.get("clearrace"):
            res.count("cases: clear() then operations without barrier")
        if case.get("copyloop"):
            res.count("cases: loop of copy constructions, each used at once")
        if case.get("twocomm"):
            res.count(f"cases: two communicators in one process ({case['twocomm']['order']}, split {case['twocomm']['split']})")
        if info["skipped"]:
            res.count("skipped: messaging-layer abort (C03)")
            res.notes.append(f"skipped {case_public(case)}: {info['why']}")
            continue
        if info["verdict"] == "ok":
            res.traces_validated += 1
            if info["contended"]:
                res.distinct.add((fl.what, fl.kinds, fl.variant, case["nodes"], case["ppn"], case["routing"], case["buffer"], case["policy"], case["gen_seed"]))
            res.count("contended key-blocks" if R > 1 else "1-rank blocks >= 20 ops", info["contended"])
            if len(res.samples) < 3 and R > 1:
                res.sample(dict(case_public(case), operations=info["nops"], contended_key_blocks=info["contended"]))
    return res


# ---------------------------------------------------------------------------------------- key equivalence
# A key of ygm::container::map / set is what Compare (operator==) says it is, not its object representation: the container
# must behave like ONE sequential std::map / std::set with that Compare.  Key types whose bytes are not 1:1 with their
# value (harness/mapset.cpp, `keyeq`):  d double (+0.0 / -0.0),  v struct {id; tag} compared / hashed by id only,
# p struct {uint8 a; uint64 b} with garbage in its padding bytes.  Every logical key is operated on from several ranks
# through DIFFERENT representations; within a phase all operations on one logical key commute (or there is only one), so
# the sequential result is known in closed form: size() = number of distinct keys, count <= 1, value per key, erase
# removes the key everywhere, all_gather returns the one value.

KEQ_LAYOUTS = {"d": [(1, 3), (1, 5), (2, 3), (1, 7)],      # +0.0 / -0.0 can only part on rank counts that are no power of two
               "v": [(1, 2), (1, 3), (2, 2), (1, 5), (2, 3), (1, 7), (2, 4)],
               "p": [(1, 2), (1, 3), (2, 2), (1, 5), (2, 3), (1, 7), (2, 4)]}
KEQ_NAMES = {"d": "double", "v": "struct{id;tag} compared by id", "p": "struct{uint8;uint64} with padding"}


def keq_canon(kind, tok):
    """logical key of a key token (scenario token or harness output), as a hashable"""
    t = tok[1:] if tok.startswith("=") else tok
    if kind == "d":
        return float(t) + 0.0            # -0.0 + 0.0 == +0.0
    f = t.split(":")
    return int(f[0]) if kind == "v" else (int(f[0]), int(f[1]))


def keq_logical(kind, rnd):
    """the logical keys of a scenario: list of (canonical key, [representations])"""
    if kind == "d":
        others = ["1.5", "-1.5", "2.5", "1e-300", "3", "-7.25", "1e300", "4.9e-324"]
        rnd.shuffle(others)
        return [(0.0, ["0.0", "-0.0"])] + [(float(x) + 0.0, [x]) for x in others[:rnd.randrange(2, 5)]]
    if kind == "v":
        ids = rnd.sample([0, 1, 2, 3, 5, 8, 1000, 65536, (1 << 32) - 1], rnd.randrange(4, 8))
        return [(i, [f"{i}:{t}" for t in rnd.sample([0, 1, 2, 7, 255, 12345, 1 << 31, (1 << 32) - 1], 4)]) for i in ids]
    combos = rnd.sample([(a, b) for a in (0, 1, 7, 255) for b in (0, 1, 255, (1 << 40) + 3, (1 << 64) - 1)], rnd.randrange(4, 8))
    return [((a, b), [f"{a}:{b}:{g}" for g in rnd.sample([0, 1, 17, 90, 171, 255], 4)]) for (a, b) in combos]


def keq_gen(kind, cont, R, rnd, nphases):
    """-> lines, phases [dict(expected, obs=[(line, directive tokens)], multi=set of logical keys hit through >= 2 representations)]"""
    logical = keq_logical(kind, rnd)
    model, lines, phases = {}, [], []
    seen_reps = {}

    def pick_reps(reps, n):
        out = [rnd.choice(reps) for _ in range(n)]
        if n >= 2 and len(reps) >= 2 and len(set(out)) < 2:
            out[0], out[1] = rnd.sample(reps, 2)
        return out

    for ph in range(nphases):
        ops = []
        for (lk, reps) in logical:
            if cont == "set":
                cls = rnd.choice(["ins", "ins", "ins", "era", "none"] if ph else ["ins", "ins", "ins", "none"])
            else:
                cls = rnd.choice(["plus", "plus", "plus", "ins", "iim", "vie", "era", "none"] if ph else ["plus", "plus", "plus", "ins", "iim", "none"])
            if cls == "none" and len(reps) >= 2 and rnd.random() < 0.7:
                cls = "ins" if cont == "set" else "plus"
            if cls == "none":
                continue
            n = 1 if (cls == "ins" and cont == "map") else rnd.randrange(2, R + 3) if cls != "era" else rnd.randrange(1, 4)
            rs = pick_reps(reps, n)
            if n == 1 and lk in model and len(reps) >= 2:
                # overwrite through a representation other than the one(s) that created the entry
                fresh = [x for x in reps if x not in seen_reps.get(lk, set())]
                rs = [rnd.choice(fresh or reps)]
            ranks = [rnd.randrange(R) for _ in range(n)]
            if n >= 2 and len(set(ranks)) < 2 and R >= 2:
                ranks[1] = (ranks[0] + 1 + rnd.randrange(R - 1)) % R
            seen_reps.setdefault(lk, set()).update(rs)
            if cont == "set":
                for r, rep in zip(ranks, rs):
                    ops.append(f"o {r} {cls} ={rep}")
                if cls == "ins":
                    model[lk] = None
                else:
                    model.pop(lk, None)
            elif cls == "plus":
                tot = 0
                for r, rep in zip(ranks, rs):
                    o = rnd.choice(["vis", "red", "iev"])
                    v = 1 if o == "vis" else rnd.randrange(1, 50)
                    tot += v
                    ops.append(f"o {r} {o} ={rep}" + ("" if o == "vis" else f" {v}"))
                model[lk] = model.get(lk, 0) + tot
            elif cls == "ins":
                v = rnd.randrange(100, 1000)
                ops.append(f"o {ranks[0]} ins ={rs[0]} {v}")
                model[lk] = v
            elif cls == "iim":
                v = rnd.randrange(1000, 2000)
                for r, rep in zip(ranks, rs):
                    ops.append(f"o {r} iim ={rep} {v}")
                model.setdefault(lk, v)
            elif cls == "vie":
                for r, rep in zip(ranks, rs):
                    ops.append(f"o {r} vie ={rep}")
                if lk in model:
                    model[lk] += n
            else:
                for r, rep in zip(ranks, rs):
                    ops.append(f"o {r} era ={rep}")
                model.pop(lk, None)
        rnd.shuffle(ops)
        lines += ops
        lines.append("B")
        obs = []

        def add(d):
            lines.append(" ".join(d))
            obs.append((len(lines) - 1, d))
            if d[0] in ("count", "gather"):          # a query through another representation than the one that stored the key
                for k in d[1 if d[0] == "count" else 2:]:
                    seen_reps.setdefault(keq_canon(kind, k), set()).add(k[1:])
        add(["size"])
        for (lk, reps) in logical:
            add(["own"] + ["=" + x for x in reps])
        add(["forall"])
        for (lk, reps) in rnd.sample(logical, min(len(logical), 4)):
            for rep in (reps if len(reps) == 2 else rnd.sample(reps, 1)):
                add(["count", "=" + rep])
        if cont == "map":
            ks = [rnd.choice(reps) for (lk, reps) in rnd.sample(logical, min(len(logical), 3))]
            add(["gather", str(rnd.choice([-1, rnd.randrange(R)]))] + ["=" + k for k in ks])
        lines.append("B")
        phases.append({"expected": dict(model), "obs": obs, "multi": {lk for lk, rs_ in seen_reps.items() if len(rs_) >= 2}})
    return lines, phases


def keq_jobs(tier, seed):
    rnd = random.Random(seed * 611953 + 17)
    jobs, i = [], 0
    for rep in range(2 if tier == "quick" else 16):
        for kind in "dvp":
            for cont in ("map", "set"):
                for (nodes, ppn) in KEQ_LAYOUTS[kind]:
                    i += 1
                    jobs.append({"harness": "keyeq", "kind": kind, "container": cont, "nodes": nodes, "ppn": ppn, "routing": ROUTINGS[(i + rep) % 3],
                                 "buffer": BUFFERS[(i // 3 + rep) % 3], "policy": POLICIES[(i + 2 * rep + seed) % 5], "sim_seed": rnd.randrange(1, 1 << 30),
                                 "gen_seed": rnd.randrange(1 << 30), "phases": 4 if tier == "quick" else 6})
    return jobs


def keq_run_job(binary, j):
    R = j["nodes"] * j["ppn"]
    lines, phases = keq_gen(j["kind"], j["container"], R, random.Random(j["gen_seed"]), j["phases"])
    d = tempfile.mkdtemp(prefix="ygm-c11-")
    try:
        p = os.path.join(d, "scenario.txt")
        with open(p, "w") as f:
            f.write("\n".join(lines) + "\n")
        env = {"YGM_COMM_ROUTING": j["routing"]}
        if j["buffer"] is not None:
            env["YGM_COMM_BUFFER_SIZE_KB"] = j["buffer"]
        sr = C.run_sim(binary, ["keyeq", j["kind"] + j["container"][0], p], nodes=j["nodes"], ppn=j["ppn"], env=env, sim_seed=j["sim_seed"],
                       policy=j["policy"], want_log=False, timeout=j.get("timeout", 60), max_steps=400000, livelock=100000)
    finally:
        shutil.rmtree(d, ignore_errors=True)
    return lines, phases, sr


def keq_judge(res, j, lines, phases, sr):
    kind, cont, R = j["kind"], j["container"], j["nodes"] * j["ppn"]
    res.evaluations += 1
    res.count(f"keyeq {cont}<{KEQ_NAMES[kind]}> ranks={R}")
    if sr.verdict != "ok":
        if comm_layer_abort(sr):
            res.count("skipped: messaging-layer abort (C03)")
            return
        res.oracle_failures.append({"what": f"key-equivalence scenario ({cont}<{KEQ_NAMES[kind]}>, {R} ranks) did not complete: {sr.verdict} {(sr.stderr or '')[-200:]}",
                                    "signature": f"{cont}-keyeq-run-failed {sr.verdict.split(':')[0]}", "case": dict(j)})
        return
    ans = []
    for r in range(R):
        a = {}
        for l in sr.outs.get(r, []):
            w = l.split(" ", 2)
            if w[0] == "A" and len(w) == 3:
                a[int(w[1])] = w[2]
            elif l.startswith("PH "):
                pass
            elif l == "padlost":
                res.corr_failures.append({"relation": "keyeq harness builds keys with garbage in the padding bytes", "what": "padding bytes were reset", "case": dict(j)})
                return
            else:
                res.corr_failures.append({"relation": "harness output well-formed", "what": f"rank {r}: {l[:120]}", "case": dict(j)})
                return
        ans.append(a)

    def pairs(s):
        """'F =k v; =k v;' -> [(canonical key, value or None, raw key token)]"""
        out = []
        for it in s[1:].split(";"):
            w = it.split()
            if w:
                out.append((keq_canon(kind, w[0]), int(w[1]) if len(w) > 1 else None, w[0]))
        return out

    def fail(what, lk, ph, **kw):
        sig = f"{cont}-key-equivalence" if (lk is None or lk in phases[ph]["multi"]) else f"{cont}-keyeq-contents"
        res.oracle_failures.append({"what": f"{cont}<{KEQ_NAMES[kind]}> on {R} ranks, phase {ph}: {what}", "signature": sig,
                                    "case": dict(j, phase=ph, key=repr(lk), scenario=lines[:60], **kw)})

    nfail = len(res.oracle_failures)
    for ph, P in enumerate(phases):
        exp = P["expected"]
        owners = {}
        for (li, d) in P["obs"]:
            got = [a.get(li) for a in ans]
            if any(g is None for g in got):
                res.corr_failures.append({"relation": "harness completed the scenario", "what": f"no answer for directive {li} {d}", "case": dict(j, phase=ph)})
                return
            if d[0] == "own":
                lk = keq_canon(kind, d[1])
                owners[lk] = sorted(set(x for g in got for x in g.split()[1:]))
            elif d[0] == "size":
                if any(g != f"S {len(exp)}" for g in got):
                    fail(f"size() = {sorted(set(got))}, a sequential std::{cont} with this Compare holds {len(exp)} keys", None, ph, real=got[:3], expected=len(exp))
            elif d[0] == "count":
                lk = keq_canon(kind, d[1])
                want = 1 if lk in exp else 0
                if any(g != f"C {want}" for g in got):
                    fail(f"count({d[1]}) = {sorted(set(got))}, expected {want} (owners of the representations of this key: {owners.get(lk)})", lk, ph,
                         directive=d, real=got[:3], expected=want, owners=owners.get(lk))
            elif d[0] == "forall":
                stored = {}
                for r, g in enumerate(got):
                    for (lk, v, raw) in pairs(g):
                        stored.setdefault(lk, []).append((r, v, raw))
                for lk, where in stored.items():
                    if len(where) > 1:
                        fail(f"ONE key (under Compare) is stored {len(where)} times: {[(f'rank {r}', raw, v) for r, v, raw in where][:4]} "
                             f"(owners of its representations: {owners.get(lk)})", lk, ph, real=[list(x) for x in where][:6], expected=exp.get(lk), owners=owners.get(lk))
                for lk in set(stored) | set(exp):
                    real = [v for (_, v, _) in stored.get(lk, [])]
                    want = [exp[lk]] if lk in exp else []
                    if len(real) <= 1 and real != want:
                        fail(f"key {lk!r}: stored value {real} but the sequential application of the operations gives {want} "
                             f"(owners of its representations: {owners.get(lk)})", lk, ph, real=real, expected=want, owners=owners.get(lk))
            elif d[0] == "gather":
                who = int(d[1])
                want = sorted((lk, exp[lk]) for lk in set(keq_canon(kind, k) for k in d[2:]) if lk in exp)
                for r, g in enumerate(got):
                    real = sorted((lk, v) for (lk, v, _) in pairs(g))
                    w_r = want if (who < 0 or who == r) else []
                    if real != w_r:
                        bad = next((lk for lk in [x[0] for x in real + w_r] if [x for x in real if x[0] == lk] != [x for x in w_r if x[0] == lk]), None)
                        fail(f"all_gather({d[2:]}) on rank {r} returned {real}, expected {w_r}", bad, ph, directive=d, real=[list(x) for x in real], rank=r)
                        break
        if len(res.oracle_failures) > nfail:
            del res.oracle_failures[nfail + 3:]          # a few failures of the first failing phase are enough
            return
    multi = phases[-1]["multi"] if phases else set()
    if multi:
        res.distinct.add(("keyeq", kind, cont, j["nodes"], j["ppn"], j["routing"], j["buffer"], j["policy"], j["gen_seed"]))
    res.count("keyeq: logical keys operated on through >= 2 representations", len(multi))
    res.traces_validated += 1


def keq_run(res, tier, seed, containers=("map", "set")):
    binary, err = C.build_harness("mapset")
    if binary is None:
        return              # already reported by run_flavours
    jobs = [j for j in keq_jobs(tier, seed) if j["container"] in containers]
    for j, (lines, phases, sr) in C.pmap(lambda j: (j, keq_run_job(binary, j)), jobs):
        keq_judge(res, j, lines, phases, sr)


def keq_replay(data):
    j = dict(data.get("case") or {})
    binary, err = C.build_harness("mapset")
    if binary is None:
        print(err[-500:])
        return False
    res = C.Result()
    keq_judge(res, j, *keq_run_job(binary, j))
    for f in res.oracle_failures[:5]:
        print("ORACLE", f["signature"], f["what"][:400])
    for f in res.corr_failures[:5]:
        print("CORR", f["relation"], f["what"])
    return not (res.oracle_failures or res.corr_failures)


FLAVOURS = ([MapFlavour(w, k, v) for v in ("d", "g") for w in ("map", "multimap") for k in ("ss", "is", "si")]
            + [MapFlavour(w, k, "p") for w in ("map", "multimap") for k in ("ss", "is")]
            + [MapFlavour(w, k, "d") for w in ("map", "multimap") for k in ("uu", "us")])
ASSUME = ["every operation is executed exactly once, atomically, on owner(key) before the barrier returns (C01/C02/C08; Dist.Complete)",
          "operations issued by one rank (resp. by the handlers of one rank) for one owner are executed in the order they were issued (MPI non-overtaking + "
          "one route per pair); the order search of the multi-rank oracle requires it",
          "std::multimap keeps equal keys in insertion order; std::hash is a parameter (owners are read from the real run)",
          "runs aborted by the messaging layer (comm.ipp assertion, deadlock) are C03's subject and are skipped here, counted in the distribution"]


def run(tier, seed, model_ok=True):
    res = run_flavours(FLAVOURS, tier, seed, model_ok, RULE, ASSUME, race_env="C11_POST_CLEAR_NOBARRIER")
    from lib import swaprace
    swaprace.run(res, "map", tier, seed)     # swap() / clear() followed at once by operations, no barrier
    keq_run(res, tier, seed)                 # keys equal under Compare but with different object bytes are ONE key
    return res


def replay_with(flavour_of, data):
    case = dict(data.get("case") or {})
    if case.get("harness") == "swaprace":
        from lib import swaprace
        return swaprace.replay(data)
    if case.get("harness") == "keyeq":
        return keq_replay(data)
    if "gen_seed" not in case:
        print("replay: nothing executable recorded:", data.get("no_longer_checks"))
        return False
    binary, err = C.build_harness("mapset")
    if binary is None:
        print(err[-500:])
        return False
    case["fl"] = flavour_of(case["what"], case["kinds"], case.get("variant", "d"))
    _, frag, info = do_case(binary, case, True)
    print("verdict", info)
    for f in frag.oracle_failures[:5]:
        print("ORACLE", f["what"], {k: v for k, v in f["case"].items() if k in ("block", "container", "key", "ops", "real", "pre", "real_callbacks")})
    for f in frag.corr_failures[:5]:
        print("CORR", f["relation"], f["what"])
    return not frag.oracle_failures and not frag.corr_failures and info["verdict"] == "ok"


def replay(data):
    return replay_with(lambda w, k, v: MapFlavour(w, k, v), data)
