"""C05 — async_bcast reaches every rank exactly once; async_mcast every listed rank.
Tie (1) exhaustive over layouts N x p, every origin, 3 routing schemes: ONE broadcast between barriers; the real
leg list (isend lines of the async communicator in the wire log, stage = class of the 16-bit lambda id) and the
per-rank execution counts are compared with YgmVerif.Bcast.bcastLegs / bcastExec run by the Lean driver; the
per-rank (recv_count, send_count) operands of the last barrier reduction are compared with the model's ledger.
The placement of ranks on nodes is a dimension: block (rank r on node r / p; driver command `bcast`) and round-robin
(SIMMPI_PLACEMENT=cyclic: rank r on node r % N; driver command `bcastp cyclic` = YgmVerif.BcastP, the model computed
through the layout's lookup tables) — cyclic on the sub-box N, p <= 4 in quick, on every layout in thorough.
Tie (2) concurrency: generated programs with several broadcasts / mcasts / point-to-point asyncs from different
origins, also issued from inside handlers, 3 routings x buffer 0/default x 5 scheduler policies x sim seeds;
oracle: at every barrier each rank has executed each broadcast uid exactly once and each mcast uid exactly as often
as it is listed; correspondence: the model's per-rank ledger equals the operands of the final barrier reduction.
Tie (3) several communicators: world N x p plus a sub-communicator of another layout (split by local-id parity, local
half, node parity) in one process, the SAME handler type broadcast from every origin of each, in both orders; oracle:
every member executes each broadcast of its communicator exactly once."""
import random
from lib import common as C

META = {
    "claimed": True,
    "technique": "Lean 4 proof (the three-stage fan-out yields a permutation of 0..N*p-1 for every layout and origin; count = 1 by "
                 "duplicate-freeness + membership characterisation) + exhaustive leg-list / execution-count correspondence on the wire and "
                 "randomised concurrent programs under five scheduler policies",
    "text": "Theorems bcast_each_once / bcast_none_outside / bcast_count_outside / bcast_exec_perm / bcast_legs_counted / "
            "bcast_offnode_same_local / bcast_legs_causal / mcast_spec over YgmVerif.Bcast prove for all N, p > 0 and every origin that the legs "
            "computed exactly as pack_lambda_broadcast computes them (C remainder fix-up, layered partner loop with break, is_local skip) execute "
            "the lambda exactly once on every rank and nowhere else, that the number of legs (send counts) equals the number of executions (receive "
            "counts) = N*p, that only stage-2 legs are off-node and join equal on-node indices, and that async_mcast is one message per list entry. "
            "Theorems bcastP_exec_perm / bcastP_each_once / bcastP_none_outside / bcastP_count_outside / bcastP_legs_counted / bcastP_offnode_same_local / "
            "bcastP_legs_causal over YgmVerif.BcastP prove the same for EVERY placement of ranks on nodes given by the layout's lookup tables (node_id, "
            "local_id, local_ranks, strided_ranks) under the hypothesis that (node_id, local_id) is a bijection onto [0,N) x [0,p); valid_block / "
            "valid_cyclic / valid_ofIds are the instances, bcastP_block_legs says the block instance is the model above, bcastP_old_block / "
            "bcastP_old_cyclic_defect that the remote loop before the repair of the cyclic-placement defect agrees on block placement and fails on "
            "3x2 round-robin. "
            "The model is tied to comm.ipp by comparing the real leg list and execution counts of every origin on every layout of the tier's box "
            "and by concurrent generated programs.",
    "note": "Trusted: Lean kernel + propext/Classical.choice/Quot.sound; Bcast.lean is tied to comm.ipp on the enumerated layouts (quick N*p <= 16, "
            "N,p <= 6; thorough N,p <= 8) and on the generated concurrent programs; BcastP.lean (bcastP_exec_perm & co.: the same theorems for EVERY "
            "placement whose layout tables are a bijection ranks <-> node x local id; block and cyclic are proved instances, the block instance is "
            "Bcast.bcastLegs by rfl; bcastP_old_cyclic_defect pins the defect of the pre-repair loop) is tied on the same single-broadcast runs under "
            "round-robin placement (quick N,p <= 4; thorough all layouts of the box); delivery of each individual leg / mcast message once on its "
            "destination is C01's theorem (composed, and exercised here); handlers obey the README rules (no barrier inside handlers).",
}

RULE = ("(1) exhaustive: every layout of the box x placement {block, cyclic (quick: N,p <= 4; thorough: every layout)} x every origin x 3 routings, "
        "one async_bcast between barriers; case = (N, p, placement, routing, origin); non-trivial = more than one node. (2) generated: programs of 2 rounds with 3-9 root operations each (bcast 40% / mcast 25% / async 35%, "
        "random issuers, mcast lists of 0-5 entries with duplicates), each root with probability 0.55 spawning a child operation from inside its "
        "handler (depth <= 2), over layouts {1x4,2x2,2x3,3x2,2x4,5x2,3x3,4x2} x routing x buffer {0, default} x policy "
        "{uniform,racer,starve,late,burst} x a fresh sim seed per program (quick: 1 repetition = 240 programs; thorough: 12 repetitions, 5 more layouts up to 16 ranks, up to 15 roots per round)")

SCHEMES = ["NONE", "NR", "NLNR"]
POLICIES = ["uniform", "racer", "starve", "late", "burst"]
CONC_LAYOUTS = [(1, 4), (2, 2), (2, 3), (3, 2), (2, 4), (5, 2), (3, 3), (4, 2)]
CONC_LAYOUTS_THOROUGH = CONC_LAYOUTS + [(3, 4), (4, 3), (7, 2), (2, 6), (4, 4)]
# the unrepaired tree can abort inside barrier() when handlers send with a tiny buffer (C03's defect D1:
# `received_to_return != local_process_incoming()`); such a run says nothing about C05 and is counted, not judged
C03_ABORT = ("m_send_buffer_bytes == 0", "m_pending_isend_bytes == 0")


def layouts(tier):
    if tier == "quick":
        return [(N, p) for N in range(1, 7) for p in range(1, 7) if N * p <= 16]
    return [(N, p) for N in range(1, 9) for p in range(1, 9)]


PLACEMENTS = ["block", "cyclic"]


def placed_layouts(tier):
    """(N, p, placement) of tie (1): block everywhere; round-robin on the sub-box N, p <= 4 (quick) / everywhere (thorough)"""
    out = []
    for (N, p) in layouts(tier):
        out.append((N, p, "block"))
        if tier != "quick" or (N <= 4 and p <= 4):
            out.append((N, p, "cyclic"))
    return out


def node_of(pl, N, p, r):
    return r // p if pl == "block" else r % N


def loc_of(pl, N, p, r):
    return r % p if pl == "block" else r // N


# ------------------------------------------------------------------ model side

def model_bcasts(keys):
    """keys: [(N,p,o)] (block placement, YgmVerif.Bcast) or [(N,p,o,placement)] (YgmVerif.BcastP for a placement other than block)
    -> {key: (legs [(s,d,k)], exec [r])}"""
    keys = sorted(set(keys), key=lambda k: (len(k), k))
    out = C.model("route", [f"bcast {k[0]} {k[1]} {k[2]}" if len(k) == 3 or k[3] == "block" else f"bcastp {k[3]} {k[0]} {k[1]} {k[2]}" for k in keys])
    res = {}
    for k, o in zip(keys, out):
        a, b = o.split("|")
        legs = []
        for w in a.split()[1:]:
            sd, st = w.split(":")
            s, d = sd.split(">")
            legs.append((int(s), int(d), int(st)))
        res[k] = (legs, [int(x) for x in b.split()[1:]])
    return res


def model_mcasts(items):
    """items: [(src, dests)] -> list of exec lists"""
    if not items:
        return []
    out = C.model("route", ["mcast " + " ".join(map(str, [s] + list(d))) for s, d in items])
    return [[int(x) for x in o.split()[1:]] for o in out]


# ------------------------------------------------------------------ exhaustive single broadcasts

def parse_bcast_log(log):
    acomm, segs, cur = None, [], None
    last_contrib = {}
    for line in log:
        sp = line.split(" ", 2)
        if len(sp) < 3:
            continue
        k, rest = sp[1], sp[2]
        if k == "irecv" and acomm is None:
            acomm = C.kv(rest).get("comm")
        elif k == "h":
            w = rest.split()
            if len(w) >= 3 and w[1] == "bc":
                cur = {"o": int(w[2]), "sends": [], "execs": []}
                segs.append(cur)
            elif len(w) >= 3 and w[1] == "x" and cur is not None:
                cur["execs"].append((int(w[0][2:]), int(w[2])))
            elif len(w) >= 2 and w[1] == "end":
                cur = None
        elif k == "isend" and cur is not None:
            d = C.kv(rest)
            if d.get("comm") == acomm:
                cur["sends"].append((int(d["r"]), int(d["dst"]), int(d["bytes"]), d.get("data", "")))
        elif k == "iallreduce":
            d = C.kv(rest)
            last_contrib[int(d["r"])] = (int(d["v0"]), int(d["v1"]))
    return segs, last_contrib


def single_variant(N, p, sch):
    """buffer size and scheduler policy of a single-broadcast job, rotated over the jobs (the legs must not depend on either)"""
    k = 2 * N + p + SCHEMES.index(sch)
    return (0 if k % 2 else None), POLICIES[k % 5]


def run_bcast(binary, N, p, sch, lo, hi, sim_seed=1, placement="block"):
    n = N * p
    buf, pol = single_variant(N, p, sch)
    env = {"YGM_COMM_ROUTING": sch, "SIMMPI_PLACEMENT": placement}
    if buf is not None:
        env["YGM_COMM_BUFFER_SIZE_KB"] = buf
    return C.run_sim(binary, ["bcast", lo, hi], nodes=N, ppn=p, env=env, sim_seed=sim_seed, policy=pol,
                     log_bytes=12, timeout=600, max_steps=5000 + (hi - lo) * n * (80 * n + 800))


def mb_key(N, p, o, pl):
    return (N, p, o) if pl == "block" else (N, p, o, pl)


def check_bcast_job(res, N, p, sch, lo, hi, sr, MB, model_ok, pl="block"):
    n = N * p
    case0 = {"N": N, "p": p, "kind": "single", "scheme": sch, "lo": lo, "hi": hi, "placement": pl}
    if sr.verdict != "ok":
        res.oracle_failures.append({"what": f"single-broadcast run did not finish: {sr.verdict} {sr.blocked[:200]}", "signature": f"bcast-run-{sr.verdict.split(':')[0]}",
                                    "case": dict(case0, stderr=sr.stderr[-300:])})
        return
    segs, contrib = parse_bcast_log(sr.log)
    if [g["o"] for g in segs] != list(range(lo, hi)):
        res.corr_failures.append({"relation": "wire log has one segment per origin", "what": f"segments {[g['o'] for g in segs]}", "case": case0})
        return
    node = lambda r: node_of(pl, N, p, r)
    loc = lambda r: loc_of(pl, N, p, r)
    tag = "" if pl == "block" else f" {pl} placement"
    hdr = 0 if sch == "NONE" else 8
    sent_model = [0] * n
    for g in segs:
        o = g["o"]
        case = dict(case0, origin=o)
        res.evaluations += 1
        if N > 1:
            res.distinct.add((N, p, sch, o) if pl == "block" else (N, p, sch, o, pl))
        res.count(("N>p" if N > p else "N<p" if N < p else "N=p") + ("" if N > 1 else " single-node") + tag)
        # ---- oracle: every rank executes exactly once, nobody else
        cnt = {}
        for (r, uid) in g["execs"]:
            cnt[(r, uid)] = cnt.get((r, uid), 0) + 1
        bad = [r for r in range(n) if cnt.get((r, o), 0) != 1] + [k for k in cnt if k[1] != o or not (0 <= k[0] < n)]
        if bad:
            res.oracle_failures.append({"what": f"{sch} origin {o} on {N}x{p}{tag}: executions per rank {[cnt.get((r, o), 0) for r in range(n)]} (expected all 1)",
                                        "signature": "bcast-exec-count", "case": dict(case, counts=[cnt.get((r, o), 0) for r in range(n)])})
        # ---- real legs
        lids, legs = [], []
        for (a, b, nbytes, hx) in g["sends"]:
            lid = hx[2 * hdr:2 * hdr + 4]
            if lid not in lids:
                lids.append(lid)
            legs.append((a, b, lids.index(lid) + 1))
            if sch != "NONE" and hx[:16] != "00000000ffffffff":
                res.corr_failures.append({"relation": "broadcast legs carry the dummy routing header (dest -1, size 0)", "what": f"{a}->{b}: header {hx[:16]}", "case": case})
            if not (0 <= b < n):
                res.oracle_failures.append({"what": f"leg {a}->{b} leaves the communicator", "signature": "bcast-leg-out-of-range", "case": case})
            elif node(a) != node(b) and loc(a) != loc(b):
                res.oracle_failures.append({"what": f"{sch} origin {o}{tag}: off-node leg {a}->{b} joins different on-node indices", "signature": "bcast-offnode-local", "case": case})
        case["legs"] = [list(x) for x in legs]
        if model_ok:
            mlegs, mexec = MB[mb_key(N, p, o, pl)]
            if sorted(legs) != sorted(mlegs):
                res.corr_failures.append({"relation": ("Bcast.bcastLegs" if pl == "block" else f"BcastP.bcastLegs ({pl})") + " == isend (src,dst,lambda class) list of one async_bcast",
                                          "what": f"{sch} origin {o} on {N}x{p}{tag}: real {sorted(legs)} model {sorted(mlegs)}", "case": dict(case, model=[list(x) for x in mlegs])})
            else:
                res.traces_validated += 1
            mc = [mexec.count(r) for r in range(n)]
            rc = [cnt.get((r, o), 0) for r in range(n)]
            if mc != rc:
                res.corr_failures.append({"relation": "Bcast.bcastExec counts == executions per rank", "what": f"{sch} origin {o}{tag}: real {rc} model {mc}", "case": case})
            if len(legs) != n:
                res.corr_failures.append({"relation": "number of legs == N*p (bcast_legs_counted)", "what": f"{len(legs)} legs", "case": case})
            for (a, b, k) in mlegs:
                sent_model[a] += 1
        if ((N, p, o) in ((5, 2, 3), (2, 4, 1)) and pl == "block" or (N, p, o, pl) == (3, 2, 0, "cyclic")) and sch == "NLNR":
            res.sample({"N": N, "p": p, "placement": pl, "routing": sch, "origin": o, "real_legs": sorted(legs), "exec_counts": [cnt.get((r, o), 0) for r in range(n)]})
    # ---- ledger of the whole job: operands of the last barrier reduction, rank by rank
    if model_ok:
        want = {r: (hi - lo, sent_model[r]) for r in range(n)}
        if contrib != want:
            res.corr_failures.append({"relation": "per-rank (m_recv_count, m_send_count) at the last barrier == model ledger (one per execution, one per leg)",
                                      "what": f"real {contrib} model {want}", "case": case0})


# ------------------------------------------------------------------ the placement's lookup tables (hypothesis of Props/C05P.lean)

def run_tables(binary, N, p, pl):
    return C.run_sim(binary, ["tables"], nodes=N, ppn=p, env={"YGM_COMM_ROUTING": "NLNR", "SIMMPI_PLACEMENT": pl}, want_log=False, timeout=300)


def check_tables(res, N, p, pl, sr, model_ok):
    """the tables layout.hpp gathers under this placement are the tables of the model's `Placement` (BcastP.block / BcastP.cyclic), rank by rank,
    and (oracle) they are what `Valid` says: (node_id, local_id) is a bijection onto [0,N) x [0,p) whose inverse the two cached tables are"""
    n = N * p
    case0 = {"N": N, "p": p, "placement": pl, "kind": "tables"}
    if sr.verdict != "ok":
        res.oracle_failures.append({"what": f"layout-table run did not finish: {sr.verdict}", "signature": "bcast-tables-run", "case": dict(case0, stderr=sr.stderr[-300:])})
        return
    T = {}
    for r in range(n):
        t = {}
        for l in sr.outs.get(r, []):
            w = l.split()
            if w and w[0] in ("layout", "strided", "local", "r2n", "r2l"):
                t[w[0]] = [int(x) for x in w[1:]]
        T[r] = t
    if any(len(T[r]) != 5 for r in range(n)):
        res.oracle_failures.append({"what": "layout tables incomplete", "signature": "bcast-tables-incomplete", "case": case0})
        return
    res.evaluations += 1
    r2n, r2l = T[0]["r2n"], T[0]["r2l"]
    pairs = {(r2n[r], r2l[r]) for r in range(n)}
    bad = None
    if pairs != {(a, j) for a in range(N) for j in range(p)}:
        bad = f"(node_id, local_id) is not a bijection onto [0,{N}) x [0,{p}): {sorted(pairs)}"
    for me in range(n):
        t = T[me]
        if bad:
            break
        if t["r2n"] != r2n or t["r2l"] != r2l or t["layout"][:2] != [r2n[me], r2l[me]] or t["layout"][2:] != [N, p, n, me]:
            bad = f"rank {me}: inconsistent global tables"
        elif len(t["local"]) != p or any((r2n[x], r2l[x]) != (r2n[me], j) for j, x in enumerate(t["local"])):
            bad = f"rank {me}: local_ranks()[j] is not the rank with local id j on my node: {t['local']}"
        elif len(t["strided"]) != N or any((r2n[x], r2l[x]) != (k, r2l[me]) for k, x in enumerate(t["strided"])):
            bad = f"rank {me}: strided_ranks()[k] is not the rank with my local id on node k: {t['strided']}"
    if bad:
        res.oracle_failures.append({"what": f"{N}x{p} {pl} placement: {bad}", "signature": "bcast-tables-not-valid", "case": case0})
        return
    if model_ok:
        out = C.model("route", [f"layoutp {pl} {N} {p} {me}" for me in range(n)])
        for me, o in enumerate(out):
            parts = [x.split() for x in o.split("|")]
            mod = {x[0]: [int(v) for v in x[1:]] for x in parts if x}
            real = {"nl": T[me]["layout"][:2], "strided": T[me]["strided"], "local": T[me]["local"], "r2n": T[me]["r2n"], "r2l": T[me]["r2l"]}
            if mod != real:
                res.corr_failures.append({"relation": f"BcastP.{pl} lookup tables == layout.hpp tables under SIMMPI_PLACEMENT={pl}", "what": f"rank {me}: real {real} model {mod}", "case": dict(case0, rank=me)})
                return
        res.traces_validated += 1
        res.distinct.add(("tables", N, p, pl))


# ------------------------------------------------------------------ concurrency

def gen_script(rng, n, max_roots=9):
    """returns list of op dicts: {root, kind, issuer, child, dest, dests} or {kind:'B'}"""
    ops = []

    def mk(root, issuer, depth):
        kind = rng.choices("bma", weights=[40, 25, 35])[0]
        op = {"root": root, "kind": kind, "issuer": issuer, "child": -1}
        if kind == "a":
            op["dest"] = rng.randrange(n)
        if kind == "m":
            op["dests"] = [rng.randrange(n) for _ in range(rng.randrange(0, 6))]
            if op["dests"] and rng.random() < 0.5:
                op["dests"].append(rng.choice(op["dests"]))      # a duplicate on purpose
        idx = len(ops)
        ops.append(op)
        if depth < 2 and rng.random() < 0.55:
            if kind == "b":
                ci = rng.randrange(n)
            elif kind == "a":
                ci = op["dest"]
            else:
                ci = rng.choice(op["dests"]) if op["dests"] and rng.random() < 0.85 else rng.randrange(n)
            op["child"] = len(ops)
            mk("C", ci, depth + 1)
        return idx

    for rnd in range(2):
        for _ in range(rng.randrange(3, max_roots + 1)):
            mk("R", rng.randrange(n), 0)
        if rnd == 0:
            ops.append({"kind": "B"})
    return ops


def script_text(ops):
    out = []
    for op in ops:
        if op["kind"] == "B":
            out.append("B")
        elif op["kind"] == "b":
            out.append(f"{op['root']} b {op['issuer']} {op['child']}")
        elif op["kind"] == "m":
            out.append(f"{op['root']} m {op['issuer']} {op['child']} " + (",".join(map(str, op["dests"])) if op["dests"] else "-"))
        else:
            out.append(f"{op['root']} a {op['issuer']} {op['child']} {op['dest']}")
    return ";".join(out)


def expected(ops, N, p, MB, MM):
    """-> (per-barrier expected {uid: [count per rank]}, ledger {rank: (recv, send)}, exec lists) from the MODEL's exec lists"""
    n = N * p
    execs, sent = {}, {}
    for u, op in enumerate(ops):
        if op["kind"] == "b":
            legs, ex = MB[(N, p, op["issuer"])]
            execs[u] = ex
            sent[u] = [sum(1 for g in legs if g[0] == r) for r in range(n)]
        elif op["kind"] == "m":
            execs[u] = MM[u]
            sent[u] = [len(op["dests"]) if r == op["issuer"] else 0 for r in range(n)]
        elif op["kind"] == "a":
            execs[u] = [op["dest"]]
            sent[u] = [1 if r == op["issuer"] else 0 for r in range(n)]
    mult, rnd_of, rnd = {}, {}, 0
    for u, op in enumerate(ops):
        if op["kind"] == "B":
            rnd += 1
            continue
        if op["root"] == "R":
            mult[u] = 1
            rnd_of[u] = rnd
    for u, op in enumerate(ops):        # children have larger indices than their parents
        if op["kind"] != "B" and op.get("child", -1) >= 0:
            c = op["child"]
            mult[c] = mult.get(u, 0) * execs[u].count(ops[c]["issuer"])
            rnd_of[c] = rnd_of[u]
    snaps = []
    for b in range(rnd + 1):
        e = {}
        for u in mult:
            if rnd_of[u] <= b and mult[u]:
                cs = [mult[u] * execs[u].count(r) for r in range(n)]
                if any(cs):
                    e[u] = cs
        snaps.append(e)
    ledger = {r: (sum(mult[u] * execs[u].count(r) for u in mult), sum(mult[u] * sent[u][r] for u in mult)) for r in range(n)}
    return snaps, ledger, mult


def run_conc(binary, cfg):
    env = {"YGM_COMM_ROUTING": cfg["routing"]}
    if cfg["buffer_kb"] is not None:
        env["YGM_COMM_BUFFER_SIZE_KB"] = cfg["buffer_kb"]
    return C.run_sim(binary, ["conc", cfg["script"]], nodes=cfg["N"], ppn=cfg["p"], env=env, sim_seed=cfg["sim_seed"],
                     policy=cfg["policy"], log_bytes=0, timeout=120, max_steps=300000)


def parse_conc(sr, n):
    snaps = {}
    for r in range(n):
        for l in sr.outs.get(r, []):
            w = l.split()
            if w and w[0] == "snap":
                snaps.setdefault(int(w[1]), {})[r] = {int(x.split(":")[0]): int(x.split(":")[1]) for x in w[2:]}
    contrib = {}
    for line in sr.log:
        sp = line.split(" ", 2)
        if len(sp) == 3 and sp[1] == "iallreduce":
            d = C.kv(sp[2])
            contrib[int(d["r"])] = (int(d["v0"]), int(d["v1"]))
    return snaps, contrib


def check_conc(res, cfg, sr, ops, MB, MM, model_ok):
    N, p = cfg["N"], cfg["p"]
    n = N * p
    case = {k: cfg[k] for k in ("N", "p", "routing", "buffer_kb", "policy", "sim_seed", "script")}
    case["kind"] = "conc"
    res.evaluations += 1
    res.count("policy:" + cfg["policy"])
    res.count("buffer:" + ("default" if cfg["buffer_kb"] is None else str(cfg["buffer_kb"])))
    res.count("routing:" + cfg["routing"])
    if sr.verdict != "ok":
        if any(t in sr.stderr for t in C03_ABORT) and cfg["buffer_kb"] is not None:
            res.count("skipped: C03 barrier abort (defect D1) with tiny buffer")
            return
        res.oracle_failures.append({"what": f"concurrent broadcast program did not finish: {sr.verdict} {sr.blocked[:200]}", "signature": f"conc-run-{sr.verdict.split(':')[0]}",
                                    "case": dict(case, stderr=sr.stderr[-400:])})
        return
    snaps, contrib = parse_conc(sr, n)
    # the expectation of the oracle is the property's statement; it does not use the model:
    # bcast -> every rank once, mcast -> once per list entry, async -> once on dest; children scale by the times their issuer ran the parent
    def stmt_exec(op):
        return list(range(n)) if op["kind"] == "b" else (list(op["dests"]) if op["kind"] == "m" else [op["dest"]])
    SB = {(N, p, op["issuer"]): ([], list(range(n))) for op in ops if op["kind"] == "b"}
    SM = {u: list(op["dests"]) for u, op in enumerate(ops) if op["kind"] == "m"}
    want_snaps, _, mult = expected(ops, N, p, SB, SM)
    nb = len(want_snaps)
    res.distinct.add((N, p, cfg["routing"], cfg["buffer_kb"], cfg["policy"], cfg["sim_seed"], cfg["script"]))
    final = want_snaps[-1]
    for b in range(nb):
        for r in range(n):
            real = snaps.get(b, {}).get(r)
            # operations issued before this barrier: complete, exact counts.  Operations of a later round may already have
            # been executed by a rank that is still inside barrier() while a faster rank went on: at most their final count.
            want = {u: cs[r] for u, cs in want_snaps[b].items() if cs[r]}
            if real is None:
                res.oracle_failures.append({"what": f"rank {r} printed no snapshot for barrier {b}", "signature": "conc-no-snapshot", "case": case})
                return
            diff = {}
            for u in set(real) | set(want):
                early = u not in want_snaps[b] and u in final
                ok = (real.get(u, 0) <= final[u][r]) if early else (real.get(u, 0) == want.get(u, 0))
                if not ok:
                    diff[u] = (real.get(u, 0), final[u][r] if early else want.get(u, 0))
            if diff:
                u = sorted(diff)[0]
                kind = {"b": "bcast", "m": "mcast", "a": "async"}[ops[u]["kind"]]
                res.oracle_failures.append({"what": f"after barrier {b} rank {r} executed {kind} uid {u} {diff[u][0]} times, expected {diff[u][1]} ({N}x{p} {cfg['routing']} buffer {cfg['buffer_kb']} {cfg['policy']})",
                                            "signature": f"conc-{kind}-count", "case": dict(case, barrier=b, rank=r, diff={str(k): v for k, v in diff.items()})})
                return
    for u in mult:
        if mult[u]:
            res.count("executed-op:" + ops[u]["kind"] + ("-from-handler" if ops[u]["root"] == "C" else ""), mult[u])
    if model_ok:
        msnaps, ledger, _ = expected(ops, N, p, MB, MM)
        if msnaps != want_snaps:
            res.corr_failures.append({"relation": "model exec lists (bcastExec / mcastExec) == the statement's expectation", "what": "differ", "case": case})
        if contrib != ledger:
            res.corr_failures.append({"relation": "per-rank (m_recv_count, m_send_count) at the final barrier == model ledger", "what": f"real {contrib} model {ledger}", "case": case})
        else:
            res.traces_validated += 1
    if len(res.samples) < 4 and cfg["routing"] == "NLNR" and cfg["buffer_kb"] == 0:
        res.sample({k: case[k] for k in ("N", "p", "routing", "buffer_kb", "policy", "sim_seed", "script")})


def conc_configs(tier, seed):
    rng = random.Random(f"c05-{seed}")
    cfgs = []
    reps = 1 if tier == "quick" else 12
    for rep in range(reps):
        for (N, p) in (CONC_LAYOUTS if tier == "quick" else CONC_LAYOUTS_THOROUGH):
            for routing in SCHEMES:
                for buf in (0, None):
                    for pol in POLICIES:
                        ops = gen_script(rng, N * p, 9 if tier == "quick" else 15)
                        cfgs.append(({"N": N, "p": p, "routing": routing, "buffer_kb": buf, "policy": pol,
                                      "sim_seed": rng.randrange(1, 1 << 30), "script": script_text(ops)}, ops))
    return cfgs


def parse_script(text):
    ops = []
    for t in text.split(";"):
        f = t.split()
        if not f:
            continue
        if f[0] == "B":
            ops.append({"kind": "B"})
            continue
        op = {"root": f[0], "kind": f[1], "issuer": int(f[2]), "child": int(f[3])}
        if op["kind"] == "a":
            op["dest"] = int(f[4])
        if op["kind"] == "m":
            op["dests"] = [] if f[4] == "-" else [int(x) for x in f[4].split(",")]
        ops.append(op)
    return ops


def conc_models(cfgs):
    keys = [(c["N"], c["p"], op["issuer"]) for c, ops in cfgs for op in ops if op["kind"] == "b"]
    MB = model_bcasts(keys) if keys else {}
    items, where = [], []
    for ci, (c, ops) in enumerate(cfgs):
        for u, op in enumerate(ops):
            if op["kind"] == "m":
                items.append((op["issuer"], op["dests"]))
                where.append((ci, u))
    MMs = [dict() for _ in cfgs]
    for (ci, u), ex in zip(where, model_mcasts(items)):
        MMs[ci][u] = ex
    return MB, MMs


def guarded(res, case, fn, *a):
    """an exception while judging one job must not discard the failures already collected for the others"""
    try:
        return fn(*a)
    except Exception as ex:  # reported, never swallowed
        import traceback
        res.corr_failures.append({"relation": "check-machinery", "what": "exception while judging this job: " + repr(ex)[:200] + " | " + traceback.format_exc()[-300:], "case": case})
        return None


def run(tier, seed, model_ok=True):
    res = C.Result()
    res.rule = RULE
    res.assumptions = ["placements exercised: block and round-robin (simmpi); every other placement is covered by the theorems of Props/C05P.lean only", "handlers do not call barrier()/collectives (README rule)",
                       "each leg / mcast message is delivered once to its destination buffer: C01 (exercised here, proved there)",
                       "layouts beyond the tier's box are covered by the theorems only"]
    binary, err = C.build_harness("route")
    if binary is None:
        res.corr_failures.append({"relation": "harness builds against /repo", "what": err[-800:], "case": None})
        return res
    if not model_ok:
        res.corr_failures.append({"relation": "model driver available", "what": "Lean library does not build", "case": None})
    lays = layouts(tier)
    plays = placed_layouts(tier)
    # ---- (1) exhaustive single broadcasts, block and round-robin placement
    MB = model_bcasts([mb_key(N, p, o, pl) for (N, p, pl) in plays for o in range(N * p)]) if model_ok else {}
    jobs = []
    for (N, p, pl) in plays:
        n = N * p
        chunk = max(1, 256 // n)
        for sch in SCHEMES:
            for lo in range(0, n, chunk):
                jobs.append((N, p, sch, lo, min(n, lo + chunk), pl))
    jobs.sort(key=lambda j: -(j[0] * j[1]) * (j[4] - j[3]))
    for j, sr in zip(jobs, C.pmap(lambda j: run_bcast(binary, *j[:5], sim_seed=seed, placement=j[5]), jobs)):
        guarded(res, {"N": j[0], "p": j[1], "kind": "single", "scheme": j[2], "lo": j[3], "hi": j[4], "placement": j[5]},
                check_bcast_job, res, j[0], j[1], j[2], j[3], j[4], sr, MB, model_ok, j[5])
    # ---- (1b) the lookup tables of every (layout, placement) of tie (1): hypothesis `Valid` and the instances of Props/C05P.lean
    for (N, p, pl), sr in zip(plays, C.pmap(lambda x: run_tables(binary, *x), plays)):
        guarded(res, {"N": N, "p": p, "placement": pl, "kind": "tables"}, check_tables, res, N, p, pl, sr, model_ok)
    res.exhaustive = True
    # ---- (2) concurrency
    cfgs = conc_configs(tier, seed)
    CB, CMs = conc_models(cfgs) if model_ok else ({}, [dict() for _ in cfgs])
    outs = C.pmap(lambda co: run_conc(binary, co[0]), cfgs)
    for (cfg, ops), sr, MM in zip(cfgs, outs, CMs):
        guarded(res, dict({k: cfg[k] for k in ("N", "p", "routing", "buffer_kb", "policy", "sim_seed", "script")}, kind="conc"),
                check_conc, res, cfg, sr, ops, CB, MM, model_ok)
    # ---- (2b) a single broadcast payload larger than the send buffer (24 MB, library-default receive slots), shared traffic harness
    from lib import campaign as K
    from lib import traffic as T
    from props import c01
    hb, herr = C.build_harness("traffic")
    if hb is None:
        res.corr_failures.append({"relation": "harness builds against /repo", "what": (herr or "")[-800:], "case": None})
    else:
        big = [c for c in c01.special_cases(tier, seed) if getattr(c[1], "default_irecv_size", None) and any(op[2] == "bcast" for op in c[0].ops)]
        K.run_cases(res, hb, big, ("delivery", "barrier"), extra=None, log_bytes=0, nontrivial=lambda out: out.get("bcasts", 0) > 0)
    # ---- (3) several communicators with different layouts in one process, one handler type
    sjobs = sub_jobs(tier)
    for j, sr in zip(sjobs, C.pmap(lambda j: run_sub(binary, j, seed), sjobs)):
        guarded(res, dict(j, kind="sub"), check_sub, res, j, sr)
    res.notes.append(f"{len(sjobs)} sub-communicator jobs")
    res.notes.append(f"{len(lays)} layouts ({sum(1 for x in plays if x[2] == 'cyclic')} also under round-robin placement), {len(jobs)} single-broadcast jobs, {len(cfgs)} concurrent programs, seed {seed}")
    return res


def sub_jobs(tier):
    lays = [(2, 4), (3, 2), (2, 2), (4, 2), (2, 6)] if tier == "quick" else [(2, 4), (3, 2), (2, 2), (4, 2), (2, 6), (3, 4), (4, 4), (5, 2), (6, 2), (2, 8), (1, 4)]
    jobs = []
    for (N, p) in lays:
        for split in (0, 1, 2):
            for order in (0, 1):
                for sch in (SCHEMES if tier != "quick" else [SCHEMES[(N + p + split + order) % 3]]):
                    # round-robin (cyclic) placement of ranks on nodes: node members are not contiguous rank ranges
                    for placement in (("block", "cyclic") if (tier != "quick" or (split + order) % 2 == 0) else ("block",)):
                        jobs.append({"N": N, "p": p, "split": split, "order": order, "scheme": sch, "placement": placement})
    return jobs


def run_sub(binary, j, seed):
    return C.run_sim(binary, ["subbcast", j["split"], j["order"]], nodes=j["N"], ppn=j["p"],
                     env={"YGM_COMM_ROUTING": j["scheme"], "SIMMPI_PLACEMENT": j.get("placement", "block")},
                     sim_seed=seed, want_log=False, timeout=600)


def check_sub(res, j, sr):
    """every member of a communicator executes every broadcast issued on THAT communicator exactly once, whatever other
    communicators (of other layouts) the process also uses with the same handler type"""
    res.evaluations += 1
    if sr.verdict != "ok":
        res.oracle_failures.append({"what": f"sub-communicator broadcast run did not finish: {sr.verdict} {sr.blocked[:200]}",
                                    "signature": f"sub-bcast-run-{sr.verdict.split(':')[0]}", "case": dict(j, kind="sub", stderr=sr.stderr[-300:])})
        return
    nlines = 0
    for r, lines in sr.outs.items():
        for line in lines:
            w = line.split()
            if not w or w[0] != "hits":
                continue
            nlines += 1
            counts = [int(x) for x in line.split(":")[1].split()]
            bad = [(o, c) for o, c in enumerate(counts) if c != 1]
            if bad:
                res.oracle_failures.append({"what": f"world rank {r} (rank {w[4]} of a {w[2]}x{w[3]} communicator, phase {w[1]}) executed the broadcast of origin {bad[0][0]} {bad[0][1]} times, expected 1 "
                                                    f"(world {j['N']}x{j['p']} {j.get('placement', 'block')} placement, split {j['split']}, order {j['order']}, {j['scheme']})",
                                            "signature": "sub-bcast-count", "case": dict(j, kind="sub")})
                return
    if nlines != 3 * j["N"] * j["p"]:
        res.corr_failures.append({"relation": "every rank reports three broadcast phases", "what": f"{nlines} lines", "case": dict(j, kind="sub")})
        return
    res.distinct.add(("sub", j["N"], j["p"], j["split"], j["order"], j["scheme"], j.get("placement")))


def replay(data):
    """re-run the recorded case; True = the failure did not reproduce"""
    case = data.get("case") or {}
    if not case and data.get("no_longer_checks"):
        case = next((b.get("case") for b in data["no_longer_checks"] if b.get("case")), {}) or {}
    binary, err = C.build_harness("route")
    if binary is None or not case:
        print("replay: nothing executable recorded:", data.get("no_longer_checks"))
        return False
    res = C.Result()
    if "scenario" in case:       # a case of the shared traffic harness (big broadcast)
        from lib import campaign as K
        hb, _ = C.build_harness("traffic")
        return K.replay_case(hb, data, ("delivery", "barrier"), None, log_bytes=0)
    N, p = case["N"], case["p"]
    if case.get("kind") == "conc":
        cfg = {k: case[k] for k in ("N", "p", "routing", "buffer_kb", "policy", "sim_seed", "script")}
        ops = parse_script(cfg["script"])
        CB, CMs = conc_models([(cfg, ops)])
        sr = run_conc(binary, cfg)
        print("verdict", sr.verdict, sr.stderr[-300:])
        check_conc(res, cfg, sr, ops, CB, CMs[0], True)
    elif case.get("kind") == "tables":
        pl = case.get("placement", "block")
        sr = run_tables(binary, N, p, pl)
        print("verdict", sr.verdict, sr.stderr[-300:])
        check_tables(res, N, p, pl, sr, True)
    elif case.get("kind") == "sub":
        j = {k: case[k] for k in ("N", "p", "split", "order", "scheme")}
        j["placement"] = case.get("placement", "block")
        sr = run_sub(binary, j, data.get("seed", 1))
        print("verdict", sr.verdict, sr.stderr[-300:])
        check_sub(res, j, sr)
    else:
        lo = case.get("origin", case.get("lo", 0))
        pl = case.get("placement", "block")
        MB = model_bcasts([mb_key(N, p, lo, pl)])
        sr = run_bcast(binary, N, p, case.get("scheme", "NLNR"), lo, lo + 1, sim_seed=data.get("seed", 1), placement=pl)
        print("verdict", sr.verdict, sr.stderr[-300:])
        check_bcast_job(res, N, p, case.get("scheme", "NLNR"), lo, lo + 1, sr, MB, True, pl)
    for f in res.oracle_failures[:10]:
        print("oracle:", f["signature"], f["what"])
    for f in res.corr_failures[:10]:
        print("correspondence:", f["relation"], f["what"][:400])
    return not (res.oracle_failures or res.corr_failures)
