"""C13 — array updates hit exactly the addressed element exactly once.
Tie: update histories generated per (communicator size, length) are run on the real ygm::container::array
under simmpi (all routing modes, tiny buffers, several layouts/schedules) and through the Lean model
YgmVerif.ArrayOps (driver mode `array`); the for_all output of every rank is compared token by token.
Direct oracle: indices presented over all ranks are 0..len-1 exactly once, each with the value a
sequential evaluation of the updates addressed to it gives."""
import hashlib
import random

from lib import common as C

META = {
    "claimed": True,
    "technique": "Lean 4 proof (induction over update histories, List.Perm for order independence, div/mod block arithmetic from C10) + "
                 "differential runs of the real array against the executable model on generated histories",
    "text": "Theorems update_hits_addressed(_slots)/final_is_fold/final_order_independent/final_state_order_independent/final_assoc_comm/"
            "Op.eval_comm/for_all_each_index_once/fresh_default/copy_same over YgmVerif.ArrayOps prove, for every length (0 and < ranks "
            "included), every rank count > 0, every value type and every history, that an update changes exactly the slot "
            "(owner i, local_index i) by one application, that each element ends as the fold of exactly the updates addressed to it, that this "
            "is independent of the execution order when the updates commute (all operator families of array.hpp on uint64_t are proved to), "
            "that no trap or assertion is reachable on a legal index, and that for_all presents 0..len-1 once each with the stored value; "
            "forAllMsgs_split/forAll_emit_is_fold/forAll_emit_some/harnessCallback_commutes: a for_all whose callbacks update the array they iterate "
            "is one own modification per element plus the emitted updates, each applied exactly once in any order. "
            "resize_wf/resize_slots: an explicit resize leaves a well-formed array of the new length that keeps every rank's local prefix. "
            "The model is tied to array.ipp by running generated histories (commutative families from every rank at every block boundary; "
            "one non-commutative update per element between barriers; arbitrary sequences on one rank; copies) on the real code and "
            "comparing every rank's for_all output with the model's.",
    "note": "Trusted: Lean kernel + propext/Classical.choice/Quot.sound; hand-written model ArrayOps.lean tied to array.ipp only on the generated "
            "histories; exactly-once atomic delivery of each async to the addressed rank is DERIVED from the communicator model (Props/ContainersComm: C13_array_after_barrier — at the first exit of any barrier, over every interleaving of Comm = Deliver x BarrierME, each element is the fold of exactly the updates addressed to it) rather than assumed; "
            "uint64_t arithmetic is Lean's UInt64; divides is only exercised with non-zero divisors.",
}

RULE = ("generated: per communicator size R in 1..8 and length L (0, 1, R-1, R, R+1, 2R-1, non-divisible, random <= 40) a history of 1-3 phases; "
        "a phase gives every touched element one commuting operator family (additive/multiplies/bit_and/bit_or/bit_xor/logical_and/logical_or) "
        "or a single set/visit, issues the updates from all ranks at the boundary indices of every block plus random ones, then barrier + for_all; "
        "R=1 additionally runs arbitrary non-commutative sequences; some cases copy the array and update original and copy separately; "
        "for_all callbacks of both forms ((index,value&) and (value&)) that modify the value and issue async updates of one commuting family to "
        "the SAME array — to the visited element, its neighbour and a far element — (kind=emit and sprinkled elsewhere; capacity 0 / 1 KB / default); "
        "explicit resize(new_len[, fill]) (new remainder len % R, len < R, shrinking, growing) is followed IMMEDIATELY, without a barrier, by "
        "updates from other ranks to every block of the new layout (kind=resize: 3-6 such steps, capacity 0, racer/late/burst schedules); "
        "kind=two: a second array of the same type (other length and default) alive next to the first, phases / resizes / emitting for_alls "
        "interleaved between them, each judged against its own model and oracle; "
        "two communicators in one process: a quarter of the multi-rank cases (deterministic in the case index, recorded in the case) run a scenario "
        "of the same kind through the same code on sub-communicators of another size built with MPI_Comm_split (colour = world rank parity, or "
        "rank < n-1 versus the last rank) before the world run (for a third of them after it); every communicator's part is judged with the same "
        "oracle and model comparison; "
        "environment dimension rotated over the cases: YGM_COMM_ISSEND_FREQ in {default, 0, 1, 8}, YGM_COMM_NUM_IRECVS in {default, 1, 2, 8}, "
        "YGM_COMM_NUM_ISENDS_WAIT in {default, 0, 1, 4}, cyclic placement of ranks on nodes for a third of the multi-node cases; thorough tier: "
        "65535 scratch arrays of the same type constructed before a second array that is then updated next to the first; "
        "kind=lifetimes (harness mode `lifetimes`, signature array-lifetime*): 3-6 arrays of the same type held by std::unique_ptr in slots, constructed "
        "(with and without default value, lengths 0 / < R / R / uneven / up to 40), copy-constructed and destroyed in a generated NON-nested order (the "
        "oldest live array is destroyed first most of the time, then another one is constructed), update phases on the survivors, and after every "
        "construction / destruction EVERY live array is dumped after a barrier and compared with its own sequential result and its own model run; the "
        "fixed shape `A, B alive; update A; destroy A; construct C; update B; check B and C` is run on every layout; R in {1, 3, 4} (quick), 1..6 (thorough); "
        "a case = (R, L, layout, routing, buffer, env knobs, schedule seed, script[, sub-communicator split, order and scenarios]); non-trivial = at least one update")

M64 = (1 << 64) - 1
FAMILIES = {"add": ["p", "m", "+", "-"], "mul": ["x"], "and": ["a"], "or": ["o"], "xor": ["e"], "land": ["A"], "lor": ["O"]}
SINGLE = ["s", "v", "w"]
ALLOPS = ["s", "p", "m", "x", "d", "a", "o", "e", "A", "O", "+", "-", "v", "w"]
ROUTES = ["NONE", "NR", "NLNR"]
POLICIES = ["uniform", "racer", "starve", "late", "burst"]


def py_eval(op, i, v, x):
    """the property's own reading of one update on uint64_t (independent of the Lean model)"""
    if op == "s": return x
    if op == "p": return (v + x) & M64
    if op == "m": return (v - x) & M64
    if op == "x": return (v * x) & M64
    if op == "d": return v // x
    if op == "a": return v & x
    if op == "o": return v | x
    if op == "e": return v ^ x
    if op == "A": return 1 if (v != 0 and x != 0) else 0
    if op == "O": return 1 if (v != 0 or x != 0) else 0
    if op == "+": return (v + 1) & M64
    if op == "-": return (v - 1) & M64
    if op in ("v", "w"): return (v * 3 + x + 7 * i) & M64
    raise ValueError(op)


def layouts(R):
    return [(n, R // n) for n in range(1, R + 1) if R % n == 0]


def rand_val(rng):
    k = rng.random()
    if k < 0.5: return rng.randrange(0, 10)
    if k < 0.8: return rng.randrange(0, 1 << 16)
    if k < 0.9: return rng.choice([M64, M64 - 1, 1 << 63, (1 << 63) + 5, (1 << 32) + 1])
    return rng.randrange(0, 1 << 64)


def py_blocks(L, R):
    """block sizes / starts of a length-L array on R ranks as the property states them (C10): used to aim the generator at
    block boundaries and by the oracle to follow what resize keeps (each rank's local prefix)"""
    sizes = [L // R + (1 if r < L % R else 0) for r in range(R)]
    starts = [sum(sizes[:r]) for r in range(R)]
    return starts, sizes


def gen_case(rng, R, L, blocks, kind):
    """blocks: unused (kept for the call signature); boundaries come from py_blocks"""
    ops = []          # harness tokens
    nupd = 0
    nres = 0
    dv = rng.choice([0, 1, 5, 255, M64])
    lens = [L, L]     # current length of array 0 / its copy
    tgt = [0]

    def boundary():
        n = lens[tgt[0]]
        st, sz = py_blocks(n, R)
        return sorted({i for s_, z in zip(st, sz) if z > 0 for i in (s_, s_ + z - 1)} | ({0, n - 1} if n else set()))

    def upd(op, r, i, x=None):
        nonlocal nupd
        nupd += 1
        ops.append(f"{op} {r} {i}" + ("" if x is None else f" {x}"))

    def phase(every_owner=False):
        n_el = lens[tgt[0]]
        if n_el == 0:
            return
        bd = boundary()
        fam = {}
        n = rng.randrange(1, 4) * max(R, 2) + rng.randrange(0, 4)
        ranks = list(range(R)) * (n // R + 2)
        rng.shuffle(ranks)
        single_used = set()
        targets = [rng.choice(bd) if rng.random() < 0.6 else rng.randrange(n_el) for _ in range(n)]
        if every_owner:      # right after a resize: something for every block, from a different rank, first thing
            st, sz = py_blocks(n_el, R)
            first = [s_ + rng.randrange(z) for s_, z in zip(st, sz) if z > 0]
            targets = first + targets
            ranks = [(k + 1 + rng.randrange(max(R - 1, 1))) % R for k in range(len(first))] + ranks
        for k, i in enumerate(targets):
            if i not in fam:
                fam[i] = rng.choice(list(FAMILIES) + ["single"])
            if fam[i] == "single":
                if i in single_used:
                    continue
                single_used.add(i)
                op = rng.choice(SINGLE)
            else:
                op = rng.choice(FAMILIES[fam[i]])
            upd(op, ranks[k], i, None if op in "+-" else rand_val(rng))

    def resize():
        nonlocal nres
        old = lens[tgt[0]]
        cands = [old + 1, old + R + 1, max(old - 1, 0), max(R - 1, 1), R, 2 * R + 1, rng.randrange(0, 3 * R + 3), rng.randrange(1, 41)]
        cands = [c for c in cands if c % R != old % R] or cands        # prefer a different remainder
        new = rng.choice(cands)
        ops.append(f"Z {new}" + (f" {rand_val(rng)}" if rng.random() < 0.7 else ""))
        lens[tgt[0]] = new
        nres += 1
        phase(every_owner=True)      # updates right away: no barrier after resize()

    nemit = 0

    def emit():
        """for_all whose callback updates the array it iterates (both callback forms, one commuting family)"""
        nonlocal nemit, nupd
        n_el = lens[tgt[0]]
        fam = rng.choice("pxaoe")
        k = rng.randrange(1, 4)
        ops.append(f"E {rng.choice('iiv')} {fam} {rand_val(rng)} {rng.randrange(0, 1000)} {k}")
        nemit += 1
        nupd += n_el * (1 + 3 * k)

    if kind == "seq":      # one rank: execution order = issue order, anything goes
        n = rng.randrange(4, 30)
        for _ in range(n):
            if rng.random() < 0.08:
                new = rng.randrange(0, 12)
                ops.append(f"Z {new}" + (f" {rand_val(rng)}" if rng.random() < 0.5 else "")); lens[0] = new; nres += 1
            if lens[0] == 0:
                continue
            op = rng.choice(ALLOPS)
            bd = boundary()
            i = rng.choice(bd) if rng.random() < 0.5 else rng.randrange(lens[0])
            x = None if op in "+-" else (rng.randrange(1, 9) if op == "d" else rand_val(rng))
            upd(op, 0, i, x)
            if rng.random() < 0.15:
                ops.append("B")
            if rng.random() < 0.1:
                ops.append("F")
            if rng.random() < 0.08:
                emit()
        ops += ["B", "F", "V"]
    elif kind == "emit":    # for_all callbacks that issue updates to the same array, interleaved with ordinary phases and resizes
        ops.append("F")
        for _ in range(rng.randrange(2, 6)):
            k = rng.random()
            if k < 0.6:
                emit()
            elif k < 0.8:
                phase()
            else:
                resize()
            ops.append("F")
    elif kind == "resize":  # explicit resizes, each followed immediately by updates from all ranks
        ops.append("F")
        phase()
        ops.append("F")
        for _ in range(rng.randrange(3, 7)):
            resize()
            ops.append("F")
    else:
        ops.append("F")                     # fresh array: default everywhere
        for _ in range(rng.randrange(1, 4)):
            k = rng.random()
            if k < 0.25:
                resize()
            elif k < 0.4:
                emit()
            else:
                phase()
            ops += (["B"] if rng.random() < 0.5 else []) + ["F"]     # for_all starts with its own barrier
            if rng.random() < 0.3:
                ops.append("V")
        if kind == "two":      # a second array of the same type (other length, other default) alive next to the first; work interleaved
            lens[1] = rng.choice([max(lens[0] - 1, 0), lens[0] + R + 1, rng.randrange(0, 3 * R + 2), R - 1 if R > 1 else 3])
            ops += [f"N {lens[1]} {rng.choice([0, 7, 99, M64 - 3])}"]
            for _ in range(rng.randrange(3, 7)):
                tgt[0] = rng.randrange(2)
                ops.append(f"T {tgt[0]}")
                k = rng.random()
                if k < 0.2:
                    resize()
                elif k < 0.4:
                    emit()
                else:
                    phase()
                ops.append("F")
            ops += ["T 0", "F", "T 1", "F", "T 0"]
            tgt[0] = 0
        if kind == "copy":
            ops += ["C", "T 1", "F"]
            lens[1] = lens[0]; tgt[0] = 1
            if rng.random() < 0.4:
                resize()
            else:
                phase()
            ops += ["F", "T 0", "F"]
            tgt[0] = 0
            phase()
            ops += ["F", "T 1", "F", "T 0"]
    nodes, ppn = rng.choice(layouts(R))
    return {"ranks": R, "len": L, "dv": dv, "script": ";".join(ops), "nodes": nodes, "ppn": ppn,
            "routing": rng.choice(ROUTES), "buffer_kb": (rng.choice([0, 0, 1, None]) if kind == "resize" else rng.choice([0, 0, 1, None])),
            "sim_seed": rng.randrange(1, 1 << 30),
            "policy": (rng.choice(["racer", "late", "burst", "uniform", "starve"]) if kind == "resize" else rng.choice(POLICIES)),
            "kind": kind, "updates": nupd, "resizes": nres, "emits": nemit}


KNOBS = ("issend_freq", "num_irecvs", "isends_wait", "placement", "sim_env", "max_steps")


def env_knobs(case, k):
    """environment dimension, rotated over the cases (deterministic in the case index k, recorded in the case):
    YGM_COMM_ISSEND_FREQ / NUM_IRECVS / NUM_ISENDS_WAIT (None = library default 8 / 8 / 4) and cyclic placement of ranks on nodes"""
    case["issend_freq"] = [None, 0, 1, 8][k % 4]
    case["num_irecvs"] = [None, 1, 2, 8][(k // 2) % 4]
    case["isends_wait"] = [None, 0, 1, 4][(k // 3) % 4]
    # cyclic placement only where the block arithmetic of the sub-communicator splits is not needed
    case["placement"] = "cyclic" if (case["nodes"] > 1 and case["ppn"] > 1 and not case.get("sub") and k % 3 == 0) else None


def run_real(binary, case, sim_seed=None, policy=None):
    env = {"YGM_COMM_ROUTING": case["routing"]}
    if case["buffer_kb"] is not None:
        env["YGM_COMM_BUFFER_SIZE_KB"] = case["buffer_kb"]
    for key, var in (("issend_freq", "YGM_COMM_ISSEND_FREQ"), ("num_irecvs", "YGM_COMM_NUM_IRECVS"), ("isends_wait", "YGM_COMM_NUM_ISENDS_WAIT"),
                     ("placement", "SIMMPI_PLACEMENT")):
        if case.get(key) is not None:
            env[var] = case[key]
    env.update(case.get("sim_env") or {})
    args = ["array", case["len"], case["dv"], case["script"]]
    if case.get("mode") == "lifetimes":
        args = ["lifetimes", case["script"]]
    sub = case.get("sub")
    if sub:      # the same scenario code first (or afterwards) on a sub-communicator of another size, in the same process
        args = ["sub", sub["split"], sub["order"], len(sub["scen"])]
        for size, u in sorted(sub["scen"].items(), key=lambda kv: int(kv[0])):
            args += [size, f"array|{u['len']}|{u['dv']}|{u['script']}"]
        args.append(f"array|{case['len']}|{case['dv']}|{case['script']}")
    return C.run_sim(binary, args, nodes=case["nodes"], ppn=case["ppn"], env=env,
                     sim_seed=sim_seed or case["sim_seed"], policy=policy or case["policy"], want_log=False,
                     timeout=900 if case.get("max_steps") else 120, **({"max_steps": case["max_steps"], "livelock": case["max_steps"]} if case.get("max_steps") else {}))


class Sec:
    """the part of a run's output that belongs to one communicator"""

    def __init__(self, sr, outs):
        self.verdict, self.stderr, self.blocked, self.outs = sr.verdict, sr.stderr, sr.blocked, outs


def sub_groups(split, R):
    """colour -> world ranks of that group (MPI_Comm_split with key = world rank)"""
    g = {}
    for r in range(R):
        c = r % 2 if split == "parity" else ((r // int(split[7:])) % 2 if split.startswith("bynode:") else (0 if r < R - 1 else 1))
        g.setdefault(c, []).append(r)
    return g


def add_sub(case, k, gen_unit):
    """deterministically give a quarter of the multi-rank cases the two-communicator dimension; gen_unit(size) -> scenario for a
    communicator of that size"""
    R = case["ranks"]
    if R < 2 or k % 4 != 3:
        return
    # ygm::layout assumes the same number of ranks on every node: only splits that keep the sub-communicator's layout uniform
    nodes, ppn = case["nodes"], case["ppn"]
    options = (["parity", "droplast"] if (nodes == 1 or ppn == 1) else (["parity"] if ppn % 2 == 0 else [])) + ([f"bynode:{ppn}"] if nodes >= 2 else [])
    split = options[(k // 4) % len(options)]
    sizes = sorted({len(v) for v in sub_groups(split, R).values()})
    # every group runs the SAME scenario (written for the smallest group; ranks it names that a group lacks... do not occur, larger groups
    # just have ranks that issue nothing): ygm_ptr hands out per-process indices and checks them collectively, so all ranks of the
    # process set must construct the same number of containers before the world run
    unit = gen_unit(sizes[0])
    case["sub"] = {"split": split, "order": "sub-first" if (k // 8) % 3 != 2 else "world-first",
                   "scen": {str(z): unit for z in sizes}}


def sections(case, sr):
    """[(label, unit case, Sec)]: the world run and, with the two-communicator dimension, one entry per sub-communicator"""
    R = case["ranks"]
    sub = case.get("sub")
    if not sub:
        return [("world", case, Sec(sr, sr.outs))]
    world, subs = {}, {}
    for r in range(R):
        cur = None
        for l in sr.outs.get(r, []):
            if l.startswith("@sub "):
                _, c, srank, _ = l.split()
                cur = subs.setdefault(int(c), {}).setdefault(int(srank), [])
            elif l == "@world":
                cur = world.setdefault(r, [])
            elif cur is not None:
                cur.append(l)
    res = [("world", case, Sec(sr, world))]
    for c, ranks in sorted(sub_groups(sub["split"], R).items()):
        u = sub["scen"][str(len(ranks))]
        unit = dict(case, ranks=len(ranks), len=u["len"], dv=u["dv"], script=u["script"])
        res.append((f"sub-communicator colour {c} ({len(ranks)} of {R} ranks, {sub['split']}, {sub['order']})", unit, Sec(sr, subs.get(c, {}))))
    return res


def units(case):
    """the scenarios of a case whose model answer is needed, in a fixed order: world, then the sub sizes"""
    us = [case]
    sub = case.get("sub")
    if sub:
        for c, ranks in sorted(sub_groups(sub["split"], case["ranks"]).items()):
            u = sub["scen"][str(len(ranks))]
            us.append(dict(case, ranks=len(ranks), len=u["len"], dv=u["dv"], script=u["script"]))
    return us


def judge(case, sr, mouts):
    """evaluate every communicator's part of the run; mouts: model answers in the order of units(case) (or None)"""
    of, cf = [], []
    cid = case_id(case)
    for k, (label, unit, sec) in enumerate(sections(case, sr)):
        o, c = evaluate(unit, sec, mouts[k] if mouts else None)
        if label != "world":
            for f in o + c:
                f["what"] = f"[{label}] " + f["what"]
                f["case"] = dict(cid, failed_in=label, detail={kk: vv for kk, vv in (f.get("case") or {}).items() if kk not in cid})
        of += o
        cf += c
        if sr.verdict != "ok":
            break
    return of, cf


def case_id(case):
    cid = {k: case[k] for k in ("ranks", "len", "dv", "script", "nodes", "ppn", "routing", "buffer_kb", "sim_seed", "policy")}
    if case.get("sub"):
        cid["sub"] = case["sub"]
    if case.get("mode"):
        cid["mode"] = case["mode"]
    for key in KNOBS:
        if case.get(key) is not None:
            cid[key] = case[key]
    return cid


def model_line(case):
    toks = []
    for op in case["script"].split(";"):
        f = op.split()
        if f[0] in ("B", "K"):
            continue
        if f[0] in ("F", "V", "C"):
            toks.append(f[0])
        elif f[0] == "T":
            toks.append("T:" + f[1])
        elif f[0] in ("Z", "E", "N"):
            toks.append(":".join(f))
        else:
            toks.append(":".join([f[0]] + f[2:]))     # the issuing rank is irrelevant to the model
    return f"{case['len']} {case['ranks']} {case['dv']} | " + " ".join(toks)


def oracle_expected(case):
    """sequential reading of the script in Python: list of dumps (kind, values by global index).
    An array is kept as the ranks' local vectors because resize(size, fill) keeps every rank's LOCAL prefix
    (std::vector::resize) under the new block partition."""
    R = case["ranks"]

    def fresh(L, v):
        return [[v] * z for z in py_blocks(L, R)[1]]

    def flat(a):
        return [x for v in a for x in v]

    def locate(a, i):
        for r, v in enumerate(a):
            if i < len(v):
                return r, i
            i -= len(v)
        raise IndexError(i)

    arrs = [fresh(case["len"], case["dv"]), None]
    dvs = [case["dv"], case["dv"]]
    cur, dumps = 0, []
    for op in case["script"].split(";"):
        f = op.split()
        if f[0] in ("B", "K"):
            continue
        if f[0] == "C":
            arrs[1] = [list(v) for v in arrs[0]]; dvs[1] = dvs[0]
        elif f[0] == "N":
            arrs[1] = fresh(int(f[1]), int(f[2])); dvs[1] = int(f[2])
        elif f[0] == "T":
            cur = int(f[1])
        elif f[0] == "Z":
            n = int(f[1]); fill = int(f[2]) if len(f) > 2 else dvs[cur]
            arrs[cur] = [(v[:z] + [fill] * max(0, z - len(v))) for v, z in zip(arrs[cur], py_blocks(n, R)[1])]
        elif f[0] == "E":
            # every callback modifies its own element once (through the reference) and emits k rounds of three updates; all of one
            # commuting family, so the result does not depend on when the emitted updates are executed
            fam, cc, salt, k = f[2], int(f[3]), int(f[4]), int(f[5])
            n = len(flat(arrs[cur]))
            todo = []
            for g in range(n):
                todo.append((g, cc))
                for j in range(k):
                    x = (g * 3 + salt + j) % 97 + 1
                    todo += [(g, x), ((g + 1) % n, x + 1), ((g * 7 + salt + j) % n, x + 2)]
            for i, x in todo:
                r, l = locate(arrs[cur], i)
                arrs[cur][r][l] = py_eval(fam, i, arrs[cur][r][l], x)
        elif f[0] in ("F", "V"):
            dumps.append((f[0], flat(arrs[cur])))
        else:
            i = int(f[2])
            x = int(f[3]) if len(f) > 3 else 0
            r, l = locate(arrs[cur], i)
            arrs[cur][r][l] = py_eval(f[0], i, arrs[cur][r][l], x)
    return dumps


def evaluate(case, sr, model_out):
    """returns (oracle failures, correspondence failures)"""
    of, cf = [], []
    R, L = case["ranks"], case["len"]
    cid = case_id(case)
    if sr.verdict != "ok":
        sig = "array-run-failed " + sr.verdict.split(":")[0]
        if "signal 8" in sr.verdict:
            sig = "array-owner-trap len<ranks" if 0 < L < R else "array-owner-trap"
        elif "signal 6" in sr.verdict and "array.ipp" in sr.stderr:
            sig = "array-assert-abort"       # an ASSERT_RELEASE of array.ipp fired (index applied under the wrong layout)
        of.append({"what": f"real array run failed: {sr.verdict}", "signature": sig,
                   "case": dict(cid, verdict=sr.verdict, stderr=sr.stderr[-400:], blocked=sr.blocked)})
        return of, cf
    exp = oracle_expected(case)
    per_rank = [[l for l in sr.outs.get(r, []) if l.startswith(("forall", "values"))] for r in range(R)]
    if any(len(p) != len(exp) for p in per_rank):
        of.append({"what": "a rank produced a different number of for_all dumps", "signature": "array-dump-count", "case": dict(cid, got=[len(p) for p in per_rank], want=len(exp))})
        return of, cf
    mdumps = model_out.split(" # ") if model_out is not None else None
    if mdumps is not None and (len(mdumps) != len(exp) or "trap" in mdumps or "bad-op" in mdumps):
        cf.append({"relation": "ArrayOps.run executes every legal history", "what": f"model answered {model_out[:200]!r}", "case": cid})
        mdumps = None
    for d, (kind, vals) in enumerate(exp):
        if kind == "F":
            seen = []
            for r in range(R):
                for t in per_rank[r][d].split()[1:]:
                    a, b = t.split(":")
                    seen.append((int(a), int(b), r))
            idx = sorted(i for i, _, _ in seen)
            if idx != list(range(len(vals))):
                of.append({"what": f"for_all #{d}: indices over all ranks are not 0..len-1 exactly once", "signature": "array-forall-cover", "case": dict(cid, dump=d, seen=idx)})
                continue
            bad = [(i, v, vals[i]) for i, v, _ in seen if v != vals[i]]
            if bad:
                of.append({"what": f"for_all #{d}: element {bad[0][0]} is {bad[0][1]}, sequential result of its updates is {bad[0][2]}",
                           "signature": "array-value", "case": dict(cid, dump=d, wrong=bad[:5])})
        else:
            got = sorted(int(t) for r in range(R) for t in per_rank[r][d].split()[1:])
            if got != sorted(vals):
                of.append({"what": f"for_all(value) #{d}: multiset of values differs from the sequential result", "signature": "array-values-multiset", "case": dict(cid, dump=d)})
        if mdumps is not None:
            mr = mdumps[d].split("|")
            mr += [""] * (R - len(mr))
            for r in range(R):
                real = " ".join(per_rank[r][d].split()[1:])
                if real != mr[r].strip():
                    cf.append({"relation": "ArrayOps.presented(run …) == array::for_all output, rank by rank",
                               "what": f"dump #{d} rank {r}: real [{real[:120]}] model [{mr[r].strip()[:120]}]", "case": dict(cid, dump=d, rank=r)})
                    break
    return of, cf


# ----------------------------------------------------------------------------------------------------------------- lifetimes
# Several arrays of ONE type whose lifetimes are not nested (std::unique_ptr slots in the harness): a handle of a live array must keep
# addressing that array whatever is constructed or destroyed around it.

def gen_life(rng, R, shape):
    """script for harness mode `lifetimes`; shape 'seed' = A, B alive; update A; destroy A; construct C; update B; check B and C"""
    ops = []
    live = {}            # slot -> {"len", "born"}
    fam = {}             # (slot, index) -> operator family used since the last barrier
    single_used = set()
    stat = {"upd": 0, "new": 0, "del": 0, "nonlifo": 0, "checks": 0, "copies": 0}
    born = [0]

    def pick_len():
        c = [0, 1, max(R - 1, 1), R, R + 1, 2 * R - 1, 2 * R + 3, rng.randrange(1, R + 1), rng.randrange(R, 41), rng.randrange(1, 41)]
        return rng.choice(c)

    def barrier_seen():
        fam.clear(); single_used.clear()

    def new(k, L=None, dv=None):
        L = pick_len() if L is None else L
        dv = rng.choice([0, 1, 5, 255, 1000, M64, "-"]) if dv is None else dv
        ops.append(f"n {k} {L} {dv}")
        live[k] = {"len": L, "born": born[0]}; born[0] += 1
        stat["new"] += 1

    def copy(k, j):
        ops.append("B"); barrier_seen()         # the copy constructor reads the local vector: the source has to be quiescent
        ops.append(f"y {k} {j}")
        live[k] = {"len": live[j]["len"], "born": born[0]}; born[0] += 1
        stat["new"] += 1; stat["copies"] += 1

    def delete(k):
        if any(v["born"] > live[k]["born"] for v in live.values()):
            stat["nonlifo"] += 1                # a younger array outlives this one
        ops.append(f"D {k}")
        del live[k]
        for key in [key for key in fam if key[0] == k]:       # the slot may be taken by another array before the next barrier
            del fam[key]
            single_used.discard(key)
        stat["del"] += 1

    def phase(k, every=False):
        n_el = live[k]["len"]
        if n_el == 0:
            return
        ops.append(f"T {k}")
        st, sz = py_blocks(n_el, R)
        bd = sorted({i for s_, z in zip(st, sz) if z > 0 for i in (s_, s_ + z - 1)})
        targets = list(range(n_el)) if every else []
        targets += [rng.choice(bd) if rng.random() < 0.5 else rng.randrange(n_el) for _ in range(rng.randrange(1, 3) * max(R, 2) + rng.randrange(0, 4))]
        for i in targets:
            key = (k, i)
            if key not in fam:
                fam[key] = rng.choice(list(FAMILIES) + ["single"])
            if fam[key] == "single":
                if key in single_used:
                    continue
                single_used.add(key)
                op = rng.choice(SINGLE)
            else:
                op = rng.choice(FAMILIES[fam[key]])
            ops.append(f"{op} {rng.randrange(R)} {i}" + ("" if op in "+-" else f" {rand_val(rng)}"))
            stat["upd"] += 1

    def check(ks=None):
        ks = list(live) if ks is None else ks
        rng.shuffle(ks)
        for k in ks:
            ops.append(f"c {k}"); stat["checks"] += 1
        barrier_seen()

    def free_slot():
        return rng.choice([k for k in range(8) if k not in live])

    if shape == "seed":
        L = rng.choice([37, 2 * R + 1, max(R - 1, 1), 7])
        new(0, L, rng.choice([0, "-"])); new(1, L, rng.choice([0, "-"]))
        phase(0, every=True)
        ops.append("B"); barrier_seen()
        delete(0)                                   # the OLDER array goes first
        new(2, rng.choice([L, L + 1, max(R - 1, 1)]), 1000)
        phase(1, every=True)
        check([1, 2])
        phase(2); phase(1)
        check()
    else:
        total = rng.randrange(3, 7)                # arrays constructed over the whole run
        new(free_slot()); new(free_slot())
        if rng.random() < 0.5:
            new(free_slot())
        for k in list(live):
            if rng.random() < 0.7:
                phase(k)
        check()
        guard = 0
        while (stat["new"] < total or stat["nonlifo"] == 0) and guard < 12:
            guard += 1
            if len(live) >= 2 and (len(live) >= 4 or rng.random() < 0.6):
                order = sorted(live, key=lambda k: live[k]["born"])
                delete(order[0] if rng.random() < 0.7 else rng.choice(order[:-1]))      # never the youngest: not nested
                if rng.random() < 0.3:             # survivors are used while the registry has a hole
                    for k in list(live):
                        if rng.random() < 0.6:
                            phase(k)
                    check()
            if rng.random() < 0.25 and live:
                copy(free_slot(), rng.choice(list(live)))
            else:
                new(free_slot())
            ks = list(live); rng.shuffle(ks)
            for k in ks:
                if rng.random() < 0.75:
                    phase(k, every=rng.random() < 0.2)
            check()
        ks = list(live); rng.shuffle(ks)
        for k in ks:
            phase(k)
        check()
    nodes, ppn = rng.choice(layouts(R))
    script = ";".join(ops)
    return {"mode": "lifetimes", "ranks": R, "len": 0, "dv": 0, "script": script, "nodes": nodes, "ppn": ppn, "routing": rng.choice(ROUTES),
            "buffer_kb": rng.choice([0, 0, 1, None]), "sim_seed": rng.randrange(1, 1 << 30), "policy": rng.choice(POLICIES),
            "kind": "lifetimes", "shape": shape, "updates": stat["upd"], "resizes": 0, "emits": 0, "life": stat}


def life_expected(case):
    """sequential reading of a lifetimes script: ([(slot, instance, values by global index)] per check op in script order,
    {instance: (len, dv, model tokens)}).  Every slot's array is followed on its own: nothing that happens to another array may show."""
    slots, inst, n_inst, cur, checks = {}, {}, 0, 0, []
    for op in case["script"].split(";"):
        f = op.split()
        if f[0] == "B":
            continue
        if f[0] == "T":
            cur = int(f[1])
        elif f[0] == "n":
            dv = 0 if f[3] == "-" else int(f[3])      # array(comm, size): value-initialised default
            slots[int(f[1])] = {"id": n_inst, "vals": [dv] * int(f[2])}
            inst[n_inst] = {"len": int(f[2]), "dv": dv, "toks": []}; n_inst += 1
        elif f[0] == "y":
            src = slots[int(f[2])]
            slots[int(f[1])] = {"id": n_inst, "vals": list(src["vals"])}
            # for the model a copy is an array that went through its source's history up to here
            inst[n_inst] = dict(inst[src["id"]], toks=[t for t in inst[src["id"]]["toks"] if t != "F"]); n_inst += 1
        elif f[0] == "D":
            del slots[int(f[1])]
        elif f[0] == "c":
            a = slots[int(f[1])]
            checks.append((int(f[1]), a["id"], list(a["vals"])))
            inst[a["id"]]["toks"].append("F")
        else:
            a = slots[cur]
            i = int(f[2]); x = int(f[3]) if len(f) > 3 else 0
            a["vals"][i] = py_eval(f[0], i, a["vals"][i], x)
            inst[a["id"]]["toks"].append(":".join([f[0]] + f[2:]))
    return checks, inst


def life_model_lines(case):
    """one model history per array instance that is checked at least once (the model has no notion of other arrays: that is the point)"""
    _, inst = life_expected(case)
    return [(k, f"{v['len']} {case['ranks']} {v['dv']} | " + " ".join(v["toks"])) for k, v in sorted(inst.items()) if "F" in v["toks"]]


class Sec2:
    """a completed prefix of a failed run, presented as a run that ended there"""

    def __init__(self, sr, outs):
        self.verdict, self.stderr, self.blocked, self.outs = "ok", sr.stderr, sr.blocked, outs


def evaluate_life(case, sr, model_out, only=None):
    """model_out: answers to life_model_lines(case), same order (or None); only: judge just these leading checks (prefix of a failed run)"""
    of, cf = [], []
    R = case["ranks"]
    cid = case_id(case)
    checks, _ = life_expected(case)
    per_rank = [[l for l in sr.outs.get(r, []) if l.startswith("life ")] for r in range(R)]
    if sr.verdict != "ok":
        # the dumps every rank completed before the failure are still judged: a wrong element says more than the crash that follows it
        done = min(len(p) for p in per_rank)
        part, _ = evaluate_life(case, Sec2(sr, {r: per_rank[r][:done] for r in range(R)}), None, checks[:done]) if done else ([], [])
        for f in part:
            f["case"] = dict(f["case"], verdict=sr.verdict, stderr=sr.stderr[-400:])
        of = part[:3] or [{"what": f"real run with non-nested array lifetimes failed: {sr.verdict}", "signature": "array-lifetime run-failed " + sr.verdict.split(":")[0],
                           "case": dict(cid, verdict=sr.verdict, stderr=sr.stderr[-400:], blocked=sr.blocked)}]
        return of, cf
    if only is not None:
        checks = only
    bad_lines = [l for r in range(R) for l in sr.outs.get(r, []) if l.startswith("bad-")]
    if bad_lines or any(len(p) != len(checks) for p in per_rank):
        of.append({"what": "a rank produced a different number of dumps" + (f" ({bad_lines[0]})" if bad_lines else ""), "signature": "array-lifetime dump-count",
                   "case": dict(cid, got=[len(p) for p in per_rank], want=len(checks))})
        return of, cf
    mdumps = None
    if model_out is not None:
        mdumps = {}
        for (iid, _), ans in zip(life_model_lines(case), model_out):
            d = ans.split(" # ")
            if "trap" in ans or "bad-op" in ans:
                cf.append({"relation": "ArrayOps.run executes every legal history", "what": f"model answered {ans[:200]!r} for array instance {iid}", "case": cid})
                d = None
            mdumps[iid] = d
    nth = {}
    for d, (slot, iid, vals) in enumerate(checks):
        j = nth.get(iid, 0); nth[iid] = j + 1
        seen, sizes = [], set()
        for r in range(R):
            t = per_rank[r][d].split()
            if int(t[1]) != slot:
                of.append({"what": f"check #{d}: rank {r} dumped slot {t[1]}, script says {slot}", "signature": "array-lifetime dump-count", "case": dict(cid, dump=d)})
                return of, cf
            sizes.add(int(t[2]))
            for tok in t[3:]:
                a, b = tok.split(":")
                seen.append((int(a), int(b), r))
        idx = sorted(i for i, _, _ in seen)
        if idx != list(range(len(vals))) or sizes != {len(vals)}:
            of.append({"what": f"check #{d} (slot {slot}, array instance {iid}): size()/indices over all ranks are not {len(vals)} / 0..len-1 exactly once",
                       "signature": "array-lifetime forall-cover", "case": dict(cid, dump=d, slot=slot, sizes=sorted(sizes), seen=idx[:60])})
            continue
        bad = [(i, v, vals[i]) for i, v, _ in seen if v != vals[i]]
        if bad:
            of.append({"what": f"check #{d} (slot {slot}, array instance {iid}, other arrays of the type constructed/destroyed meanwhile): element {bad[0][0]} is "
                               f"{bad[0][1]}, sequential result of the updates addressed to THIS array is {bad[0][2]}",
                       "signature": "array-lifetime value", "case": dict(cid, dump=d, slot=slot, instance=iid, wrong=bad[:5], wrong_count=len(bad))})
        md = (mdumps or {}).get(iid)
        if md is not None:
            if j >= len(md):
                cf.append({"relation": "ArrayOps.run executes every legal history", "what": f"model produced {len(md)} dumps for array instance {iid}", "case": cid})
                continue
            mr = md[j].split("|")
            mr += [""] * (R - len(mr))
            for r in range(R):
                real = " ".join(per_rank[r][d].split()[3:])
                if real != mr[r].strip():
                    cf.append({"relation": "ArrayOps.presented(run …) == array::for_all output, rank by rank (array among others of its type, lifetimes not nested)",
                               "what": f"check #{d} slot {slot} rank {r}: real [{real[:120]}] model [{mr[r].strip()[:120]}]", "case": dict(cid, dump=d, rank=r)})
                    break
    return of, cf


def run(tier, seed, model_ok=True):
    res = C.Result()
    res.rule = RULE
    res.assumptions = ["every async is delivered exactly once to the addressed rank and executed atomically (C01/C08): the model folds the updates in issue order, "
                       "the theorems make every other order equivalent for the commuting histories generated",
                       "uint64_t arithmetic = Lean UInt64; divides only with non-zero divisors",
                       "communicator sizes beyond 8 and lengths beyond the generated ones are covered by the theorems only"]
    binary, err = C.build_harness("arrbag")
    if binary is None:
        res.corr_failures.append({"relation": "harness builds against /repo", "what": err[-800:], "case": None})
        return res
    if not model_ok:
        res.corr_failures.append({"relation": "model driver available", "what": "Lean library does not build", "case": None})
    rng = random.Random(seed * 7919 + (13 if tier == "quick" else 1300))
    per_size = 44 if tier == "quick" else 5000
    plan = []
    for R in range(1, 9 if tier == "quick" else 13):
        fixed = [0, 1, R - 1, R, R + 1, 2 * R - 1, 2 * R + 3, 3 * R + 1]
        for k in range(per_size):
            L = fixed[k] if k < len(fixed) else rng.choice([rng.randrange(0, R + 1), rng.randrange(R, 41), rng.randrange(1, 41)])
            L = max(L, 0)
            kind = "seq" if R == 1 and k % 2 == 0 else ("two" if k % 10 == 9 else "copy" if k % 5 == 4 else ("resize" if k % 3 == 1 else ("emit" if k % 3 == 2 else "phases")))
            plan.append((R, L, kind))
    # block boundaries from the proved partition model
    tabs = {}
    if model_ok:
        pairs = sorted(set((R, L) for R, L, _ in plan))
        for (R, L), o in zip(pairs, C.model("part", [f"table {L} {R}" for R, L in pairs])):
            parts = [p.strip().split() for p in o.split("|")]
            tabs[(R, L)] = ([int(x) for x in parts[1][1:]], [int(x) for x in parts[2][1:]])
    cases = []
    for k, (R, L, kind) in enumerate(plan):
        blocks = tabs.get((R, L)) or ([0] * R, [0] * R)
        case = gen_case(rng, R, L, blocks, kind)
        rng2 = random.Random(seed * 611953 + k)      # separate stream: the world scenarios stay what they were

        def gen_unit(size, kind=kind, rng2=rng2, L=L):
            u = gen_case(rng2, size, rng2.choice([L, max(L - 1, 0), size - 1, 2 * size + 1]), None, "phases" if kind == "seq" else kind)
            return {"len": u["len"], "dv": u["dv"], "script": u["script"]}
        add_sub(case, k, gen_unit)
        env_knobs(case, k)
        cases.append(case)
    if tier != "quick":
        # more than 65535 arrays of one type constructed before the array under test (ygm_ptr slots only grow): ~80 s, thorough tier only.
        # array 0 takes slot 0, 65535 scratch arrays follow, array 1 gets slot 65536; both stay alive and are updated alternately
        cases.append({"ranks": 2, "len": 5, "dv": 1, "script": "F;K 65535 c;N 7 9;T 1;s 0 3 8;p 1 6 4;+ 0 0;F;T 0;F;p 1 4 2;F;T 1;F", "nodes": 1, "ppn": 2,
                      "routing": "NONE", "buffer_kb": None, "sim_seed": 7, "policy": "uniform", "kind": "many-arrays", "updates": 4, "resizes": 0, "emits": 0,
                      "sim_env": {"SIMMPI_ICOLL_IDLE": 10 ** 9}, "max_steps": 10 ** 9})
    # arrays of one type with lifetimes that are not nested (own random stream: the scenarios above stay what they were)
    rng3 = random.Random(seed * 15485863 + (131 if tier == "quick" else 13100))
    lcases, lsamples = [], []
    for R in ((1, 3, 4) if tier == "quick" else range(1, 7)):
        for k in range(10 if tier == "quick" else 300):
            lc = gen_life(rng3, R, "seed" if k == 0 else "random")
            env_knobs(lc, len(lcases))
            lcases.append(lc)
    lmlines = [[l for _, l in life_model_lines(c)] for c in lcases]
    lall = C.model("array", [l for ls in lmlines for l in ls]) if model_ok else None
    lruns = C.pmap(lambda c: run_real(binary, c), lcases)
    pos = 0
    for case, sr, ls in zip(lcases, lruns, lmlines):
        mo = lall[pos:pos + len(ls)] if lall is not None else None
        pos += len(ls)
        res.evaluations += 1
        of, cf = evaluate_life(case, sr, mo)
        if cf and not of:
            # search around the disagreeing case for an input on which the property itself fails
            for j in range(6):
                c2 = dict(case, sim_seed=case["sim_seed"] + 1 + j, policy=POLICIES[j % len(POLICIES)])
                of2, _ = evaluate_life(c2, run_real(binary, c2), None)
                if of2:
                    of = of2
                    break
        res.oracle_failures += of
        res.corr_failures += cf
        st = case["life"]
        if case["updates"] > 0:
            res.distinct.add((case["ranks"], "lifetimes", hashlib.sha1(case["script"].encode()).hexdigest()[:12], case["routing"], case["buffer_kb"]))
        res.count("ranks=%d" % case["ranks"]); res.count("kind=lifetimes"); res.count("lifetimes:shape=" + case["shape"])
        res.count("routing=" + case["routing"]); res.count("buffer_kb=" + str(case["buffer_kb"]))
        res.count("updates", case["updates"])
        res.count("lifetimes:arrays_constructed", st["new"]); res.count("lifetimes:copies", st["copies"]); res.count("lifetimes:destroyed_before_a_younger_one", st["nonlifo"])
        res.count("lifetimes:checks", st["checks"])
        if sr.verdict == "ok":
            res.traces_validated += 1
        if case["ranks"] == 3 and case["shape"] == "random" and not lsamples:
            lsamples.append({"case": {k: case[k] for k in ("ranks", "routing", "buffer_kb", "nodes", "ppn", "mode")}, "script": case["script"][:300],
                             "real_rank0": sr.outs.get(0, [])[:3]})
    allunits = [u for c in cases for u in units(c)]
    allm = C.model("array", [model_line(u) for u in allunits]) if model_ok else [None] * len(allunits)
    mouts, pos = [], 0
    for c in cases:
        n = len(units(c))
        mouts.append(allm[pos:pos + n]); pos += n
    runs = C.pmap(lambda c: run_real(binary, c), cases)
    for case, sr, mo in zip(cases, runs, mouts):
        res.evaluations += 1
        of, cf = judge(case, sr, mo)
        if cf and not of:
            # search around the disagreeing case for an input on which the property itself fails
            for k in range(6):
                sr2 = run_real(binary, case, sim_seed=case["sim_seed"] + 1 + k, policy=POLICIES[k % len(POLICIES)])
                of2, _ = judge(dict(case, sim_seed=case["sim_seed"] + 1 + k, policy=POLICIES[k % len(POLICIES)]), sr2, None)
                if of2:
                    of = of2
                    break
        res.oracle_failures += of
        res.corr_failures += cf
        if case["updates"] > 0:
            res.distinct.add((case["ranks"], case["len"], hashlib.sha1(case["script"].encode()).hexdigest()[:12], case["routing"], case["buffer_kb"]))
        res.count("ranks=%d" % case["ranks"])
        res.count("len<ranks" if case["len"] < case["ranks"] else ("divisible" if case["len"] % case["ranks"] == 0 else "uneven"))
        res.count("kind=" + case["kind"])
        res.count("routing=" + case["routing"])
        res.count("buffer_kb=" + str(case["buffer_kb"]))
        res.count("env:issend_freq=%s" % case.get("issend_freq")); res.count("env:num_irecvs=%s" % case.get("num_irecvs"))
        res.count("env:isends_wait=%s" % case.get("isends_wait"))
        if case.get("placement"):
            res.count("placement=cyclic")
        res.count("updates", case["updates"])
        res.count("resizes", case.get("resizes", 0))
        res.count("emitting_for_alls", case.get("emits", 0))
        if case.get("sub"):
            res.count("two-communicators:" + case["sub"]["split"] + ":" + case["sub"]["order"])
        if sr.verdict == "ok":
            res.traces_validated += 1
        if case["ranks"] == 4 and case["len"] in (3, 5, 7) and case["updates"]:
            res.sample({"case": {k: case[k] for k in ("ranks", "len", "dv", "routing", "buffer_kb", "nodes", "ppn")}, "script": case["script"][:300],
                        "real_rank0": sr.outs.get(0, [])[:3], "model": (mo or "")[:200]}, cap=2)
    for smp in lsamples:
        res.sample(smp)
    return res


def replay(data):
    """re-run the recorded case; True = the failure did not reproduce"""
    case = data.get("case") or {}
    binary, err = C.build_harness("arrbag")
    if binary is None or "script" not in case:
        print("replay: nothing executable recorded:", data.get("no_longer_checks"))
        return False
    case = dict(case)
    case.setdefault("kind", "replay"); case.setdefault("updates", 1)
    sr = run_real(binary, case)
    print("verdict", sr.verdict, sr.stderr[-300:])
    for r in range(case["ranks"]):
        print(r, sr.outs.get(r))
    if case.get("mode") == "lifetimes":
        try:
            mo = C.model("array", [l for _, l in life_model_lines(case)])
        except Exception as ex:  # noqa: BLE001
            print("model unavailable:", ex)
            mo = None
        print("model", mo)
        of, cf = evaluate_life(case, sr, mo)
        for f in of + cf:
            print("FAIL", f.get("signature") or f.get("relation"), f["what"])
        return not of and not cf
    try:
        mo = C.model("array", [model_line(u) for u in units(case)])
    except Exception as ex:  # noqa: BLE001
        print("model unavailable:", ex)
        mo = None
    print("model", mo)
    of, cf = judge(case, sr, mo)
    for f in of + cf:
        print("FAIL", f.get("signature") or f.get("relation"), f["what"])
    return not of and not cf
