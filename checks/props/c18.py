"""C18 — line_parser hands out every line of every file exactly once (csv/ndjson: the parsed records).
Tie: generated file sets larger than the hard-wired 8 MiB granule, newlines steered around every
byte-range boundary of every communicator size 1..8; the real line_parser/csv_parser/ndjson_parser run
under simmpi; per rank the multiset of delivered (file, line) items is compared with
Lines.delivered (= carve + readRange) run by the Lean driver, and over all ranks with a sequential
std::getline read of the same files (the property's own statement)."""
import collections
import os
import random
import shutil
import tempfile

from lib import common as C

META = {
    "claimed": True,
    "technique": "Lean 4 proof (induction over the carving loop and the reader, all file lists / sizes / granules / rank counts) + rank-by-rank "
                 "correspondence of the real line_parser with the model on generated file sets > 8 MiB",
    "text": "Theorems read_spec (a range (b,e) delivers exactly the lines whose start s has s=0=b or b<s<=e), carve_consecutive (the ranges of every file, "
            "in rank order, are [0,e1],[e1,e2],...,[ek,size] with increasing cuts, for every rank count, granule and size list incl. empty files) and "
            "lines_exactly_once (the (file,line) pairs delivered over all ranks are a permutation of all lines of all files; empty lines, lines longer "
            "than a share, missing final newline included) over YgmVerif.Lines; records_spec_csv/ndjson lift it to the record wrappers with the parsers "
            "as parameters. The model is tied to line_parser.hpp by comparing, rank by rank, what the real code delivers on file sets of 10-120 MB whose "
            "newlines are steered to sit just before / at / just after every range boundary (and boundaries inside very long lines, files ending "
            "exactly on a budget boundary, empty files, no final newline) for communicator sizes 1..8, and with a sequential std::getline oracle.",
    "note": "Trusted: Lean kernel + propext/Classical.choice/Quot.sound; the hand-written model Lines.lean (file = line lengths + final-newline flag; "
            "libstdc++ seekg/getline/tellg semantics incl. tellg() = -1 after eof are modelled, compared on the generated inputs only); the granule is "
            "a model parameter, the code is exercised at its fixed 8 MiB only; parse_csv_line and boost::json::parse are parameters (the real ones are "
            "applied on both sides); directory traversal / unreadable paths of check_paths are exercised (dir and duplicate paths), not modelled; "
            "the model is one for_all call: delivery of the assignments before the second barrier returns and the emptiness of the static "
            "assignment list between calls rest on C01/C02 and are exercised (buffer 0/1 KB/default, routings, delivery policies, repeated calls).",
}

G = 8 * 1024 * 1024
RULE = ("generated: per file set choose file sizes (shapes: single file; several files with empty ones; back file exactly 8 MiB; back file "
        "exactly total/2+1; a line longer than 8 MiB at a random place; a line covering exactly 1, 2 or 3 whole interior pieces with its newline "
        "at / one before / one after the piece's last byte; a directory of 64 small files; 40 files of ~20 MB), compute the range cuts for every "
        "communicator size 1..8, steer newlines to cut-2..cut+1, clusters of empty lines, or no newline within +-100-300 kB of each cut; run the "
        "real parser for every communicator size with YGM_COMM_BUFFER_SIZE_KB in {0, 1, default}, routing NONE/NR/NLNR, five simmpi delivery "
        "policies, one or two back-to-back for_all calls on the same parser object; a case = (file set, kind, ranks); non-trivial = at least "
        "two ranks received a byte range, or >= 32 files")


# ------------------------------------------------------------------ text rule (mirror of harness/lines.cpp, `lines` kind only)

def header(f, i):
    return str(i)[::-1] + ":" + str(f) + ":"


def item_lines(f, i, L):
    h = header(f, i)
    if L >= len(h):
        return f"L {f} {i} {L}"
    return f"S {L} {h[:L]}"


# ------------------------------------------------------------------ generator

def py_carve(sizes, n):
    """mirror of rank 0's loop — used ONLY to steer newlines towards the cuts; the check itself
    compares against Lines.carve run by the Lean driver"""
    total = sum(sizes)
    rem = [[i, 0, sz] for i, sz in enumerate(sizes)]
    out = [[] for _ in range(n)]
    if total == 0:
        return out
    bpr = max(total // n + 1, G)
    for r in range(n):
        bud = bpr
        while bud > 0 and rem:
            f = rem[-1]
            fr = f[2] - f[1]
            if fr > bud:
                out[r].append((f[0], f[1], f[1] + bud))
                f[1] += bud
                bud = 0
            else:
                out[r].append((f[0], f[1], f[2]))
                bud -= fr
                rem.pop()
    return out


def pick_len(rng, minlen):
    x = rng.random()
    if x < 0.20:
        L = rng.choice([0, 0, 1, 2, 5, 9, 17, 30, 60])
    elif x < 0.90:
        L = rng.randint(50, 3000)
    elif x < 0.98:
        L = rng.randint(3000, 20000)
    else:
        L = rng.randint(100000, 400000)
    return max(L, minlen)


def gen_file(size, nl, cuts, rng, minlen, bigline=None, tail_cluster=False, hard=(), short=False):
    """line lengths of a file of exactly `size` bytes.  cuts: byte offsets of range boundaries inside the file.
    bigline: (lo, hi) no newline inside; hard: newline positions that must be kept exactly."""
    if size == 0:
        return []
    anchors = set(hard)      # required newline positions
    zones = []               # (lo, hi): no newline allowed inside
    if bigline:
        zones.append(bigline)
    for c in sorted(cuts):
        sc = rng.choice(["nl-2", "nl-1", "nl0", "nl+1", "cluster", "long", "nl-1", "nl0"])
        if any(lo <= c <= hi for lo, hi in zones) or any(abs(c - h) <= 4 for h in hard):
            continue
        if sc == "long":
            z = (c - rng.randint(100000, 300000), c + rng.randint(100000, 300000))
            if any(z[0] <= h <= z[1] for h in hard):
                continue
            zones.append(z)
        elif sc == "cluster" and minlen == 0:
            for d in range(-3, 3):
                anchors.add(c + d)
        else:
            anchors.add(c + {"nl-2": -2, "nl-1": -1, "nl0": 0, "nl+1": 1, "cluster": -1}[sc])
    if tail_cluster and minlen == 0:
        for d in range(2, 9):
            anchors.add(size - d)
    last = size - 1 if nl else size       # position of the final (for nl=False: virtual) newline
    room = minlen if nl else max(minlen, 1)   # an unterminated last line must not be empty
    anchors = sorted(a for a in anchors if 0 <= a and a + 1 + room <= last and not any(lo <= a <= hi for lo, hi in zones))
    anchors.append(last)
    lens, s = [], 0
    for p in anchors:
        if p - s < minlen:
            continue                      # anchor too close for this kind's minimal line length
        while True:
            remaining = p - s
            L = pick_len(rng, minlen)
            if short:
                L = max(minlen, L % 300)
            q = s + L                      # candidate newline position
            for lo, hi in zones:
                if lo <= q <= hi:
                    q = hi + 1
            if q + 1 + minlen > p or remaining < 2 * minlen + 2:
                lens.append(remaining)
                s = p + 1
                break
            lens.append(q - s)
            s = q + 1
    if not nl and lens[-1] == 0:
        raise RuntimeError("generator: empty unterminated last line")
    return lens


def file_bytes(lens, nl):
    if not lens:
        return 0
    return sum(lens) + len(lens) - (0 if nl else 1)


def gen_set(tier, seed, idx, kind, shape=None):
    """shapes: A single file; B several files with empty ones; C back file exactly one granule; D back file exactly
    total/2+1; E a line longer than the granule at a random place; F1/F2/F3 a line that covers 1/2/3 whole interior
    pieces (its newline at the piece's last byte, one before or one after); S a directory of 64 small files (< 8 MiB in
    total: everything is assigned to rank 0, the assignment messages exceed 1 KiB); M 40 files of 18-24 MB in total"""
    req = shape
    rng = random.Random(f"c18-{tier}-{seed}-{idx}-{kind}-{shape}")
    minlen = 48 if kind == "ndjson" else 0
    if kind == "lines":
        if shape is None:
            shape = "BCEDA"[(idx + 3 * seed) % 5] if tier == "quick" else rng.choice("ABCDE")
        total = rng.randint(17, 24) * 1024 * 1024 if tier == "quick" else rng.randint(10, 120) * 1024 * 1024
        if shape == "big":                        # a larger set so that every one of 8 ranks receives a range
            total, shape = rng.randint(58, 70) * 1024 * 1024, rng.choice("AB")
        total += rng.randint(-3000, 3000)
    else:
        shape = shape or rng.choice("AB")
        total = rng.randint(9, 13) * 1024 * 1024 + rng.randint(-3000, 3000)
    bigline, hard, short = {}, {}, False
    if shape == "A":
        sizes = [total]
    elif shape == "B":
        k = rng.randint(2, 4)
        ws = [rng.random() + 0.15 for _ in range(k)]
        sizes = [int(total * w / sum(ws)) for w in ws]
        for _ in range(rng.randint(1, 2)):
            sizes.insert(rng.randint(0, len(sizes)), 0)          # empty files: front, middle, back
    elif shape == "C":                                            # back file exactly one granule
        rest = total - G
        a = rng.randint(rest // 4, 3 * rest // 4)
        sizes = [a, 0, rest - a, G] if rng.random() < 0.5 else [a, rest - a, G]
    elif shape == "D":                                            # back file exactly total/2 + 1 (n = 2 budget)
        a = total // 2
        sizes = [a, 0, a + 2] if rng.random() < 0.5 else [a, a + 2]
    elif shape == "E":                                            # a line longer than the granule
        big = rng.randint(9, 17) * 1024 * 1024 if tier == "thorough" else rng.randint(9, 11) * 1024 * 1024
        total = max(total, big + 6 * 1024 * 1024)
        a = rng.randint(1, 3) * 1024 * 1024
        sizes = [a, total - a]
        lo = rng.randint(200000, total - a - big - 200000)
        bigline[1] = (lo, lo + big)
    elif shape in ("F1", "F2", "F3"):
        # the back file is cut at j*G for every communicator size with total/size+1 <= G (total < 64 MiB: 8 ranks, mostly
        # also 6 and 7); one line covers the pieces [jG,(j+1)G] ... [(j+k-1)G,(j+k)G]; smaller communicators have
        # larger pieces, the 3-piece line still covers whole ones for 3, 4 and 5 ranks
        k = int(shape[1])
        j = rng.choice([1, 2]) if k < 3 else 1
        small = rng.choice([0, rng.randint(1000, 300000)])
        bigf = (j + k + 1) * G + rng.randint(1, 5) * 1024 * 1024 + rng.randint(-3000, 3000)
        sizes = [small, bigf] if small else [bigf]
        d = [0, -1, 1][(seed + k + idx) % 3]                       # newline at the last byte of the piece / before / after
        P = (j + k) * G + d
        sa = rng.choice(["at-cut", "cut-1", "free"])
        if sa == "at-cut":
            start_nl, zlo = j * G - 1, j * G                       # the line starts exactly at the cut
        elif sa == "cut-1":
            start_nl, zlo = j * G - 2, j * G - 1
        else:
            start_nl, zlo = None, j * G - rng.randint(0, 5000)
        fi = len(sizes) - 1
        bigline[fi] = (zlo, P - 1)
        hard[fi] = [P] + ([start_nl] if start_nl is not None else [])
    elif shape == "S":
        short = True
        sizes = [rng.choice([0, rng.randint(1, 40), rng.randint(500, 40000), rng.randint(500, 40000)]) for _ in range(64)]
    else:                                                         # M
        total = rng.randint(18, 24) * 1024 * 1024 if kind == "lines" else rng.randint(9, 12) * 1024 * 1024
        ws = [rng.choice([0, 1, 1, 1]) * (rng.random() + 0.1) for _ in range(40)]
        sizes = [int(total * w / sum(ws)) for w in ws]
    cuts = collections.defaultdict(set)
    for n in range(1, 9):
        for rs in py_carve(sizes, n):
            for (f, b, e) in rs:
                if 0 < e < sizes[f]:
                    cuts[f].add(e)
    files = []
    for f, sz in enumerate(sizes):
        nl = rng.random() < 0.6
        lens = gen_file(sz, nl, cuts[f], rng, minlen, bigline.get(f), tail_cluster=(rng.random() < 0.6),
                        hard=hard.get(f, ()), short=short)
        if sz > 0 and file_bytes(lens, nl) != sz:
            raise RuntimeError(f"generator: file {f} has {file_bytes(lens, nl)} bytes, wanted {sz}")
        files.append((nl, lens))
    return {"kind": kind, "shape": shape, "idx": idx, "files": files, "sizes": sizes, "req": req}


def write_spec(path, fset):
    with open(path, "w") as o:
        o.write(f"{len(fset['files'])}\n")
        for nl, lens in fset["files"]:
            o.write(f"{1 if nl else 0} {len(lens)} " + " ".join(map(str, lens)) + "\n")


# ------------------------------------------------------------------ model

def expand_runs(tok_line):
    out = []
    for t in tok_line.split():
        f, r = t.split(":")
        a, b = r.split("-")
        out += [(int(f), i) for i in range(int(a), int(b) + 1)]
    return out


def model_session(fset, ranks_list, nvis=None):
    """model over the first `nvis` files of the set (default: all).
    returns (sizes, wf, {n: (carve per rank, delivered per rank)}, all-lines)"""
    files = fset["files"] if nvis is None else fset["files"][:nvis]
    lines = ["reset"]
    for nl, lens in files:
        lines.append(f"file {1 if nl else 0} " + " ".join(map(str, lens)))
    for n in ranks_list:
        lines += [f"carve {n} {G}", f"deliver {n} {G}"]
    lines.append("all")
    out = C.model("lines", lines)
    k = 1
    sizes, wf = [], []
    for _ in files:
        w = out[k].split()
        sizes.append(int(w[1]))
        wf.append(w[5] == "1")
        k += 1
    per_n = {}
    for n in ranks_list:
        cv = [[tuple(int(x) for x in t.split(",")) for t in part.split()] for part in out[k].split("|")]
        dl = [expand_runs(part) for part in out[k + 1].split("|")]
        per_n[n] = (cv, dl)
        k += 2
    alll = expand_runs(out[k])
    return sizes, wf, per_n, alll


# ------------------------------------------------------------------ one run of the real code

def factor_layout(r, g0=0, placement="block"):
    """(nodes, ranks per node).  Sub-communicator runs keep every group's ranks-per-node uniform (ygm's NR/NLNR
    routers assume it): one node, or groups of 2 and r-2 ranks made of whole nodes (block: r/2 nodes x 2) resp.
    spread evenly over 2 nodes (cyclic: 2 nodes x r/2)."""
    if g0:
        if g0 == 2 and r % 2 == 0 and r > 4:
            return (2, r // 2) if placement == "cyclic" else (r // 2, 2)
        return (1, r)
    return (2, r // 2) if r % 2 == 0 and r > 2 else (1, r)


def visible(fset, pathmode):
    """number of files (a prefix of the set, in sorted path order) line_parser is specified to visit:
    check_paths takes listed regular files, the regular files directly inside a listed directory, and with
    recursive = true every regular file below it.  In the tree layout of harness/lines.cpp the top-level files
    are the first ceil(n/3)."""
    n = len(fset["files"])
    return (n + 2) // 3 if pathmode == "tree-flat" else n


def groups_of(n, opts):
    g0 = opts.get("g0", 0)
    return [list(range(n))] if not g0 else [list(range(g0)), list(range(g0, n))]


def run_real(binary, fset, n, opts, sim_seed):
    """opts: pathmode, buf (YGM_COMM_BUFFER_SIZE_KB or None = library default), routing, issend, irecvs, isends_wait,
    policy + placement (simmpi), calls, g0 (0 = world communicator, else split into [0,g0) and [g0,n))"""
    d = tempfile.mkdtemp(prefix="c18spec-")
    try:
        spec = os.path.join(d, "spec.txt")
        write_spec(spec, fset)
        nodes, ppn = factor_layout(n, opts.get("g0", 0), opts.get("placement", "block"))
        env = {"YGM_COMM_ROUTING": opts["routing"], "YGM_COMM_ISSEND_FREQ": opts["issend"], "YGM_COMM_NUM_IRECVS": opts["irecvs"],
               "YGM_COMM_NUM_ISENDS_WAIT": opts["isends_wait"]}
        if opts["buf"] is not None:
            env["YGM_COMM_BUFFER_SIZE_KB"] = opts["buf"]
        if opts.get("placement") == "cyclic":
            env["SIMMPI_PLACEMENT"] = "cyclic"
        if opts.get("pathlen"):
            env["LINES_PATHLEN"] = str(opts["pathlen"])
        sr = C.run_sim(binary, [fset["kind"], spec, opts["pathmode"], opts["calls"], opts.get("g0", 0)], nodes=nodes, ppn=ppn,
                       want_log=False, env=env, policy=opts["policy"], sim_seed=sim_seed, timeout=900)
    finally:
        shutil.rmtree(d, ignore_errors=True)
    return sr


def split_out(sr, n):
    """per call, per world rank Counter of items; oracle {(f,i): item}; reported sizes"""
    calls, oracle, fsizes = {}, {}, {}
    for r in range(n):
        cur = None
        for l in sr.outs.get(r, []):
            if l.startswith("Q "):
                w = l.split(" ", 3)
                oracle[(int(w[1]), int(w[2]))] = w[3]
            elif l.startswith("F "):
                w = l.split()
                fsizes[int(w[1])] = int(w[2])
            elif l.startswith("C "):
                cur = int(l[2:])
                calls.setdefault(cur, [collections.Counter() for _ in range(n)])
            elif l and cur is not None:
                calls[cur][r][l] += 1
    return calls, oracle, fsizes


def classify(res, fset, cv):
    """measured distribution of what the cuts of this run hit"""
    import bisect
    starts = []
    for nl, lens in fset["files"]:
        s, st = 0, []
        for L in lens:
            st.append(s)
            s += L + 1
        starts.append(st)
    ranks_with_data = sum(1 for rs in cv if rs)
    bpr = max(sum(fset["sizes"]) // len(cv) + 1, G)
    for ri, rs in enumerate(cv):
        for (f, b, e) in rs:
            sz = fset["sizes"][f]
            if sz == 0:
                res.count("range-of-empty-file")
                continue
            st = starts[f]
            if b > 0 and e < sz:
                k = bisect.bisect_right(st, b)     # first line with start > b
                if k >= len(st) or st[k] > e:
                    res.count("interior piece lying wholly inside one line (delivers nothing)")
            if e == sz:
                if b == 0:
                    res.count("file read whole by one rank")
                if rs[-1] == (f, b, e) and sum(y - x for (_, x, y) in rs) == bpr and any(cv[ri + 1:]):
                    res.count("file ends exactly on a budget boundary")
                continue
            k = bisect.bisect_left(st, e)          # first line with start >= e
            nxt = st[k] if k < len(st) else None
            prev = st[k - 1] if k > 0 else None
            if nxt == e:
                res.count("cut: a line starts exactly at e")
            elif nxt == e + 1:
                res.count("cut: newline byte at e (line starts at e+1)")
            elif nxt is not None and nxt == e + 2:
                res.count("cut: line starts at e+2")
            elif prev is not None and prev == e - 1:
                res.count("cut: line starts at e-1")
            else:
                left = e - prev if prev is not None else e
                right = (nxt - e) if nxt is not None else sz - e
                if left + right > G:
                    res.count("cut: inside a line longer than 8 MiB")
                elif min(left, right) >= 100000:
                    res.count("cut: inside a long line (>=100 kB on both sides)")
                else:
                    res.count("cut: inside an ordinary line")
    return ranks_with_data


def sig_of(kind, missing, extra):
    return f"{kind}-not-exactly-once missing={min(len(missing), 9)} duplicated-or-foreign={min(len(extra), 9)}"


def check_run(res, fset, n, opts, sr, models, tier, seed):
    """models: {group size: (msizes, cv, dl, alll)} for the files visible under opts['pathmode']"""
    kind = fset["kind"]
    nvis = visible(fset, opts["pathmode"])
    groups = groups_of(n, opts)
    case = {"tier": tier, "seed": seed, "set": fset["idx"], "kind": kind, "shape": fset["shape"], "shape_req": fset["req"], "ranks": n,
            "opts": opts, "sizes": fset["sizes"][:12], "files": len(fset["sizes"]), "files_visible": nvis,
            "final_newline": [nl for nl, _ in fset["files"]][:12], "groups": [len(g) for g in groups]}
    res.evaluations += 1
    if sr.verdict != "ok":
        res.oracle_failures.append({"what": f"{PARSER[kind]} run failed: {sr.verdict}", "signature": f"{kind}-run-{sr.verdict.split(':')[0]}",
                                    "case": dict(case, stderr=sr.stderr[-400:], blocked=sr.blocked)})
        return
    calls, oracle_all, fsizes = split_out(sr, n)
    oracle = {k: v for k, v in oracle_all.items() if k[0] < nvis}
    msizes, _, _, alll = models[len(groups[0])]
    # -- the generated files are what the model was given
    if [fsizes.get(f) for f in range(nvis)] != msizes or [fsizes.get(f) for f in range(len(fset["sizes"]))] != fset["sizes"]:
        res.corr_failures.append({"relation": "File.size == fs::file_size of the generated file", "what": "sizes differ",
                                  "case": dict(case, real=fsizes, model=msizes)})
        return
    if sorted(oracle.keys()) != sorted(alll):
        res.corr_failures.append({"relation": "Lines.allLines == lines seen by sequential std::getline", "what": "line sets differ",
                                  "case": dict(case, real=len(oracle), model=len(alll))})
        return
    if kind == "lines":
        bad = [(k, v) for k, v in oracle.items() if v != item_lines(k[0], k[1], fset["files"][k[0]][1][k[1]])]
        if bad:
            res.corr_failures.append({"relation": "harness wrote the specified text", "what": f"{len(bad)} lines differ", "case": dict(case, first=bad[0])})
            return
    if kind == "csv":
        # independent expectation for the unquoted leading fields the text rule puts into every record (the sequential oracle uses the
        # library's own field parser, so a change to how a field is stored would move both sides together): an unquoted field is the
        # text between two commas without its LEADING blanks (`ssline >> std::ws`); trailing blanks belong to the field. Fields 0, 1
        # and 4 of `f,i,"q ""x"", y",  z<i%7> ,` are judged; how the quoted part splits is std::quoted's business and is not.
        badf = []
        for (f, i), v in oracle.items():
            L = fset["files"][f][1][i]
            head = f"{f},{i}," + '"q ""x"", y",' + f"  z{i % 7} ,"
            if i % 19 == 5 or i % 17 == 3 or L < len(head):
                continue
            want = [str(f), str(i), f"z{i % 7}_"]
            g = v.split(" ", 2)[2].split("|")
            got = [g[1], g[2], g[5]] if len(g) > 6 else g
            if got != want:
                badf.append(((f, i), got, want))
        if badf:
            res.oracle_failures.append({"what": f"csv_parser: {len(badf)} records whose leading fields are not the text of the file, e.g. record {badf[0][0]}: "
                                                f"fields {badf[0][1]} expected {badf[0][2]}", "signature": "csv-field-content", "case": dict(case, first=repr(badf[0]))})
            return
        res.count("csv: records with verified leading fields", sum(1 for (f, i) in oracle if not (i % 19 == 5 or i % 17 == 3)))
    if sorted(calls.keys()) != list(range(opts["calls"])):
        res.corr_failures.append({"relation": "harness performed the requested for_all calls", "what": f"calls seen {sorted(calls.keys())}", "case": case})
        return
    seq = collections.Counter(v for v in oracle.values() if kind != "csv" or int(v.split()[1]) > 0)
    where = (f"buffer {opts['buf'] if opts['buf'] is not None else 'default'} KB, routing {opts['routing']}, paths {opts['pathmode']}")
    with_data_max = 0
    for gi, ranks in enumerate(groups):
        ng = len(ranks)
        _, cv, dl, _ = models[ng]
        gcase = dict(case, group=gi, group_world_ranks=ranks, model_ranges=[rs[:6] for rs in cv])
        # -- expected per rank from the model
        if kind == "csv":
            keep = C.model("lines", ["csvkeep " + " ".join(oracle[x].split()[1] for x in d) for d in dl])
            exp = [collections.Counter(oracle[d[int(p)]] for p in k.split()) for d, k in zip(dl, keep)]
        else:
            exp = [collections.Counter(oracle[x] for x in d) for d in dl]
        comm_name = "the world communicator" if len(groups) == 1 else f"sub-communicator {gi} (world ranks {ranks[0]}..{ranks[-1]})"
        for ci in range(opts["calls"]):
            per_rank = [calls[ci][r] for r in ranks]
            ccase = dict(gcase, call=ci)
            # -- direct oracle: union over the ranks of the communicator == sequential read of the files to visit
            union = collections.Counter()
            for c in per_rank:
                union.update(c)
            if union != seq:
                missing = list((seq - union).items())
                extra = list((union - seq).items())
                res.oracle_failures.append({"what": f"{PARSER[kind]}::for_all (call {ci + 1} of {opts['calls']}) on {comm_name}, {ng} ranks, {where}: "
                                                    f"{sum(v for _, v in missing)} record(s) never delivered, "
                                                    f"{sum(v for _, v in extra)} delivered too often / not in the files to visit",
                                            "signature": sig_of(kind, missing, extra),
                                            "case": dict(ccase, missing=missing[:6], extra=extra[:6],
                                                         items_per_rank=[sum(c.values()) for c in per_rank])})
            # -- correspondence, rank by rank
            for r in range(ng):
                if per_rank[r] != exp[r]:
                    res.corr_failures.append({"relation": "Lines.delivered (carve + readRange) == items delivered per rank",
                                              "what": f"rank {r} of {ng} differs (call {ci + 1}, {comm_name})",
                                              "case": dict(ccase, rank=r, only_real=list((per_rank[r] - exp[r]).items())[:5],
                                                           only_model=list((exp[r] - per_rank[r]).items())[:5])})
                    break
            res.count("for_all calls compared")
            res.count("lines-delivered", sum(union.values()))
        vset = dict(fset, files=fset["files"][:nvis], sizes=fset["sizes"][:nvis])
        with_data = classify(res, vset, cv)
        with_data_max = max(with_data_max, with_data)
        res.count(f"ranks-with-a-range={with_data}")
        if with_data >= 2 or nvis >= 20:
            res.distinct.add((fset["idx"], kind, n, gi))
    res.traces_validated += 1
    res.count(f"kind={kind}")
    res.count(f"shape={fset['shape']}")
    res.count(f"paths={opts['pathmode']}")
    res.count(f"pathlen={opts.get('pathlen')}")
    res.count(f"{kind}: buffer_kb={opts['buf'] if opts['buf'] is not None else 'default'}")
    res.count(f"routing={opts['routing']}")
    res.count(f"policy={opts['policy']}")
    res.count(f"issend_freq={opts['issend']} irecvs={opts['irecvs']} isends_wait={opts['isends_wait']}")
    if opts.get("placement") == "cyclic":
        res.count("cyclic placement")
    if len(groups) > 1:
        res.count("runs on two sub-communicators of different size")
    if opts["calls"] > 1:
        res.count("runs with two back-to-back for_all calls on one parser")
    if any(not nl and lens for nl, lens in fset["files"][:nvis]):
        res.count("runs with a file lacking the final newline")
    if len(res.samples) < 3 and with_data_max >= 2:
        res.sample({"kind": kind, "shape": fset["shape"], "ranks": n, "opts": opts, "file_sizes": fset["sizes"][:8],
                    "ranges_per_rank": [rs[:3] for rs in models[len(groups[-1])][1]],
                    "items_per_world_rank": [sum(c.values()) for c in calls[0]]})


# ------------------------------------------------------------------ plan

def plan(tier, seed):
    """list of (kind, set index, requested shape or None, [communicator sizes])"""
    r18, r38 = list(range(1, 9)), list(range(3, 9))
    if tier == "quick":
        return ([("lines", i, None, r18) for i in range(5)] + [("lines", 5, "big", [4, 5, 6, 7, 8])]
                + [("lines", 6, "F1", r38), ("lines", 7, "F2", r38), ("lines", 8, "F3", r38)]
                + [("lines", 9, "S", r18), ("lines", 10, "M", [1, 2, 3, 4, 6, 8])]
                + [("csv", 0, None, [1, 2, 3, 5]), ("ndjson", 0, None, [2, 3, 4]), ("csv", 1, "S", [2, 3, 4, 6]),
                   ("ndjson", 1, "M", [2, 3, 5, 6])])
    p = [("lines", i, None, r18) for i in range(30)]
    p += [("lines", 30 + i, f"F{1 + i % 3}", r38) for i in range(9)]
    p += [("lines", 40 + i, "S", r18) for i in range(3)] + [("lines", 44 + i, "M", r18) for i in range(3)]
    p += [("csv", i, None, [1, 2, 3, 4, 6, 8]) for i in range(3)] + [("ndjson", i, None, [1, 2, 3, 5, 7]) for i in range(3)]
    p += [("csv", 3, "S", r18), ("csv", 4, "B", r18), ("ndjson", 3, "M", [2, 3, 4, 6]), ("ndjson", 4, "B", r18)]
    return p


PARSER = {"lines": "line_parser", "csv": "csv_parser", "ndjson": "ndjson_parser"}
PATHMODES = ["files", "dir", "dup"]
TREEMODES = ["files", "tree-rec", "dir", "tree-flat", "dup"]       # sets with at least three files
BUFS = [None, 0, 1]
ROUTINGS = ["NONE", "NR", "NLNR"]
POLICIES = ["uniform", "racer", "starve", "late", "burst"]
ISSEND = [8, 0, 1]
IRECVS = [8, 1, 2]
ISENDS_WAIT = [4, 0, 1]
PATHLENS = [None, 255, None, 252, 256, None, 250, 254]


def options(fset, n, seed):
    """environment of one run — a deterministic function of (set, ranks, seed), recorded in the case: path mode
    (incl. directory trees with recursive true/false), send-buffer size, routing, issend frequency, number of posted
    receives, isend wait threshold, simmpi delivery policy and placement, number of for_all calls on the parser,
    and whether the parser lives on the world communicator or on two sub-communicators of different size."""
    i = fset["idx"] + (0 if fset["kind"] == "lines" else 3 if fset["kind"] == "csv" else 7)
    nf = len(fset["sizes"])
    small = sum(fset["sizes"]) < 30 * 1024 * 1024
    g0 = 0
    if n >= 3 and not fset["shape"].startswith("F") and (i + n + seed) % 4 == 0:
        g0 = 2 if n in (6, 8) else (n - 1) // 2   # 3:1+2  4:1+3  5:2+3  7:3+4 (one node)   6:2+4  8:2+6 (several nodes)
    cyc = (i + n + seed) % 2 == 0 if not g0 else (i + n + seed) % 8 == 0
    nodes, _ = factor_layout(n, g0, "cyclic" if cyc else "block")
    return {"pathmode": TREEMODES[(i + n) % 5] if nf >= 3 else PATHMODES[(i + n) % 3],
            "buf": BUFS[(i + n + seed) % 3], "routing": ROUTINGS[(2 * i + n + seed // 3) % 3],
            "issend": ISSEND[(i + n // 2 + seed) % 3], "irecvs": IRECVS[(i // 2 + n + seed) % 3],
            "isends_wait": ISENDS_WAIT[(i + n + seed // 2) % 3],
            "policy": POLICIES[(i + 2 * n + seed) % 5], "placement": "cyclic" if nodes > 1 and cyc else "block",
            "calls": 2 if small and (i + n) % 2 == 0 or nf >= 32 else 1, "g0": g0,
            # length of the path string of a top-level file (None = whatever the temp dir gives): 255 / 256 are the boundaries of a
            # one-byte length; 252 and 250 put the files of d1/ and d1/e/ of the tree modes at 255
            "pathlen": PATHLENS[(i + 2 * n + seed) % len(PATHLENS)]}


def run(tier, seed, model_ok=True):
    res = C.Result()
    res.rule = RULE
    res.assumptions = ["the granule is exercised at the code's fixed 8 MiB only (the theorems cover every granule)",
                       "libstdc++ ifstream seekg/getline/tellg behave as modelled (compared on the generated inputs)",
                       "parse_csv_line / boost::json::parse are parameters: the real functions are applied on both sides",
                       "files are not modified while being parsed; node_local_filesystem=false (the other branch asserts)",
                       "the model describes one for_all call on one communicator; that the per-rank assignment list is empty at the start of "
                       "every call and complete after the second barrier (C01/C02), that 'rank 0' is the communicator's own rank 0, and which "
                       "files check_paths visits (listed files, files directly in a listed directory, with recursive = true the whole tree) "
                       "are exercised (buffer sizes, routings, issend/irecv/isend-wait settings, delivery policies, placements, repeated "
                       "calls, sub-communicators, directory trees), not proved here"]
    binary, err = C.build_harness("lines")
    if binary is None:
        res.corr_failures.append({"relation": "harness builds against /repo", "what": err[-800:], "case": None})
        return res
    if not model_ok:
        res.corr_failures.append({"relation": "model driver available", "what": "Lean library does not build", "case": None})
        return res
    sets = [(gen_set(tier, seed, idx, kind, shape), ranks) for (kind, idx, shape, ranks) in plan(tier, seed)]
    jobs, need = [], collections.defaultdict(set)       # need: (set position, files visible) -> communicator sizes
    for si, (fset, ranks) in enumerate(sets):
        for n in ranks:
            opts = options(fset, n, seed)
            jobs.append((si, n, opts))
            for g in groups_of(n, opts):
                need[(si, visible(fset, opts["pathmode"]))].add(len(g))
    keys = sorted(need)
    sessions = dict(zip(keys, C.pmap(lambda k: model_session(sets[k[0]][0], sorted(need[k]), k[1]), keys, workers=6)))
    for (si, nvis), (msizes, wf, per_n, alll) in sessions.items():
        if not all(wf):
            res.corr_failures.append({"relation": "generated files are canonical (File.WF)", "what": "generator produced a non-canonical file", "case": {"set": sets[si][0]["idx"]}})
            return res

    def do(job):
        si, n, opts = job
        return job, run_real(binary, sets[si][0], n, opts, seed * 1000 + n)

    workers = 8 if tier == "quick" else 5       # bounds the disk used at any time (each run writes its own copy of the set)
    for (si, n, opts), sr in C.pmap(do, jobs, workers=workers):
        fset = sets[si][0]
        msizes, wf, per_n, alll = sessions[(si, visible(fset, opts["pathmode"]))]
        models = {len(g): (msizes, per_n[len(g)][0], per_n[len(g)][1], alll) for g in groups_of(n, opts)}
        check_run(res, fset, n, opts, sr, models, tier, seed)
    return res


def replay(data):
    """regenerate the recorded (tier, seed, set, kind, shape, ranks, options) and run it; True when the failure does NOT reproduce"""
    case = data.get("case")
    if not case:
        for b in data.get("no_longer_checks", []):
            if b.get("case") and "set" in (b["case"] or {}):
                case = b["case"]
                break
    if not case or "set" not in case:
        print("replay: nothing executable recorded:", data.get("no_longer_checks"))
        return False
    binary, err = C.build_harness("lines")
    if binary is None:
        print(err[-500:])
        return False
    fset = gen_set(case["tier"], case["seed"], case["set"], case["kind"], case.get("shape_req"))
    n, opts = case["ranks"], case["opts"]
    gsizes = sorted({len(g) for g in groups_of(n, opts)})
    msizes, wf, per_n, alll = model_session(fset, gsizes, visible(fset, opts["pathmode"]))
    models = {g: (msizes, per_n[g][0], per_n[g][1], alll) for g in gsizes}
    sr = run_real(binary, fset, n, opts, case["seed"] * 1000 + n)
    res = C.Result()
    check_run(res, fset, n, opts, sr, models, case["tier"], case["seed"])
    print("verdict", sr.verdict, "file sizes", fset["sizes"][:8], "ranks", n, "options", opts)
    for g in gsizes:
        print(f"model ranges per rank ({g} ranks):", [rs[:4] for rs in per_n[g][0]])
    for f in res.oracle_failures:
        print("ORACLE", f["what"], f["case"].get("missing"), f["case"].get("extra"))
    for f in res.corr_failures:
        print("CORRESPONDENCE", f["relation"], f["what"], f["case"].get("only_real"), f["case"].get("only_model"))
    return not res.oracle_failures and not res.corr_failures
