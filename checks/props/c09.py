"""C09 — collectives equal the sequential fold at every communicator size.
Tie: the real comm::all_reduce_sum/min/max, tree comm::all_reduce, ygm::sum/min/max/prefix_sum/logical_and/
logical_or/bcast/is_same run under simmpi on every communicator size of the tier's box (1xR and NxP layouts);
every rank derives all ranks' inputs from the seed.  Each result is compared (a) with the sequential fold
recomputed here (direct oracle) and (b) with YgmVerif.Coll run by the Lean driver on the same inputs
(correspondence; for the tree with NON-commutative merges — string/vector append and a parenthesising merge —
the result must equal the model's treeReduce exactly, which pins parent/child arithmetic and merge order).
Additionally: asyncs are issued and a free-function reduction is called without a barrier; all handlers must
have run on every rank when it returns.  The mpi_typeof table and the per-collective sequence of MPI calls
(barrier first) are compared with the model's tables."""
import collections
import math
import struct
import zlib

from lib import common as C

META = {
    "claimed": True,
    "technique": "Lean 4 proof (reduction tree = fold for every size/input; serialised bcast; is_same; prefix_sum rank 0) + MPI-delegated "
                 "wrappers proved against the MPI-standard specification + differential run of all collectives on sizes 1..8 (1..17)",
    "text": "Theorems over YgmVerif.Coll: subtree_perm (the heap pre-order of the reduction tree is a permutation of the ranks), recv_matches_send "
            "(receives and sends of the tree pair up at every size), treeReduce_order / treeReduce_append_order (exact merge order for an associative "
            "merge), treeReduce_eq_fold / treeReduceL_eq_fold (associative-commutative merge => every rank gets the sequential fold, all n >= 1), "
            "bcastSer_spec / mpiBcastSer_spec (serialised bcast from every root), isSame_spec, prefix_wrapper_spec / prefix_wrapper_rank0, "
            "mpiTypeof_faithful, reductions_after_barrier, reductions_read_after_barrier.  Tied to the code by running every collective on the real headers under simmpi for "
            "every communicator size of the box, value types bool/(u)int8..64/double/string/vector<pair<string,int>>, every bcast root, with "
            "commutative and non-commutative merges, and diffing against the Lean definitions run natively.",
    "note": "PARTIAL BY NATURE: all_reduce_sum/min/max, sum/min/max/logical_and/logical_or, prefix_sum and POD bcast delegate to "
            "MPI_Allreduce/MPI_Exscan/MPI_Bcast; MPI is not verified — the model takes their MPI-standard specification as an assumption "
            "(mpiAllreduce/mpiExscan/mpiBcast; MPI_Exscan leaves rank 0's receive buffer untouched) and the theorems named *_wrapper_* only show "
            "that YGM's use of them (operator, datatype via mpi_typeof, `T to_return{0}`, barrier first) yields the fold.  The serialiser is a "
            "parameter (round trip = C06).  'Completes all outstanding asyncs' is proved only structurally (barrier precedes the reduction; "
            "quiescence is C02) and otherwise tested.  Size-boundary sweep (run_size_sweep, shared with C03): every serialised size 0..2200 bytes in "
            "1-byte steps plus sizes around 4 KiB / 64 KiB / 1 MiB through the tree all_reduce (string, vector<uint64_t>, vector<pair<string,int>>), "
            "comm::mpi_bcast / ygm::bcast of strings from three roots and an mpi_send/mpi_recv ping-pong on 2, 3, 5 ranks; a run that does not end "
            "`ok` is a failing input, results are compared with the model through length + CRC32.  WHICH value of an argument variable is folded when asyncs that update it are outstanding "
            "(Coll.inputRead, theorems reductions_read_after_barrier / by_value_reductions_read_at_call, run mode asyncval): sum/min/max/prefix_sum take "
            "`const T&` and hand it to MPI after barrier() => the FINAL values (all handlers applied) are folded; logical_and/logical_or take `bool` BY "
            "VALUE and is_same reads its argument before logical_and's barrier => for those three the property speaks only about the value held at the "
            "call, and the oracle folds the at-call values recorded by each rank (this mirrors the unchanged code exactly).  Floating point: besides integer-valued doubles (exact under any bracketing) float and double are "
            "run with rounding-sensitive inputs (1 / 1e16 / 0.1 mixes, large-after-small, values near FLT_MAX/DBL_MAX whose partial sums overflow, one "
            "infinity; no NaN, no -0.0 inputs) and compared bit for bit.  ASSUMED there: the MPI reduction/scan of IEEE values is the LEFT FOLD IN RANK "
            "ORDER with round-to-nearest IEEE arithmetic in the value's own format (what mpiAllreduce/mpiExscan state and simmpi does; the MPI standard "
            "leaves the bracketing of non-associative operators open, so on another MPI the float sum oracle would have to be relaxed; min/max and the "
            "exclusive-prefix *shape* do not depend on it).  Lean's Float/Float32 are opaque to the logic: no theorem is about IEEE arithmetic, the "
            "proved generic definitions (allReduceOp, prefixSum, treeReduceL) are only executed with the IEEE operator as the fold parameter; the tree's "
            "float sum is compared with the model's nesting, not with a fold.  The oracle's binary32 arithmetic is double arithmetic rounded to float "
            "(innocuous double rounding, 53 >= 2*24+2).  Signed sums are "
            "generated without overflow (UB in C++).  Trusted: Lean kernel + propext/Classical.choice/Quot.sound, simmpi's collectives, the "
            "hand-written model on the sizes run (quick 1..8, thorough 1..17).",
}

RULE = ("for every communicator size R in the tier's box (as 1xR, composite sizes also NxP) and every round, all ranks derive the input vector "
        "from (seed, round, R) and call each collective once per value type; a case = (layout, round, test); non-trivial = R >= 2; "
        "float and double additionally with 3 rounding-sensitive input vectors per round (mixed magnitudes, near-overflow, one infinity, random "
        "exponents, large-after-small) compared bit for bit; bcast from every root for int64/string/vector; is_same with all-equal / one-rank-differs / random inputs; async-completion: "
        "1..4 chains of 0..3 hops per rank, then one free function without a barrier; asyncval: the same chains with handlers that update a per-rank "
        "variable, the free function is called on that variable (buffer default / 0 / 1 KB), result compared with the fold of the final values "
        "(sum/min/max/prefix_sum) resp. of the values at the call (logical_and/logical_or/is_same)")

WIDTH = {"i8": (8, True), "i16": (16, True), "i32": (32, True), "i64": (64, True),
         "u8": (8, False), "u16": (16, False), "u32": (32, False), "u64": (64, False), "f64": (0, True), "bool": (1, False)}
MPI_DT = {"CHAR": ("char", 1), "CXX_BOOL": ("bool", 1), "INT8_T": ("sint", 1), "INT16_T": ("sint", 2), "INT32_T": ("sint", 4),
          "INT64_T": ("sint", 8), "UINT8_T": ("uint", 1), "UINT16_T": ("uint", 2), "UINT32_T": ("uint", 4), "UINT64_T": ("uint", 8),
          "FLOAT": ("float", 4), "DOUBLE": ("float", 8), "LONG_DOUBLE": ("float", 16)}


# ----------------------------------------------------------------------------- oracle (sequential fold, recomputed here)

def wrap(ty, v):
    w, signed = WIDTH[ty]
    if w == 0:
        return v
    if signed:
        return v            # generators keep signed sums in range; checked by in_range
    return v % (1 << w)


def in_range(ty, v):
    w, signed = WIDTH[ty]
    if w == 0:
        return abs(v) < (1 << 53)
    return (-(1 << (w - 1)) <= v < (1 << (w - 1))) if signed else (0 <= v < (1 << w))


def fold(op, ty, xs):
    acc = xs[0]
    for x in xs[1:]:
        if op == "SUM":
            acc = wrap(ty, acc + x)
        elif op == "MIN":
            acc = min(acc, x)
        elif op == "MAX":
            acc = max(acc, x)
        elif op == "LAND":
            acc = 1 if (acc and x) else 0
        elif op == "LOR":
            acc = 1 if (acc or x) else 0
    return acc


# ---- IEEE values travel as hex bit patterns; arithmetic is redone here in the same format
def f_dec(ty, tok):
    if tok == "nan":
        return math.nan
    return struct.unpack("<f", struct.pack("<I", int(tok, 16)))[0] if ty == "f32" else struct.unpack("<d", struct.pack("<Q", int(tok, 16)))[0]


def f_round(ty, x):
    """round a double to the format (binary32: the double sum of two floats rounded once more is the correctly rounded float sum, 53 >= 2*24+2)"""
    if ty == "f64" or x != x or math.isinf(x):
        return x
    try:
        return struct.unpack("<f", struct.pack("<f", x))[0]
    except OverflowError:
        return math.copysign(math.inf, x)


def f_enc(ty, x):
    if x != x:
        return "nan"
    return "%08x" % struct.unpack("<I", struct.pack("<f", x))[0] if ty == "f32" else "%016x" % struct.unpack("<Q", struct.pack("<d", x))[0]


def f_fold(op, ty, xs):
    acc = xs[0]
    for x in xs[1:]:
        acc = f_round(ty, acc + x) if op == "SUM" else ((x if x < acc else acc) if op == "MIN" else (x if acc < x else acc))
    return acc


F_FAMILY = {"fall_reduce_sum": "SUM", "fall_reduce_min": "MIN", "fall_reduce_max": "MAX", "fsum": "SUM", "fmin": "MIN", "fmax": "MAX",
            "ftree_SUM": "SUM", "ftree_MIN": "MIN", "ftree_MAX": "MAX"}

FAMILY_OP = {"all_reduce_sum": "SUM", "all_reduce_min": "MIN", "all_reduce_max": "MAX", "sum": "SUM", "min": "MIN", "max": "MAX",
             "tree_SUM": "SUM", "tree_MIN": "MIN", "tree_MAX": "MAX", "tree_LAND": "LAND", "tree_LOR": "LOR"}


def expected(test, ins):
    """per-rank expected tokens by the property's own statement, or None if the property only demands agreement
    (non-commutative merges); raises ValueError when the generated input is outside the property's domain"""
    n = len(ins)
    f = test.split(":")
    fam = f[0]
    if fam == "ftree_SUM":
        return None             # IEEE + is not associative: the property only demands agreement; the nesting is compared with the model
    if fam in F_FAMILY:
        # MPI-delegated IEEE sum: rank-order left fold (simmpi's order; MPI leaves the bracketing open); min/max are order-independent
        ty = f[1]
        return [f_enc(ty, f_fold(F_FAMILY[fam], ty, [f_dec(ty, x) for x in ins]))] * n
    if fam == "fprefix_sum":
        ty = f[1]
        xs = [f_dec(ty, x) for x in ins]
        out, acc = [], 0.0
        for r in range(n):
            out.append(f_enc(ty, acc))          # exclusive prefix, folded left to right in rank order; rank 0 gets +0.0
            acc = xs[r] if r == 0 else f_round(ty, acc + xs[r])
        return out
    if fam == "fbcast":
        return [ins[int(f[-1])]] * n
    if fam in FAMILY_OP:
        ty = f[1]
        xs = [int(x) for x in ins]
        v = fold(FAMILY_OP[fam], ty, xs)
        if not in_range(ty, v) or (FAMILY_OP[fam] == "SUM" and WIDTH[ty][1] and not all(in_range(ty, sum(xs[:k])) for k in range(1, n + 1))):
            raise ValueError("signed overflow in generated case")
        return [str(v)] * n
    if fam in ("logical_and", "logical_or"):
        xs = [int(x) for x in ins]
        return [str(fold("LAND" if fam == "logical_and" else "LOR", "bool", xs))] * n
    if fam == "prefix_sum":
        ty = f[1]
        xs = [int(x) for x in ins]
        out, acc = [], 0
        for r in range(n):
            out.append(str(acc))        # exclusive: rank 0 gets 0
            acc = wrap(ty, acc + xs[r])
        return out
    if fam in ("bcast", "bcast_str", "bcast_vec", "mpi_bcast"):
        root = int(f[-1])
        return [ins[root]] * n
    if fam == "sendrecv":
        return sendrecv_expected(ins, lambda s: s)
    if fam == "is_same":
        return ["1" if all(x == ins[0] for x in ins) else "0"] * n
    return None


def sendrecv_expected(ins, xfer):
    """ping-pong of the harness between ranks (2k, 2k+1): odd ranks print what they received, even ranks what came back"""
    n, out = len(ins), []
    for r in range(n):
        if r % 2 == 1:
            out.append(xfer(ins[r - 1]))
        elif r + 1 < n:
            out.append(xfer("_" + xfer(ins[r])[1:] + ins[r + 1][1:]))
        else:
            out.append(ins[r])
    return out


def model_line(test, ins):
    f = test.split(":")
    fam = f[0]
    v = " ".join(ins)
    if fam.startswith("ftree_"):
        return f"ftree {F_FAMILY[fam]} {f[1]} {v}"
    if fam in F_FAMILY:
        return f"fallreduce {F_FAMILY[fam]} {f[1]} {v}"
    if fam == "fprefix_sum":
        return f"fprefix {f[1]} {v}"
    if fam == "fbcast":
        return f"bcast {f[2]} {v}"
    if fam in ("all_reduce_sum", "all_reduce_min", "all_reduce_max", "sum", "min", "max"):
        return f"allreduce {FAMILY_OP[fam]} {f[1]} {v}"
    if fam in ("logical_and", "logical_or"):
        return f"allreduce {'LAND' if fam == 'logical_and' else 'LOR'} bool {v}"
    if fam.startswith("tree_") and fam in FAMILY_OP:
        return f"tree {FAMILY_OP[fam]} {f[1]} {v}"
    if fam == "tree_cat":
        return f"treecat {v}"
    if fam == "tree_paren":
        return f"treeparen {v}"
    if fam == "tree_vec":
        return f"treevec {v}"
    if fam == "prefix_sum":
        return f"prefix {f[1]} {v}"
    if fam == "bcast":
        return f"bcast {f[2]} {v}"
    if fam in ("bcast_str", "bcast_vec"):
        return f"bcastser {f[1]} {v}"
    if fam == "mpi_bcast":
        return f"mpibcastser {f[1]} {v}"
    if fam == "is_same":
        return f"issame {v}"
    return None


def pieces(test, token):
    """multiset of contributed items of a non-commutative merge result (every input must enter exactly once)"""
    s = token[1:]
    if test == "tree_vec":
        return sorted(x for x in s.split(",") if x)
    return sorted(c for c in s if c not in "(.)")


# ----------------------------------------------------------------------------- jobs

def layouts(tier):
    if tier == "quick":
        l = [(1, r) for r in range(1, 9)] + [(2, 2), (2, 3), (3, 2), (2, 4), (4, 2)]
    else:
        l = [(1, r) for r in range(1, 18)] + [(2, 2), (2, 3), (3, 2), (2, 4), (4, 2), (3, 3), (2, 5), (5, 2), (3, 4), (4, 3),
                                               (2, 7), (7, 2), (3, 5), (4, 4), (2, 8), (8, 2), (17, 1)]
    return l


ROUTINGS = ["NONE", "NR", "NLNR"]
POLICIES = ["uniform", "racer", "late", "burst", "starve"]


def make_jobs(tier, seed):
    jobs = []
    rounds = 8 if tier == "quick" else 30
    nseeds = 2 if tier == "quick" else 8
    for i, (N, P) in enumerate(layouts(tier)):
        for k in range(nseeds):
            env = {"YGM_COMM_ROUTING": ROUTINGS[(i + k + seed) % 3]}
            if N > 1 and k % 2 == 1:
                env["SIMMPI_PLACEMENT"] = "cyclic"      # round-robin placement: the collectives' communicator must keep the ygm rank numbering
            jobs.append({"mode": "vals", "nodes": N, "ppn": P, "seed": seed * 101 + k, "rounds": rounds, "nfn": 7,
                         "sim_seed": seed * 977 + i * 13 + k, "policy": POLICIES[(i + k) % len(POLICIES)], "env": env})
    arounds = 7 if tier == "quick" else 21
    for i, (N, P) in enumerate(layouts(tier)):
        for k, buf in enumerate(["default", "0", "1"] if tier == "thorough" else ["default", "0"]):
            env = {"YGM_COMM_ROUTING": ROUTINGS[(i + k + seed + 1) % 3]}
            if buf != "default":
                env["YGM_COMM_BUFFER_SIZE_KB"] = buf
            jobs.append({"mode": "async", "nodes": N, "ppn": P, "seed": seed * 131 + k, "rounds": arounds,
                         "nfn": 7 if buf == "default" else 6,
                         "sim_seed": seed * 811 + i * 7 + k, "policy": POLICIES[(i + k + 1) % len(POLICIES)], "env": env})
    for i, (N, P) in enumerate(layouts(tier)):
        for k, buf in enumerate(["default", "0", "1"]):
            for q in range(1 if tier == "quick" else 3):
                env = {"YGM_COMM_ROUTING": ROUTINGS[(i + k + q + seed + 2) % 3]}
                if buf != "default":
                    env["YGM_COMM_BUFFER_SIZE_KB"] = buf
                jobs.append({"mode": "asyncval", "nodes": N, "ppn": P, "seed": seed * 173 + k + 10 * q, "rounds": arounds,
                             "nfn": 7 if buf == "default" else 6,
                             "sim_seed": seed * 613 + i * 11 + k + 5 * q, "policy": POLICIES[(i + k + q + 2) % len(POLICIES)], "env": env})
    for (N, P) in ([(1, 1), (1, 2), (1, 5), (2, 3)] if tier == "quick" else [(1, 1), (1, 2), (1, 3), (1, 5), (2, 3), (1, 8), (3, 4), (1, 17)]):
        jobs.append({"mode": "prims", "nodes": N, "ppn": P, "seed": seed, "rounds": 1, "nfn": 7, "sim_seed": seed, "policy": "uniform",
                     "env": {"YGM_COMM_ROUTING": "NONE"}})
    jobs.append({"mode": "types", "nodes": 1, "ppn": 1, "seed": seed, "rounds": 1, "nfn": 7, "sim_seed": 1, "policy": "uniform", "env": {}})
    return jobs


def run_job(binary, job):
    args = [job["mode"]]
    if job["mode"] in ("vals", "async", "asyncval"):
        args += [job["seed"], job["rounds"]]
    if job["mode"] in ("async", "asyncval"):
        args += [job["nfn"]]
    return C.run_sim(binary, args, nodes=job["nodes"], ppn=job["ppn"], env=job["env"], sim_seed=job["sim_seed"],
                     policy=job["policy"], want_log=(job["mode"] == "prims"), timeout=600)


def job_id(job):
    return {k: job[k] for k in ("mode", "nodes", "ppn", "seed", "rounds", "nfn", "sim_seed", "policy", "env")}


# ----------------------------------------------------------------------------- evaluation of one run

def parse_vals(sr, R):
    """-> tests: {(round, test): {"in": [...], "res": {rank: token}}} in program order"""
    tests = {}
    order = []
    for rank in range(R):
        for l in sr.outs.get(rank, []):
            w = l.split(" ")
            if w[0] == "r" and len(w) >= 4:
                key = (int(w[1]), w[2])
                if key not in tests:
                    tests[key] = {"in": None, "res": {}}
                    order.append(key)
                tests[key]["res"][rank] = w[3]
            elif w[0] == "i":
                key = (int(w[1]), w[2])
                if key not in tests:
                    tests[key] = {"in": None, "res": {}}
                    order.append(key)
                tests[key]["in"] = w[3:]
    return tests, order


def eval_vals(job, sr, res, use_model=True, only=None):
    """oracle + correspondence of one `vals` run; returns number of evaluated tests"""
    R = job["nodes"] * job["ppn"]
    base = job_id(job)
    tests, order = parse_vals(sr, R)
    if sr.verdict != "ok":
        last = order[-1] if order else None
        res.oracle_failures.append({"what": f"collective did not return on every rank: {sr.verdict} (last test reached: {last})",
                                    "signature": f"coll-vals-run {sr.verdict} {sr.blocked}"[:200],
                                    "case": dict(base, verdict=sr.verdict, blocked=sr.blocked, last_test=last, stderr=sr.stderr[-400:])})
    keys = [k for k in order if tests[k]["in"] is not None and (only is None or k == tuple(only))]
    mlines = [model_line(k[1], tests[k]["in"]) for k in keys]
    if use_model and keys:
        mout = C.model("coll", [l or "typeof" for l in mlines])
        sr_keys = [i for i, k in enumerate(keys) if k[1] == "sendrecv"]
        if sr_keys:                     # composed from the model's point-to-point transfer `xfer` (two batched passes)
            memo = {}

            def batch(toks):
                toks = sorted(set(t for t in toks if t not in memo))
                if toks:
                    for t, o in zip(toks, C.model("coll", ["xfer " + t for t in toks])):
                        memo[t] = o
            batch([t for i in sr_keys for t in tests[keys[i]]["in"]])
            second = []
            for i in sr_keys:
                ins_i = tests[keys[i]]["in"]
                second += ["_" + memo[ins_i[r]][1:] + ins_i[r + 1][1:] for r in range(0, len(ins_i) - 1, 2)]
            batch(second)
            for i in sr_keys:
                mout[i] = " ".join(sendrecv_expected(tests[keys[i]]["in"], lambda t: memo[t]))
                mlines[i] = "xfer"
    else:
        mout = [None] * len(keys)
    done = 0
    for key, mo in zip(keys, mout):
        rnd, test = key
        t = tests[key]
        ins = t["in"]
        if len(ins) != R:
            res.corr_failures.append({"relation": "harness prints one input per rank", "what": f"{test}: {len(ins)} inputs for {R} ranks", "case": base})
            continue
        real = [t["res"].get(r) for r in range(R)]
        if any(x is None for x in real):
            continue            # run failed before every rank printed; reported above
        done += 1
        case = dict(base, round=rnd, test=test, inputs=ins, real=real)
        fam = test.split(":")[0]
        # ---- direct oracle
        try:
            exp = expected(test, ins)
        except ValueError as ex:
            res.notes.append(f"generator produced an out-of-domain case ({ex}) for {test} R={R}; skipped")
            continue
        if exp is not None:
            if real != exp:
                bad = [r for r in range(R) if real[r] != exp[r]]
                res.oracle_failures.append({"what": f"{test} on {R} ranks: ranks {bad[:6]} returned {real[bad[0]]}, sequential fold gives {exp[bad[0]]}",
                                            "signature": f"coll-value {fam} R={R}", "case": dict(case, expected=exp)})
        else:
            if len(set(real)) != 1:
                res.oracle_failures.append({"what": f"{test} on {R} ranks: ranks disagree", "signature": f"coll-disagree {fam} R={R}", "case": case})
            elif fam != "ftree_SUM" and pieces(test, real[0]) != sorted(sum((pieces(test, x) for x in ins), [])):
                res.oracle_failures.append({"what": f"{test} on {R} ranks: result does not contain every rank's input exactly once",
                                            "signature": f"coll-contrib {fam} R={R}", "case": case})
        # ---- correspondence
        if mo is not None:
            mtok = mo.split(" ") if mo != "" else []
            if mtok != real:
                res.corr_failures.append({"relation": f"YgmVerif.Coll ({mlines[keys.index(key)].split(' ')[0]}) == real {fam}",
                                          "what": f"{test} on {R} ranks: model {mtok[:3]} real {real[:3]}", "case": dict(case, model=mtok)})
        if R >= 2:
            res.distinct.add((job["nodes"], job["ppn"], job["seed"], rnd, test))
        res.count(fam)
    res.count(f"vals-run R={R}")
    return done


ASYNC_RES = {"sum": lambda R, r: R * (R + 1) // 2, "min": lambda R, r: 1, "max": lambda R, r: R, "prefix_sum": lambda R, r: r * (r + 1) // 2,
             "logical_and": lambda R, r: 1, "logical_or": lambda R, r: 1 if R > 1 else 0, "is_same": lambda R, r: 1}


def eval_async(job, sr, res, use_model=True):
    R = job["nodes"] * job["ppn"]
    base = job_id(job)
    if sr.verdict != "ok":
        res.oracle_failures.append({"what": f"free-function reduction after asyncs did not return: {sr.verdict}",
                                    "signature": f"coll-async-run {sr.verdict} {sr.blocked}"[:200],
                                    "case": dict(base, verdict=sr.verdict, blocked=sr.blocked, stderr=sr.stderr[-400:])})
    done = 0
    for rank in range(R):
        for l in sr.outs.get(rank, []):
            w = l.split(" ")
            if w[0] != "a":
                continue
            rnd, fn, seen, exp, val = int(w[1]), w[2], int(w[3]), int(w[4]), int(w[5])
            done += 1
            if seen != exp:
                res.oracle_failures.append({"what": f"ygm::{fn} returned on rank {rank} of {R} with {seen} of {exp} async handlers executed",
                                            "signature": f"free-reduction-before-asyncs-complete {fn}",
                                            "case": dict(base, round=rnd, rank=rank, fn=fn, seen=seen, expected=exp)})
            if val != ASYNC_RES[fn](R, rank):
                res.oracle_failures.append({"what": f"ygm::{fn} after asyncs returned {val} on rank {rank} of {R}",
                                            "signature": f"coll-value {fn} R={R}", "case": dict(base, round=rnd, rank=rank, fn=fn, value=val)})
            if R >= 2 and rank == 0:
                res.distinct.add(("async", job["nodes"], job["ppn"], job["seed"], job["env"].get("YGM_COMM_BUFFER_SIZE_KB", "default"), rnd, fn))
            res.count("async-" + fn)
    return done


BY_REF_AFTER_BARRIER = ("sum", "min", "max", "prefix_sum")      # const T& handed to MPI after c.barrier(): fold of the FINAL values
# logical_and / logical_or take bool BY VALUE, is_same reads its argument before logical_and's barrier: fold of the values AT THE CALL


def free_fold(fn, xs):
    n = len(xs)
    if fn == "sum":
        return [sum(xs)] * n
    if fn == "min":
        return [min(xs)] * n
    if fn == "max":
        return [max(xs)] * n
    if fn == "prefix_sum":
        return [sum(xs[:r]) for r in range(n)]
    if fn == "logical_and":
        return [1 if all(xs) else 0] * n
    if fn == "logical_or":
        return [1 if any(xs) else 0] * n
    return [1 if all(x == xs[0] for x in xs) else 0] * n       # is_same


def eval_asyncval(job, sr, res, use_model=True):
    R = job["nodes"] * job["ppn"]
    base = job_id(job)
    if sr.verdict != "ok":
        res.oracle_failures.append({"what": f"free-function reduction over an async-updated variable did not return: {sr.verdict}",
                                    "signature": f"coll-asyncval-run {sr.verdict} {sr.blocked}"[:200],
                                    "case": dict(base, verdict=sr.verdict, blocked=sr.blocked, stderr=sr.stderr[-400:])})
    rows = {}
    for rank in range(R):
        for l in sr.outs.get(rank, []):
            w = l.split(" ")
            if w[0] == "v":
                rows.setdefault((int(w[1]), w[2]), {})[rank] = [int(x) for x in w[3:8]]
    keys = [k for k in sorted(rows) if len(rows[k]) == R]
    mlines = []
    for (rnd, fn) in keys:
        t = rows[(rnd, fn)]
        boolfn = fn in ("logical_and", "logical_or")
        at = [t[r][1] if boolfn else t[r][0] for r in range(R)]
        fin = [t[r][1] if boolfn else t[r][4] for r in range(R)]
        mlines.append(f"freered {fn} {' '.join(map(str, at))} | {' '.join(map(str, fin))}")
    mout = C.model("coll", mlines) if (use_model and mlines) else [None] * len(keys)
    done = 0
    for (rnd, fn), mo in zip(keys, mout):
        t = rows[(rnd, fn)]
        done += 1
        at = [t[r][0] for r in range(R)]
        atf = [t[r][1] for r in range(R)]
        real = [t[r][2] for r in range(R)]
        after = [t[r][3] for r in range(R)]
        fin = [t[r][4] for r in range(R)]
        case = dict(base, round=rnd, fn=fn, var_at_call=at, flag_at_call=atf, result=real, var_after_return=after, var_final_expected=fin)
        if after != fin:
            bad = [r for r in range(R) if after[r] != fin[r]]
            res.oracle_failures.append({"what": f"ygm::{fn} returned on ranks {bad[:6]} of {R} before all async updates of the variable were applied",
                                        "signature": f"free-reduction-before-asyncs-complete {fn}", "case": case})
        if fn in BY_REF_AFTER_BARRIER:
            exp, other = free_fold(fn, fin), free_fold(fn, at)
        elif fn in ("logical_and", "logical_or"):
            exp, other = free_fold(fn, atf), None
        else:
            exp, other = free_fold(fn, at), None
        if real != exp:
            if other is not None and real == other and at != fin:
                res.oracle_failures.append({"what": f"ygm::{fn}(variable) on {R} ranks returned {real[:4]}…: the fold of the values the variables held AT THE CALL; "
                                                    f"the fold of the final values (all outstanding asyncs applied) is {exp[:4]}…",
                                            "signature": f"free-reduction-read-input-before-barrier {fn}", "case": dict(case, expected=exp)})
            else:
                res.oracle_failures.append({"what": f"ygm::{fn}(variable) on {R} ranks returned {real[:4]}…, expected {exp[:4]}…",
                                            "signature": f"coll-value {fn} R={R}", "case": dict(case, expected=exp)})
        if mo is not None and mo.split(" ") != [str(x) for x in real]:
            res.corr_failures.append({"relation": "Coll.contributed / inputRead: which value of the argument variable enters the fold",
                                      "what": f"{fn} on {R} ranks: model {mo.split(' ')[:4]} real {real[:4]}", "case": dict(case, model=mo.split(" "))})
        if R >= 2:
            res.distinct.add(("asyncval", job["nodes"], job["ppn"], job["seed"], job["env"].get("YGM_COMM_BUFFER_SIZE_KB", "default"), rnd, fn))
        res.count("asyncval-" + fn + ("-moved" if at != fin else "-still"))
        if at != fin and fn in BY_REF_AFTER_BARRIER and free_fold(fn, at) != free_fold(fn, fin):
            res.count("asyncval-discriminating")
    return done


KIND = {"1": "mpi_barrier", "2": "allreduce", "4": "exscan", "5": "bcast"}


def eval_prims(job, sr, res, use_model=True):
    R = job["nodes"] * job["ppn"]
    base = job_id(job)
    if sr.verdict != "ok":
        res.oracle_failures.append({"what": f"collectives did not return: {sr.verdict}", "signature": f"coll-prims-run {sr.verdict} {sr.blocked}"[:200],
                                    "case": dict(base, verdict=sr.verdict, blocked=sr.blocked)})
        return 0
    cur = {}
    cfb = []       # (cfb+ / cfb-, k, rank) in global log order
    seqs = []      # (rank, name, [tokens])
    for line in sr.log:
        sp = line.split(" ")
        if len(sp) < 3:
            continue
        kind = sp[1]
        d = C.kv(" ".join(sp[2:]))
        if "r" not in d:
            continue
        r = int(d["r"])
        if kind == "h":
            if sp[3] in ("cfb+", "cfb-"):
                cfb.append((sp[3], int(sp[4]), r))
                continue
            if sp[3] == "enter":
                cur[r] = (sp[4], [])
            elif sp[3] == "exit" and r in cur:
                seqs.append((r, cur[r][0], cur[r][1]))
                del cur[r]
            continue
        if r not in cur:
            continue
        tok = None
        if kind == "iallreduce":
            tok = "barrier"
        elif kind == "coll":
            tok = KIND.get(d.get("kind"), "coll" + d.get("kind", "?"))
            if d.get("kind") == "1":
                tok = None      # MPI_Barrier (cf_barrier) carries no data: extra / missing ones cannot change a result (the
                                # quiescence that matters is the count-based barrier() = the iallreduce rounds, token "barrier")
        elif kind in ("isend", "irecv"):
            tok = "treegather"
        if tok and (not cur[r][1] or cur[r][1][-1] != tok):
            cur[r][1].append(tok)
    # cf_barrier is a barrier: in the global order of the run no rank leaves barrier k before every rank has entered it
    entered = collections.defaultdict(set)
    for (what, k, r) in cfb:
        if what == "cfb+":
            entered[k].add(r)
        elif len(entered[k]) < R:
            res.oracle_failures.append({"what": f"cf_barrier #{k}: rank {r} of {R} left while only ranks {sorted(entered[k])} had entered",
                                        "signature": "cf-barrier-left-early", "case": dict(base, barrier=k, rank=r, entered=sorted(entered[k]))})
            break
    res.count("cf_barrier exits judged", sum(1 for c in cfb if c[0] == "cfb-"))
    names = sorted(set(n for _, n, _ in seqs))
    mp = {}
    if use_model:
        for n, o in zip(names, C.model("coll", [f"prims {n}" for n in names])):
            mp[n] = [t.split(":")[0] for t in o.split(" ")]
    done = 0
    for (r, name, toks) in seqs:
        done += 1
        if not use_model:
            continue
        want = [t for t in mp[name] if not (R == 1 and t == "treegather")]
        if toks != want:
            res.corr_failures.append({"relation": "Coll.prims == sequence of MPI calls of the real collective",
                                      "what": f"{name} on rank {r} of {R}: real {toks} model {want}", "case": dict(base, collective=name, rank=r, real=toks, model=want)})
        res.count("prims-" + name)
    return done


def eval_types(job, sr, res, use_model=True):
    base = job_id(job)
    real = {}
    for l in sr.outs.get(0, []):
        w = l.split(" ")
        if w[0] == "type":
            real[w[1]] = (int(w[2]), w[3], w[4])
    if sr.verdict != "ok" or len(real) < 14:
        res.corr_failures.append({"relation": "types harness runs", "what": sr.verdict + " " + sr.stderr[-200:], "case": base})
        return 0
    model = {}
    if use_model:
        for t in C.model("coll", ["typeof"])[0].split(" "):
            f = t.split(":")
            model[f[0]] = (f[1], f[2], int(f[3]))
    for name, (size, kind, dt) in real.items():
        res.count("typeof")
        mk, mb = MPI_DT.get(dt, ("?", -1))
        if name == "size_t":
            if (mk, mb) != ("uint", size):
                res.corr_failures.append({"relation": "mpi_typeof(size_t) is an unsigned type of sizeof(size_t)", "what": f"{dt}", "case": base})
            continue
        # the MPI datatype must describe the C++ type (else MPI reduces garbage): kind and width per the MPI standard
        if (mk, mb) != (kind, size):
            res.corr_failures.append({"relation": "mpi_typeof<T> names an MPI datatype of T's kind and width (mpiTypeof_faithful)",
                                      "what": f"{name}: sizeof={size} kind={kind} but mpi_typeof gives MPI_{dt} ({mk},{mb})", "case": dict(base, type=name, dt=dt)})
        if use_model and model.get(name, (None,))[0] != dt:
            res.corr_failures.append({"relation": "Coll.mpiTypeof == ygm::detail::mpi_typeof", "what": f"{name}: real MPI_{dt} model {model.get(name)}",
                                      "case": dict(base, type=name, dt=dt)})
        if use_model and name in model and (model[name][1], model[name][2]) != (kind, size):
            res.corr_failures.append({"relation": "Coll.CTy.kind/bytes == compiler's type traits", "what": f"{name}: real {kind},{size} model {model[name]}", "case": base})
    return len(real)


def evaluate(job, sr, res, use_model):
    m = job["mode"]
    if m == "vals":
        return eval_vals(job, sr, res, use_model)
    if m == "async":
        return eval_async(job, sr, res, use_model)
    if m == "asyncval":
        return eval_asyncval(job, sr, res, use_model)
    if m == "prims":
        return eval_prims(job, sr, res, use_model)
    return eval_types(job, sr, res, use_model)


# ----------------------------------------------------------------------------- size-boundary sweep (also called by C03)

SWEEP_KINDS = ["all_reduce_str", "all_reduce_vec64", "all_reduce_vecpair", "mpi_bcast_str", "bcast_str", "sendrecv_str"]
_PAT = {}


def sweep_str(r, L):
    """input string of rank r for size parameter L (same formula as harness/coll.cpp)"""
    off = (r * 7 + L) % 26
    if off not in _PAT:
        _PAT[off] = "".join(chr(97 + (j * 3 + off) % 26) for j in range(26))
    return (_PAT[off] * (L // 26 + 1))[:L]


def sweep_token(kind, r, L):
    if kind == "all_reduce_vec64":
        return "_" + ",".join(str(r * 1000003 + j * 17 + L) for j in range(L))
    if kind == "all_reduce_vecpair":
        return "_" + sweep_str(r, L) + ":" + str(r - 2)
    return "_" + sweep_str(r, L)


def sweep_ser_bytes(kind, L):
    """cereal size of one rank's input (what a leaf->parent edge / the bcast carries)"""
    return 8 + 8 * L if kind == "all_reduce_vec64" else (20 + L if kind == "all_reduce_vecpair" else 8 + L)


def sweep_sizes(kind, tier):
    if kind == "all_reduce_vec64":
        base = list(range(0, 281))
        for S in (4096, 65536, 1 << 20):
            base += [(S - 8) // 8 + d for d in (-1, 0, 1)]
        return base
    hdr = 20 if kind == "all_reduce_vecpair" else 8
    base = list(range(0, 2201))
    for S in (4096, 65536, 1 << 20):
        base += [S - hdr + d for d in (-2, -1, 0, 1, 2)]
    return base


def spec_of(sizes):
    out, i = [], 0
    while i < len(sizes):
        j = i
        while j + 1 < len(sizes) and sizes[j + 1] == sizes[j] + 1:
            j += 1
        out.append(str(sizes[i]) if i == j else f"{sizes[i]}-{sizes[j]}")
        i = j + 1
    return ",".join(out)


def sweep_roots(kind, R):
    if kind not in ("mpi_bcast_str", "bcast_str"):
        return [-1]
    return [0] + ([R - 1] if R > 1 else []) + ([R // 2] if R > 2 else [])


def run_size_sweep(res, tier, seed, model_ok=True):
    """Every serialised size 0..~2200 bytes (1-byte steps) and a few around 4 KiB / 64 KiB / 1 MiB through the serialised
    collectives (tree all_reduce with a merge functor on string / vector<uint64_t> / vector<pair<string,int>>, comm::mpi_bcast and
    ygm::bcast of strings from several roots, mpi_send/mpi_recv ping-pong) on 2, 3 and 5 ranks; one process run per (ranks, collective).
    A non-ok verdict is a failing input (the collective did not return); results are compared with YgmVerif.Coll through their CRC.
    Needs only the `coll` harness; failures are appended to `res`."""
    binary, err = C.build_harness("coll")
    if binary is None:
        res.corr_failures.append({"relation": "harness builds against /repo", "what": err[-800:], "case": None})
        return 0
    layouts_ = [(1, 2), (1, 3), (1, 5)] if tier == "quick" else [(1, 2), (1, 3), (1, 5), (2, 2), (1, 7), (2, 4)]
    jobs = []
    for i, (N, P) in enumerate(layouts_):
        for k, kind in enumerate(SWEEP_KINDS):
            jobs.append({"mode": "sweep", "kind": kind, "nodes": N, "ppn": P, "sim_seed": seed * 389 + i * 17 + k,
                         "policy": POLICIES[(i + k + seed) % len(POLICIES)], "env": {"YGM_COMM_ROUTING": ROUTINGS[(i + seed) % 3]}})

    def do(job):
        R = job["nodes"] * job["ppn"]
        kind = job["kind"]
        todo = sweep_sizes(kind, tier)
        roots = sweep_roots(kind, R)
        got = {}            # (L, root) -> {rank: (crc, len)}
        fails = []
        for attempt in range(4):
            if not todo:
                break
            sr = C.run_sim(binary, ["sweep", kind, spec_of(todo)], nodes=job["nodes"], ppn=job["ppn"], env=job["env"], sim_seed=job["sim_seed"],
                           policy=job["policy"], want_log=False, timeout=900, max_steps=20000000)
            for rank in range(R):
                for l in sr.outs.get(rank, []):
                    w = l.split(" ")
                    if w[0] == "s":
                        got.setdefault((int(w[1]), int(w[2])), {})[rank] = (int(w[3]), int(w[4]))
            if sr.verdict == "ok":
                break
            bad = next((L for L in todo if any(len(got.get((L, rt), {})) < R for rt in roots)), None)
            fails.append((bad, sr.verdict, sr.blocked, sr.stderr[-300:]))
            if bad is None:
                break
            todo = todo[todo.index(bad) + 1:]       # go on behind the size that hung
        keys = [k for k in got if len(got[k]) == R]
        keys.sort()
        model = {}
        merr = None
        if model_ok and keys:
            try:
                if kind == "sendrecv_str":
                    memo = {}

                    def batch(toks):
                        toks = sorted(set(t for t in toks if t not in memo))
                        for t, o in zip(toks, C.model("coll", ["xfer " + t for t in toks]) if toks else []):
                            memo[t] = o
                    ins = {L: [sweep_token(kind, r, L) for r in range(R)] for (L, _) in keys}
                    batch([t for v in ins.values() for t in v])
                    batch(["_" + memo[v[r]][1:] + v[r + 1][1:] for v in ins.values() for r in range(0, R - 1, 2)])
                    for (L, rt) in keys:
                        model[(L, rt)] = sendrecv_expected(ins[L], lambda t: memo[t])
                else:
                    cmd = {"all_reduce_str": "treecat", "all_reduce_vec64": "treevec", "all_reduce_vecpair": "treevec"}
                    lines = []
                    for (L, rt) in keys:
                        toks = " ".join(sweep_token(kind, r, L) for r in range(R))
                        lines.append(f"{cmd[kind]} {toks}" if kind in cmd else f"{'mpibcastser' if kind == 'mpi_bcast_str' else 'bcastser'} {rt} {toks}")
                    for key, o in zip(keys, C.model("coll", lines, timeout=1800)):
                        model[key] = o.split(" ")
            except Exception as ex:     # noqa: BLE001
                merr = repr(ex)[:300]
        return job, got, keys, fails, model, merr

    total = 0
    for job, got, keys, fails, model, merr in C.pmap(do, jobs):
        R = job["nodes"] * job["ppn"]
        kind = job["kind"]
        base = {k: job[k] for k in ("mode", "kind", "nodes", "ppn", "sim_seed", "policy", "env")}
        for (bad, verdict, blocked, stderr) in fails:
            word = verdict.split(" ")[0].rstrip(":")
            ser = sweep_ser_bytes(kind, bad) if bad is not None else None
            res.oracle_failures.append({"what": f"{kind} on {R} ranks did not return ({verdict}) for size parameter L={bad} "
                                                f"(one rank's value serialises to {ser} bytes)",
                                        "signature": f"coll-size-sweep {word} {kind} L={bad} ser={ser}",
                                        "case": dict(base, L=bad, serialised_bytes=ser, verdict=verdict, blocked=blocked, stderr=stderr)})
        if merr:
            res.corr_failures.append({"relation": "model driver answers the size sweep", "what": merr, "case": base})
        for key in keys:
            L, rt = key
            total += 1
            real = [got[key][r] for r in range(R)]
            case = dict(base, L=L, root=rt, serialised_bytes=sweep_ser_bytes(kind, L), real_crc_len=real)
            # ---- oracle: bcast delivers the root's value; the (non-commutative) tree merges must at least agree and keep every byte
            if rt >= 0 or kind == "sendrecv_str":
                if kind == "sendrecv_str":
                    exp = sendrecv_expected([sweep_token(kind, r, L) for r in range(R)], lambda t: t)
                else:
                    exp = [sweep_token(kind, rt, L)] * R
                expc = [(zlib.crc32(t.encode()), len(t)) for t in exp]
                if real != expc:
                    res.oracle_failures.append({"what": f"{kind} on {R} ranks, L={L}, root {rt}: a rank did not receive the transferred value",
                                                "signature": f"coll-size-sweep value {kind} L={L}", "case": dict(case, expected_crc_len=expc)})
            else:
                want_len = 1 + sum(len(sweep_token(kind, r, L)) - 1 for r in range(R)) + ((R - 1) if kind != "all_reduce_str" and (L > 0 or kind == "all_reduce_vecpair") else 0)
                if len(set(real)) != 1 or real[0][1] != want_len:
                    res.oracle_failures.append({"what": f"{kind} on {R} ranks, L={L}: ranks disagree or the result lost/duplicated input bytes "
                                                        f"(length {real[0][1]}, inputs give {want_len})",
                                                "signature": f"coll-size-sweep value {kind} L={L}", "case": dict(case, expected_len=want_len)})
            # ---- correspondence
            if key in model:
                mc = [(zlib.crc32(t.encode()), len(t)) for t in model[key]]
                if mc != real:
                    res.corr_failures.append({"relation": f"YgmVerif.Coll == real {kind} (size sweep, CRC of the result)",
                                              "what": f"{kind} on {R} ranks L={L} root {rt}: model {mc[:2]} real {real[:2]}", "case": dict(case, model_crc_len=mc)})
            res.distinct.add(("sweep", kind, R, L, rt))
        res.count(f"sweep-{kind}", len(keys))
    res.evaluations += total
    res.traces_validated += total if model_ok else 0
    return total


# ----------------------------------------------------------------------------- entry points

def run(tier, seed, model_ok=True):
    res = C.Result()
    res.rule = RULE
    res.assumptions = ["MPI_Allreduce / MPI_Exscan / MPI_Bcast behave as the MPI standard specifies (here: as simmpi implements them); "
                       "MPI_Exscan leaves rank 0's receive buffer untouched",
                       "cereal round trip of the transferred values (property C06)",
                       "communicator sizes beyond the tier's box are covered by the theorems only",
                       "signed integer sums are generated without overflow",
                       "IEEE float/double sums and exclusive prefixes: MPI reduces as a left fold in rank order in the value's own format "
                       "(true of simmpi; the MPI standard leaves the bracketing open)"]
    binary, err = C.build_harness("coll")
    if binary is None:
        res.corr_failures.append({"relation": "harness builds against /repo", "what": err[-800:], "case": None})
        return res
    if not model_ok:
        res.corr_failures.append({"relation": "model driver available", "what": "Lean library does not build", "case": None})
    jobs = make_jobs(tier, seed)
    # largest first so the pool drains evenly
    jobs.sort(key=lambda j: -(j["nodes"] * j["ppn"] * j["rounds"] * (40 if j["mode"] == "vals" else 1)))
    runs = C.pmap(lambda j: (j, run_job(binary, j)), jobs)
    sampled = False
    for job, sr in runs:
        n = evaluate(job, sr, res, model_ok)
        res.evaluations += n
        res.traces_validated += n if model_ok else 0
        if job["mode"] == "vals" and not sampled and job["nodes"] * job["ppn"] == 5:
            tests, order = parse_vals(sr, 5)
            for k in order:
                if k[1] in ("tree_paren", "prefix_sum:u8", "fprefix_sum:f64", "tree_SUM:i16") and tests[k]["in"]:
                    res.sample({"layout": [job["nodes"], job["ppn"]], "round": k[0], "test": k[1], "inputs": tests[k]["in"],
                                "real_per_rank": [tests[k]["res"].get(r) for r in range(5)]})
            sampled = True
    run_size_sweep(res, tier, seed, model_ok)
    # ---- a disagreement with the model that no oracle confirmed: search around it for a failing input
    if res.corr_failures and not res.oracle_failures:
        extra = []
        seen = set()
        for f in res.corr_failures:
            c = f.get("case") or {}
            if c.get("mode") in ("vals", "prims", "types", "asyncval") and (c.get("nodes"), c.get("ppn")) not in seen and len(seen) < 4:
                seen.add((c.get("nodes"), c.get("ppn")))
                N, P = (c["nodes"], c["ppn"]) if c.get("mode") in ("vals", "asyncval") else (1, 5)
                for k in range(3):
                    extra.append({"mode": "vals", "nodes": N, "ppn": P, "seed": seed * 7001 + 17 * k + 3, "rounds": 6, "nfn": 7,
                                  "sim_seed": seed + 100 + k, "policy": POLICIES[k], "env": {"YGM_COMM_ROUTING": "NONE"}})
                    extra.append({"mode": "async", "nodes": N, "ppn": P, "seed": seed * 7001 + 17 * k + 5, "rounds": 14, "nfn": 7,
                                  "sim_seed": seed + 200 + k, "policy": POLICIES[k], "env": {"YGM_COMM_ROUTING": "NONE"}})
                    extra.append({"mode": "asyncval", "nodes": N, "ppn": P, "seed": seed * 7001 + 17 * k + 7, "rounds": 14, "nfn": 7,
                                  "sim_seed": seed + 300 + k, "policy": POLICIES[k], "env": {"YGM_COMM_ROUTING": "NONE"}})
        tmp = C.Result()
        for job, sr in C.pmap(lambda j: (j, run_job(binary, j)), extra):
            res.evaluations += evaluate(job, sr, tmp, False)
        res.oracle_failures += tmp.oracle_failures
        res.notes.append(f"search around {len(seen)} disagreeing layouts: {len(extra)} extra runs, {len(tmp.oracle_failures)} failing inputs found")
    return res


def replay(data):
    """re-run the recorded job; True when the failure does NOT reproduce"""
    case = data.get("case") or {}
    if not case and data.get("no_longer_checks"):
        for b in data["no_longer_checks"]:
            if b.get("case"):
                case = b["case"]
                break
    if "mode" not in case:
        print("replay: nothing executable recorded:", data.get("no_longer_checks"))
        return False
    binary, err = C.build_harness("coll")
    if binary is None:
        print(err[-500:])
        return False
    if case["mode"] == "sweep":         # one size of the size-boundary sweep
        R = case["nodes"] * case["ppn"]
        sr = C.run_sim(binary, ["sweep", case["kind"], str(case["L"])], nodes=case["nodes"], ppn=case["ppn"], env=case.get("env"),
                       sim_seed=case.get("sim_seed", 1), policy=case.get("policy", "uniform"), want_log=False, timeout=600)
        print("verdict", sr.verdict, sr.blocked)
        rows = {r: [l for l in sr.outs.get(r, []) if l.startswith("s ")] for r in range(R)}
        for r in range(R):
            print(r, rows[r][:3])
        same = "real_crc_len" not in case or all(
            [int(x) for x in rows[r][sweep_roots(case["kind"], R).index(case.get("root", -1))].split(" ")[3:5]] == list(case["real_crc_len"][r])
            for r in range(R) if rows[r])
        return sr.verdict == "ok" and not ("real_crc_len" in case and same)
    job = job_id(case)
    sr = run_job(binary, job)
    res = C.Result()
    evaluate(job, sr, res, True)
    print("verdict", sr.verdict, sr.blocked)
    want = case.get("test") or case.get("fn")
    hits = [f for f in res.oracle_failures + res.corr_failures
            if want is None or ((f.get("case") or {}).get("test") or (f.get("case") or {}).get("fn")) in (None, want)]
    for f in hits[:5]:
        print(f.get("signature") or f.get("relation"), "|", f["what"])
    return not hits
