"""C03 — every library call returns: no deadlock, livelock or abort on legal programs (partial).
Oracle: simmpi's detectors (rank abort / uncaught exception, deadlock = no enabled action, livelock = no progress
event for K decisions, step budget) over seeded scenarios and every environment configuration;
theorems: YgmVerif.Flush (flush loop post-condition, wait-for progress)."""
from lib import common as C
from lib import traffic as T
from lib import campaign as K

META = {
    "claimed": True,
    "technique": "Lean 4 proofs about the flush loop, deadlock freedom and termination (explicit variants) of the message-movement, barrier and product models + deterministic schedule exploration of the real code under simmpi with deadlock, livelock and abort detectors",
    "text": "PARTIAL. Proved: flushAll_post (when flush_all_local_and_process_incoming returns, destination queue, send queue and callback list are empty, so the "
            "release assertions of barrier/~comm cannot fire, provided a poll reports true whenever it received something), its negation for the pinned return value (pinned_flushAll_counterexample), "
            "C03_no_return_after_receive; LIVENESS of the loop's own logic: C03_flushAll_terminates (once polls stop receiving and posted sends complete, "
            "and callbacks register nothing new, the loop returns within (1+4U+Q)*cbs + 4*unsent + posted + 10 steps, by an explicit variant), with the converses "
            "C03_spins_while_send_never_completes / C03_spins_if_never_quiet / C03_spins_if_callback_reregisters showing each hypothesis is needed. DEADLOCK FREEDOM AND TERMINATION OF THE PROTOCOL LOGIC on the executable models real histories are replayed through: "
            "C01_never_stuck / C01_every_drain_settles (message movement: an enabled step exists until everything issued has executed, every async-free continuation is bounded, NONE/NR/NLNR under every placement), "
            "C02ME_never_stuck / C02ME_waiting_rank_is_served / C02ME_rounds_after_quiescence / C02ME_exit_bounded / C02ME_all_exit (after quiescence every rank leaves the barrier within two further rounds, <= n(2K+6) steps), "
            "C01_history_bounded (every history has at most (6H+7) x #asyncs steps: finitely many messages => finitely many movement steps; 25 x #asyncs for the real router), C03_wait_until_served (local_wait_until: a message a peer issued and flushed is executed by the waiting rank's own polling steps alone, within `total` steps), C03_joint_never_stuck / C03_joint_quiescent_barrier_ends / C03_message_work_bounded (only the barrier's polling rounds can repeat: message-side steps are bounded by an explicit measure) on the product Deliver x BarrierME (the two sides never block each other). What remains an environment hypothesis: the loops keep polling and MPI completes matched operations. Explored: seeded "
            "message DAGs with handler-side sends / local_progress / local_wait_until over all env configurations (capacity 0.., 1..8 irecvs, isends_wait 0.., issend 0/1/8), "
            "layouts, routings and scheduling policies incl. always-rendezvous; any abort/deadlock/livelock is a concrete failing schedule (replayable by seed).",
    "note": "Termination under every fair schedule depends on MPI's progress rules, which are modelled by simmpi, not verified; schedules are sampled; handlers whose spawn "
            "tree is only dynamically finite are outside the model. Known finding D7 (blocking collectives entered without servicing YGM traffic can deadlock) is reported as KNOWN-FINDING.",
}

WANT = ("delivery",)


def cases(tier, seed):
    rng = T.Rng(seed * 1000003 + 3)
    out = []
    layouts = [(1, 1), (1, 2), (1, 4), (2, 2), (2, 3), (3, 2)] if tier == "quick" else T.LAYOUTS_QUICK + [(1, 2), (2, 4), (4, 2), (1, 8)]
    reps = 3 if tier == "quick" else 16
    for _ in range(reps):
        for (N, P) in layouts:
            for routing in T.ROUTINGS:
                for kb in (0, 1, None):
                    sc = T.gen_scenario(rng, N * P, epochs=rng.choice([1, 2, 3]), ops_per_rank=rng.choice([3, 6, 10]), ttl=rng.choice([1, 2, 3]), maxfan=2,
                                        hprog=30, hcb=8, p_mask=6, p_progress=10, p_wait=25, sizes=(0, 8, 100, 600, 1500, 5000), other=rng.choice([0, 0, 0, 50]))
                    out.append((sc, T.Config(N, P, routing, kb, irecvs=rng.choice([1, 2, 8]), isends_wait=rng.choice([0, 1, 4]),
                                             issend=rng.choice([0, 1, 8]), policy=rng.choice(T.POLICIES), eager=rng.choice([0, 0, 50, 100]),
                                             sim_seed=rng.below(1 << 30), placement=("cyclic" if N > 1 and rng.below(4) == 0 else None))))
    return out


def collective_cases(tier, seed):
    """directed family for D7: a blocking collective entered right after un-barriered traffic"""
    rng = T.Rng(seed * 7 + 1)
    out = []
    for n in ([2, 4] if tier == "quick" else [2, 3, 4, 6]):
        ops = []
        uid = 1 << 20
        for i in range(12):
            uid += 1
            ops.append((0, 1, "async", uid, 0, 5000, 0))
        for r in range(n):
            ops.append((0, r, "allreduce"))
        sc = T.Scenario(n, 1, {"maxfan": 0, "hprog": 0, "hcb": 0, "hbc": 0}, [0, 8], ops)
        out.append((sc, T.Config(1, n, "NONE", 0, eager=0, sim_seed=rng.below(1 << 30))))
    return out


def extra(local, sc, cfg, sr, hev, wire, out):
    from props import acceptors
    acceptors.flush(local, sc, cfg, hev, wire)


def run(tier, seed, model_ok=True):
    res = C.Result()
    res.rule = ("[a quarter of the generated scenarios also run barriers of a SECOND ygm::comm living in the same process between the epochs; its events are removed from the judged history] " +
                "seeded scenarios (handler-side sends, handler-side local_progress, local_wait_until on flags set by peers, callbacks, masks) x layout x routing x "
                "capacity {0,1KB,16MB} x irecvs x isends_wait x issend x eager/rendezvous x policy; plus a directed family entering a blocking collective after "
                "un-barriered traffic; single RPCs of 17 MiB / 72 MB against the default receive-slot size; container construction / destruction scenarios of harness/dtor.cpp (shared with C02) incl. heap-allocated containers "
                "re-created with a rank-dependent allocator history; distinct = (config, scenario shape) of completed runs")
    res.assumptions = ["MPI progress semantics as implemented by simmpi", "schedules sampled by seeded policies", "finite message DAGs"]
    binary, err = C.build_harness("traffic")
    if binary is None:
        res.corr_failures.append({"relation": "harness builds against /repo", "what": err[-800:], "case": None})
        return res
    K.run_cases(res, binary, cases(tier, seed), WANT, extra=extra if model_ok else None)
    K.run_cases(res, binary, collective_cases(tier, seed), WANT, timeout=60)
    # single RPCs far larger than the send buffer with the library's DEFAULT receive-slot size (72 MB > 64 MiB; 17 MiB with capacity
    # 0 / 1 KB): whatever one async packs must fit a posted receive, or the receiver aborts (family shared with C01)
    from props import c01
    K.run_cases(res, binary, [c for c in c01.special_cases(tier, seed) if getattr(c[1], "default_irecv_size", None)], WANT, extra=None,
                log_bytes=0, nontrivial=lambda out: out.get("asyncs", 0) > 0)
    # construction / destruction of containers (their constructors run a blocking ygm_ptr check, their destructors a barrier),
    # incl. heap-allocated containers re-created with a rank-dependent allocator history: every call must return, no assertion
    from props import c02
    c02.dtor_runs(res, "quick", seed)
    # the blocking collectives return for every serialised size (1-byte steps around the helpers' internal boundaries)
    from props import c09
    c09.run_size_sweep(res, "quick", seed, model_ok)
    unknown = [i for i, f in enumerate(res.oracle_failures) if not f["signature"].startswith("deadlock coll(")]
    if unknown:
        i = unknown[0]
        res.oracle_failures[i] = K.shrink(binary, res.oracle_failures[i], WANT)
    return res


def replay(data):
    if (data.get("case") or {}).get("mode") == "sweep":
        from props import c09
        return c09.replay(data)
    if (data.get("case") or {}).get("harness") == "dtor":
        from props import c02
        return c02.replay(data)
    binary, err = C.build_harness("traffic")
    return K.replay_case(binary, data, WANT, extra)
