"""C19 — multi_output / daily_output write every line exactly once to the file of its subpath.
Tie: generated write histories (several subpaths in nested directories, hot subpaths written by every
rank, lines of length 0 / 1 / buffer-1 / buffer / > buffer, binary bytes, multi-argument lines, writes
issued from handlers), buffer lengths 0, 1, small, default, both open modes with pre-existing files,
two generations on one prefix, communicator sizes 1..4 and 2x2, run on the real headers under simmpi;
after destruction rank 0 reads the whole directory tree back.  Direct oracle: per file, old content
(append) or nothing (trunc) followed by exactly the lines written to that subpath by all ranks, as a
multiset; no other file appears; untouched files keep their bytes.  Correspondence: the same per-file
prediction computed by Out.fileAfter / Out.splitNl / Out.datePath through the Lean driver; the date
path additionally against gmtime (in the harness) and against Python's calendar."""
import collections
import datetime
import random

from lib import common as C

META = {
    "claimed": True,
    "technique": "Lean 4 proof (induction over line lists / write histories, civil-date arithmetic for all days) + read-back correspondence of the "
                 "real multi_output/daily_output under simmpi with the model's per-file prediction",
    "text": "Theorems over YgmVerif.Out: flushes_concat / flushes_whole_lines / buffer_bounded / lines_read_back (for every buffer length >= 0 and "
            "every line list the concatenated writes are exactly the lines, each followed by one newline, never split, lines longer than the buffer "
            "included), append_keeps_old / append_creates / trunc_replaces / unwritten_untouched (open modes), one_writer_per_file / "
            "file_holds_exactly_the_lines (hash owner: for every history, hash, communicator size and arrival permutation only the owner sees lines of "
            "a subpath and it sees a permutation of all of them), civil_days_roundtrip / civil_valid / civil_injective / date_path_injective (the "
            "year/month/day path is the same iff the UTC day is the same, for all timestamps). The model is tied to multi_output.hpp / daily_output.hpp "
            "by reading the directory tree back after destruction and comparing every file with the model's prediction and with the property's own "
            "statement (multiset of lines per file, old content kept or replaced, no foreign file), and every timestamp's path with gmtime.",
    "note": "Partial: the filesystem, std::ofstream, std::hash<std::string> and std::gmtime are outside the model (exercised only). Exactly-once "
            "delivery to the owner is the hypothesis `arr r ~ destinedTo r` (C01/C02: the destructor's barrier). Which rank opens a file and where the "
            "flush boundaries fall are not observable in the files (no hook); they are covered by the theorems and indirectly by the content oracle "
            "(two writers or a missing final flush corrupt / lose lines). A subpath that receives no line is never opened, so with append off its old "
            "content stays (modelled as such; the property speaks of subpaths written to). Lines containing '\\n' and timestamps beyond gmtime's "
            "range are outside the property.",
}

RULE = ("generated: a case = (layout, buffer length, append flag, #subpaths, #writes per rank, max line length, feature flags, seed); the harness "
        "draws subpaths (files f<i> below 0-3 random directories d<j>), line lengths steered to 0/1/L-1/L/>L/max, text or binary bytes, single or "
        "multi-argument writes, typed arguments (ints, doubles, bools) with and without sticky stream manipulators (hex, oct, fixed, scientific, "
        "setprecision, setfill, boolalpha, showbase, uppercase, showpos) whose expected text is a fresh ostringstream's, optionally writes from handlers, optionally pre-existing files incl. one nobody writes to and one without final "
        "newline, optionally a second multi_output generation on the same prefix; non-trivial = at least one file received lines from >= 2 ranks "
        "or had old content; daily_output: timestamps steered to day/month/year/leap/century/2^31 boundaries")

LAYOUTS = [(1, 1), (1, 2), (1, 3), (1, 4), (2, 2)]

ENV_KEYS = ("routing", "buffer_kb", "issend_freq", "num_irecvs", "isends_wait", "placement", "policy")


def env_of(case, base=None):
    """the communicator / simulator settings of a case (recorded in the case, so a replay runs under the same settings)"""
    e = dict(base or {})
    e["YGM_COMM_ROUTING"] = case.get("routing", "NONE")
    for key, var in (("buffer_kb", "YGM_COMM_BUFFER_SIZE_KB"), ("issend_freq", "YGM_COMM_ISSEND_FREQ"), ("num_irecvs", "YGM_COMM_NUM_IRECVS"),
                     ("isends_wait", "YGM_COMM_NUM_ISENDS_WAIT")):
        if case.get(key) is not None:
            e[var] = case[key]
    if case.get("placement") == "cyclic":
        e["SIMMPI_PLACEMENT"] = "cyclic"
    return e


def rotate_env(cases):
    """environment dimension rotated over the existing cases (not multiplied): Issend frequency, posted receives, isends-wait,
    node placement; send-buffer sizes 0 and 1 KB occur with every kind"""
    per_kind = {}
    for i, c in enumerate(cases):
        c.setdefault("issend_freq", (8, 0, 1)[i % 3])
        c.setdefault("num_irecvs", (8, 1, 2)[(i + i // 3) % 3])
        c.setdefault("isends_wait", (4, 0, 1)[(i + 2 * (i // 3) + i // 9) % 3])
        if c["nodes"] > 1:
            c.setdefault("placement", "cyclic" if i % 2 == 0 else "block")
        j = per_kind.get(c["kind"], 0)
        per_kind[c["kind"]] = j + 1
        if "buffer_kb" not in c:
            c["buffer_kb"] = (None, 0, 1, None, 1, 0)[j % 6]
    return cases


def unhex(h):
    return b"" if h == "-" else bytes.fromhex(h)


def hx(b):
    return b.hex() if b else "-"


# ------------------------------------------------------------------ multi_output

def gen_mo_cases(tier, seed):
    rnd = random.Random(seed * 7919 + 19)
    cases = []
    Ls = [0, 1, 7, 64, -1]
    reps = 6 if tier == "quick" else 300
    for rep in range(reps):
        for (nodes, ppn) in LAYOUTS:
            for L in Ls:
                for append in (0, 1):
                    if L == -1 and append:
                        continue      # the default-argument constructor has append = false
                    flags = rnd.choice([0, 1]) | (2 if rnd.random() < 0.7 else 0) | (4 if rnd.random() < 0.5 else 0) \
                        | (8 if rnd.random() < 0.4 else 0) | (16 if rnd.random() < 0.3 else 0)
                    cases.append({"kind": "mo", "nodes": nodes, "ppn": ppn, "L": L, "append": append,
                                  "nsub": rnd.choice([1, 2, 5, 9]), "nwrites": rnd.choice([0, 1, 6, 25]) if rnd.random() < 0.3 else rnd.choice([8, 20, 40]),
                                  "maxlen": rnd.choice([3, 30, 200]), "flags": flags, "seed": rnd.randrange(1, 10 ** 9),
                                  "routing": rnd.choice(["NONE", "NR", "NLNR"]),
                                  "sim_seed": rnd.randrange(1, 10 ** 6)})
    # directed: files directly in a prefix directory that does not exist yet, written immediately after construction, every async
    # its own message, schedules in which some ranks run far ahead of others (a rank other than 0 may have to create the directory)
    for i in range(48 if tier == "quick" else 300):
        nodes, ppn = [(1, 3), (1, 4), (2, 2), (1, 2)][i % 4]
        cases.append({"kind": "mo", "nodes": nodes, "ppn": ppn, "L": rnd.choice([0, 7, -1]), "append": 0, "nsub": 6, "nwrites": rnd.choice([2, 4, 10]),
                      "maxlen": 20, "flags": 32 | (16 if i % 5 == 0 else 0) | rnd.choice([0, 1]), "seed": rnd.randrange(1, 10 ** 9),
                      "sim_seed": rnd.randrange(1, 10 ** 6), "routing": rnd.choice(["NONE", "NR", "NLNR"]), "buffer_kb": 0,
                      "policy": ["racer", "racer", "racer", "starve", "racer", "racer", "racer", "uniform"][i % 8]})
    # directed: subpaths of total length 253..257 (lines of 253..257 bytes are among the generated lengths of every case)
    for i in range(4 if tier == "quick" else 30):
        nodes, ppn = LAYOUTS[i % len(LAYOUTS)]
        cases.append({"kind": "mo", "nodes": nodes, "ppn": ppn, "L": rnd.choice([0, 64, -1]), "append": 0, "nsub": 5, "nwrites": 12, "maxlen": 300,
                      "flags": 64 | rnd.choice([0, 1]) | rnd.choice([0, 2]), "seed": rnd.randrange(1, 10 ** 9), "sim_seed": rnd.randrange(1, 10 ** 6),
                      "routing": rnd.choice(["NONE", "NR", "NLNR"])})
    # directed: two communicators of different size in one process, a multi_output on each, the same subpath names on both
    for i in range(8 if tier == "quick" else 60):
        # one node (a split of a multi-node layout gives nodes with different rank counts, which the routed layouts do not support) and
        # default buffering (with capacity 0 a sender on one communicator waits for a peer that only polls the other one: the C03 finding)
        nodes, ppn = [(1, 3), (1, 4), (1, 2), (1, 4)][i % 4]
        cases.append({"kind": "mo2", "nodes": nodes, "ppn": ppn, "order": i % 2, "nwrites": rnd.choice([10, 30]), "seed": rnd.randrange(1, 10 ** 9),
                      "sim_seed": rnd.randrange(1, 10 ** 6), "routing": rnd.choice(["NONE", "NR", "NLNR"]), "buffer_kb": None, "isends_wait": 4,
                      "num_irecvs": 8})
    if tier != "quick":
        # lines of 65535 / 65536 bytes; more than 65536 output objects in one process with the first one still alive
        for (nodes, ppn) in ((1, 2), (2, 2)):
            cases.append({"kind": "mo", "nodes": nodes, "ppn": ppn, "L": 64, "append": 0, "nsub": 2, "nwrites": 20, "maxlen": 65536, "flags": 0,
                          "seed": rnd.randrange(1, 10 ** 9), "sim_seed": rnd.randrange(1, 10 ** 6), "routing": "NONE"})
        cases.append({"kind": "many", "nodes": 1, "ppn": 2, "nobj": 65600, "seed": 1, "sim_seed": 1, "routing": "NONE", "timeout": 1500})
    # directed: big lines against the default 1 MiB buffer (crosses the real threshold)
    cases.append({"kind": "mo", "nodes": 1, "ppn": 2, "L": -1, "append": 0, "nsub": 2, "nwrites": 6, "maxlen": 400000, "flags": 1,
                  "seed": seed + 5, "sim_seed": seed})
    for (nodes, ppn) in ((1, 4), (2, 2), (1, 1)):   # more than a filebuf's worth of data in one hot file
        cases.append({"kind": "mo", "nodes": nodes, "ppn": ppn, "L": 64, "append": 1, "nsub": 1, "nwrites": 40, "maxlen": 2000, "flags": 2 | 8,
                      "seed": seed + 7 + nodes, "sim_seed": seed})
    cases.append({"kind": "mo", "nodes": 1, "ppn": 1, "L": 5, "append": 1, "nsub": 3, "nwrites": 30, "maxlen": 12, "flags": 2 | 8,
                  "seed": seed + 6, "sim_seed": seed})
    return cases


def run_case(binary, case):
    if case["kind"] == "mo2":
        args = ["mo2", case["seed"], case["order"], case["nwrites"]]
    elif case["kind"] == "many":
        args = ["many", case["nobj"]]
    elif case["kind"] == "mo":
        args = ["mo", case["seed"], case["L"], case["append"], case["nsub"], case["nwrites"], case["maxlen"], case["flags"]]
    else:
        args = ["day", case["seed"], case["L"], case["nwrites"], ",".join(map(str, case["ts"]))]
    # a local time zone far from UTC: localtime instead of gmtime would show
    return C.run_sim(binary, args, nodes=case["nodes"], ppn=case["ppn"], sim_seed=case.get("sim_seed", 1), policy=case.get("policy", "uniform"),
                     want_log=False, timeout=case.get("timeout", 120),
                     env=env_of(case, {"TZ": "XYZ+11:30"}))


def parse_mo(sr, ranks):
    """-> olds {sub: bytes}, gens: [ {writes: {rank: [(sub, line)]}, files: {sub: bytes}} ]"""
    olds, gens = {}, []
    for r in range(ranks):
        g = -1
        for l in sr.outs.get(r, []):
            w = l.split(" ")
            if w[0] == "gen":
                g = int(w[1])
                while len(gens) <= g:
                    gens.append({"writes": collections.defaultdict(list), "files": {}, "dumped": False, "packs": []})
            elif w[0] == "old":
                olds[unhex(w[1]).decode()] = unhex(w[2])
            elif w[0] == "w":
                gens[g]["writes"][r].append((unhex(w[1]).decode(), unhex(w[2])))
            elif w[0] == "p":
                gens[g]["packs"].append((unhex(w[1]), w[2:]))
            elif w[0] == "f":
                gens[g]["files"][unhex(w[1]).decode()] = unhex(w[2])
                gens[g]["dumped"] = True
            elif w[0] in ("d", "notree", "dumped"):
                gens[g]["dumped"] = True
    return olds, gens


def model_files(queries):
    """queries: [(append, old|None, L, [lines])] -> [bytes|None] via Out.fileAfter, and the lines Out.splitNl reads back"""
    lines = []
    for (a, old, L, ls) in queries:
        lines.append("file %d %s %d %s" % (a, "none" if old is None else hx(old), L, " ".join(hx(x) for x in ls)))
    out = C.model("out", lines) if lines else []
    res = []
    for o in out:
        res.append(None if o == "none" else unhex(o.strip()))
    return res


def model_split(blobs):
    out = C.model("out", ["split " + hx(b) for b in blobs]) if blobs else []
    res = []
    for o in out:
        left, right = o.split("|")
        ls = [unhex(x) for x in left.split()[1:]]
        res.append((ls, unhex(right.strip())))
    return res


def check_mo(res, case, sr, model_ok):
    ranks = case["nodes"] * case["ppn"]
    cs = dict(case)
    if sr.verdict != "ok":
        res.oracle_failures.append({"what": f"multi_output run did not finish: {sr.verdict}", "signature": "c19-run-" + sr.verdict.split(":")[0],
                                    "case": dict(cs, stderr=sr.stderr[-400:])})
        return
    olds, gens = parse_mo(sr, ranks)
    L = case["L"] if case["L"] >= 0 else 1024 * 1024
    append = bool(case["append"])
    state = dict(olds)            # subpath -> bytes currently on disk
    feats = set()
    for gi, g in enumerate(gens):
        if not g["dumped"]:
            res.oracle_failures.append({"what": "rank 0 did not dump the tree", "signature": "c19-no-dump", "case": cs})
            return
        per_sub = collections.defaultdict(list)          # sub -> [(origin rank, line)]
        for r, ws in g["writes"].items():
            for (s, line) in ws:
                per_sub[s].append((r, line))
        real = g["files"]
        expected_files = set(state) | set(per_sub)
        # ---- oracle: no foreign file, none missing
        if set(real) != expected_files:
            res.oracle_failures.append({"what": "files on disk differ from the subpaths written/pre-existing",
                                        "signature": "c19-file-set", "case": dict(cs, gen=gi, extra=sorted(set(real) - expected_files)[:5],
                                                                                   missing=sorted(expected_files - set(real))[:5])})
        queries, qsubs = [], []
        for s in sorted(expected_files):
            old = state.get(s)
            lines = [ln for (_, ln) in per_sub.get(s, [])]
            content = real.get(s)
            origins = {r for (r, _) in per_sub.get(s, [])}
            if len(origins) >= 2:
                feats.add("multi-origin")
            if old is not None and lines:
                feats.add("old+append" if append else "old+trunc")
            if any(len(x) + 1 > L for x in lines):
                feats.add("line>L")
            if any(len(x) + 1 == L for x in lines):
                feats.add("line=L")
            if "/" in s:
                feats.add("nested")
            if content is None:
                continue
            # ---- oracle: the property's own statement
            if not lines:
                if content != (old or b""):
                    res.oracle_failures.append({"what": f"file {s} nobody wrote to changed", "signature": "c19-untouched-changed",
                                                "case": dict(cs, gen=gi, sub=s, old=hx(old or b""), got=hx(content)[:400])})
                new_state = content
            else:
                keep = (old or b"") if append else b""
                if not content.startswith(keep):
                    res.oracle_failures.append({"what": f"file {s}: previous content not kept ahead of the new lines" if append else f"file {s}: bad content",
                                                "signature": "c19-append-lost-old", "case": dict(cs, gen=gi, sub=s, old=hx(keep)[:200], got=hx(content)[:400])})
                    rest = content
                else:
                    rest = content[len(keep):]
                got = rest[:-1].split(b"\n") if rest.endswith(b"\n") else None
                if got is None and rest != b"":
                    res.oracle_failures.append({"what": f"file {s}: last line not terminated", "signature": "c19-unterminated",
                                                "case": dict(cs, gen=gi, sub=s, got=hx(content)[-200:])})
                    got = rest.split(b"\n")
                if rest == b"":
                    got = []
                if collections.Counter(got) != collections.Counter(lines):
                    miss = collections.Counter(lines) - collections.Counter(got)
                    extra = collections.Counter(got) - collections.Counter(lines)
                    sig = "c19-lines-lost" if miss and not extra else ("c19-lines-duplicated-or-foreign" if extra and not miss else "c19-lines-differ")
                    if not append and old and rest.startswith(old) and collections.Counter(rest[len(old):-1].split(b"\n")) == collections.Counter(lines):
                        sig = "c19-trunc-kept-old"
                    res.oracle_failures.append({"what": f"file {s}: lines on disk are not exactly the lines written ({sum(miss.values())} missing, {sum(extra.values())} extra)",
                                                "signature": sig, "case": dict(cs, gen=gi, sub=s, missing=[hx(x)[:80] for x in list(miss)[:3]],
                                                                               extra=[hx(x)[:80] for x in list(extra)[:3]])})
                new_state = content
            # ---- correspondence queries: canonical order unless the arrival order is known (one rank, no handler writes)
            exact = ranks == 1 and not (case["flags"] & 4)
            queries.append((1 if append else 0, old, L, lines if exact else sorted(lines)))
            qsubs.append((s, exact, content, old, lines))
            state[s] = new_state
        if model_ok and queries:
            preds = model_files(queries)
            splits = model_split([p if p is not None else b"" for p in preds])
            for (s, exact, content, old, lines), pred, (mlines, mrest) in zip(qsubs, preds, splits):
                if pred is None:
                    ok = (content == b"" and old is None) or False
                    if not ok:
                        res.corr_failures.append({"relation": "Out.fileAfter == file on disk", "what": f"model says file {s} does not exist, disk has it",
                                                  "case": dict(cs, gen=gi, sub=s)})
                    continue
                if exact:
                    if pred != content:
                        res.corr_failures.append({"relation": "Out.fileAfter == file on disk (one rank: exact bytes)", "what": f"file {s} differs",
                                                  "case": dict(cs, gen=gi, sub=s, model=hx(pred)[:300], real=hx(content)[:300])})
                else:
                    keep = (old or b"") if (append and lines) else (b"" if lines else (old or b""))
                    # same kept prefix, same multiset of lines after it (both sides read back by Out.splitNl / bytes split)
                    real_rest = content[len(keep):] if content.startswith(keep) else None
                    pred_rest = pred[len(keep):] if pred.startswith(keep) else None
                    if real_rest is None or pred_rest is None or len(real_rest) != len(pred_rest) or \
                            sorted(real_rest.split(b"\n")) != sorted(pred_rest.split(b"\n")):
                        res.corr_failures.append({"relation": "Out.fileAfter == file on disk (as kept prefix + multiset of lines)", "what": f"file {s} differs",
                                                  "case": dict(cs, gen=gi, sub=s, model=hx(pred)[:300], real=hx(content)[:300])})
                if lines and not old:
                    # Out.splitNl of the model's file gives back the lines, nothing left over
                    if mrest != b"" or sorted(mlines) != sorted(lines):
                        res.corr_failures.append({"relation": "Out.splitNl (Out.fileAfter ..) == lines", "what": f"file {s}", "case": dict(cs, gen=gi, sub=s)})
    # typed arguments: the line a fresh std::ostringstream gives for the call's arguments == Out.pack of the same arguments
    packs = [pk for g in gens for pk in g["packs"]]
    if packs:
        feats.add("typed-args")
        res.count("typed-arg-lines", len(packs))
        if model_ok:
            outs = C.model("out", ["pack " + " ".join(toks) for (_, toks) in packs])
            for (line, toks), o in zip(packs, outs):
                if unhex(o.strip()) != line:
                    res.corr_failures.append({"relation": "Out.pack (arguments of one call) == line produced by a fresh std::ostringstream",
                                              "what": f"tokens {toks}: model {o}, real {hx(line)}", "case": cs})
                    break
    res.evaluations += 1
    res.traces_validated += 1
    cls = "L=default" if case["L"] < 0 else ("L=%d" % case["L"])
    res.count(cls)
    res.count("append" if append else "trunc")
    res.count("routing=%s" % case.get("routing", "NONE"))
    res.count("comm-buffer-kb=%s" % case.get("buffer_kb"))
    res.count("issend-freq=%s irecvs=%s isends-wait=%s" % (case.get("issend_freq"), case.get("num_irecvs"), case.get("isends_wait")))
    if case.get("placement") == "cyclic":
        res.count("placement=cyclic")
    for f in feats:
        res.count(f)
    if feats & {"multi-origin", "old+append", "old+trunc"}:
        res.distinct.add((case["nodes"], case["ppn"], case.get("routing"), cls, append, case["flags"], tuple(sorted(feats))))
    if ranks == 4 and len(gens) and "multi-origin" in feats:
        g0 = gens[0]
        s0 = next(iter(sorted(g0["files"])), None)
        res.sample({"layout": f"{case['nodes']}x{case['ppn']}", "L": case["L"], "append": case["append"], "flags": case["flags"],
                    "a_file": s0, "bytes_on_disk": len(g0["files"].get(s0, b"")), "writes_per_rank": {r: len(v) for r, v in g0["writes"].items()}})


def check_trees(res, case, sr):
    """mo2 / many: every tree rank 0 dumped holds, per file, exactly the lines written to it (each object judged on its own prefix)"""
    ranks = case["nodes"] * case["ppn"]
    cs = dict(case)
    if sr.verdict != "ok":
        res.oracle_failures.append({"what": f"{case['kind']} run did not finish: {sr.verdict}", "signature": "c19-run-" + sr.verdict.split(":")[0],
                                    "case": dict(cs, stderr=sr.stderr[-400:])})
        return
    expect = collections.defaultdict(list)     # (tree, path) -> lines
    real = {}
    for r in range(ranks):
        tree = ""
        for l in sr.outs.get(r, []):
            w = l.split(" ")
            if w[0] == "w2":
                expect[(w[1], unhex(w[2]).decode())].append(unhex(w[3]))
            elif w[0] == "w":
                expect[("", unhex(w[1]).decode())].append(unhex(w[2]))
            elif w[0] == "tree":
                tree = w[1]
            elif w[0] == "f":
                real[(tree, unhex(w[1]).decode())] = unhex(w[2])
    if set(real) != set(expect):
        res.oracle_failures.append({"what": "files on disk differ from the subpaths written", "signature": "c19-file-set",
                                    "case": dict(cs, extra=sorted(set(real) - set(expect))[:4], missing=sorted(set(expect) - set(real))[:4])})
    for key, lines in expect.items():
        content = real.get(key)
        if content is None:
            continue
        got = content[:-1].split(b"\n") if content.endswith(b"\n") else content.split(b"\n")
        if collections.Counter(got) != collections.Counter(lines):
            miss = collections.Counter(lines) - collections.Counter(got)
            extra = collections.Counter(got) - collections.Counter(lines)
            res.oracle_failures.append({"what": f"tree {key[0]!r} file {key[1]}: lines on disk are not exactly the lines written to it through that object "
                                                f"({sum(miss.values())} missing, {sum(extra.values())} extra)",
                                        "signature": "c19-two-comms-lines" if case["kind"] == "mo2" else "c19-many-objects-lines",
                                        "case": dict(cs, tree=key[0], sub=key[1], missing=[hx(x)[:60] for x in list(miss)[:3]])})
    res.evaluations += 1
    res.traces_validated += 1
    res.count(case["kind"])
    res.distinct.add((case["kind"], case["nodes"], case["ppn"], case.get("order"), case.get("routing")))


# ------------------------------------------------------------------ daily_output

def boundary_timestamps(rnd, tier):
    D = 86400
    days = [0, 1, 58, 59, 364, 365, 789, 790, 11015, 11016, 11017, 11381, 11382,         # 1970, 1972 leap, 2000 leap century
            47540, 47541, 47542, 24854, 24855, 24856,                                        # 2100 non-leap century, 2038
            16435, 16436, 19723, 19724, 2932896, 2932895]                                      # 2015, 2024, 9999-12-31
    ts = []
    for d in days:
        ts += [d * D, d * D + D - 1]
    ts += [2 ** 31 - 1, 2 ** 31, 2 ** 32 - 1, 2 ** 32, 951782399, 951782400, 951868799, 951868800]
    for _ in range(150 if tier == "quick" else 3000):
        ts.append(rnd.randrange(0, 253402300800))      # up to 9999-12-31
    for _ in range(60 if tier == "quick" else 1500):    # month ends of random years
        y = rnd.randrange(1970, 2400)
        m = rnd.randrange(1, 13)
        first = int((datetime.datetime(y, m, 1) - datetime.datetime(1970, 1, 1)).total_seconds())
        ts += [first - 1, first]
    return sorted(set(ts))


def py_date(ts):
    d = datetime.datetime(1970, 1, 1) + datetime.timedelta(seconds=ts)
    return (d.year, d.month, d.day)


def check_day(res, case, sr, model_ok):
    ranks = case["nodes"] * case["ppn"]
    cs = dict(case)
    if sr.verdict != "ok":
        res.oracle_failures.append({"what": f"daily_output run did not finish: {sr.verdict}", "signature": "c19-run-" + sr.verdict.split(":")[0],
                                    "case": dict(cs, stderr=sr.stderr[-400:])})
        return
    recs, files = [], {}
    for r in range(ranks):
        for l in sr.outs.get(r, []):
            w = l.split(" ")
            if w[0] == "t":
                recs.append((int(w[1]), unhex(w[2]), (int(w[3]), int(w[4]), int(w[5]))))
            elif w[0] == "f":
                files[unhex(w[1]).decode()] = unhex(w[2])
    tss = sorted({t for (t, _, _) in recs})
    mdates = {}
    if model_ok and tss:
        for t, o in zip(tss, C.model("out", [f"date {t}" for t in tss])):
            y, m, d, path = o.split()
            mdates[t] = ((int(y), int(m), int(d)), path)
    expect = collections.defaultdict(list)
    for (t, line, gm) in recs:
        pd = py_date(t)
        path = "%d/%d/%d" % pd          # the property: year/month/day of the UTC timestamp
        expect[path].append(line)
        if gm != pd:
            res.corr_failures.append({"relation": "gmtime == Python calendar", "what": f"ts {t}: {gm} vs {pd}", "case": dict(cs, ts=t)})
        if model_ok:
            md, mpath = mdates[t]
            if md != gm or mpath != "%d/%d/%d" % gm:
                res.corr_failures.append({"relation": "Out.civilFromDays/datePath == gmtime fields without padding",
                                          "what": f"ts {t}: model {md} {mpath}, gmtime {gm}", "case": dict(cs, ts=t)})
    if set(files) != set(expect):
        res.oracle_failures.append({"what": "daily_output files are not the year/month/day paths of the timestamps written",
                                    "signature": "c19-date-path", "case": dict(cs, extra=sorted(set(files) - set(expect))[:5],
                                                                               missing=sorted(set(expect) - set(files))[:5])})
    for path, lines in expect.items():
        content = files.get(path)
        if content is None:
            continue
        got = content[:-1].split(b"\n") if content.endswith(b"\n") else content.split(b"\n")
        if collections.Counter(got) != collections.Counter(lines):
            res.oracle_failures.append({"what": f"file {path} does not hold exactly the lines of that UTC day", "signature": "c19-date-lines",
                                        "case": dict(cs, path=path, n_expected=len(lines), n_got=len(got))})
    res.evaluations += len(tss)
    res.traces_validated += 1
    res.count("timestamps", len(tss))
    res.count("date-files", len(files))
    for p in files:
        res.distinct.add(("day", p))
    res.sample({"daily_output": f"{case['nodes']}x{case['ppn']}", "timestamps": len(tss), "files": len(files), "first_paths": sorted(files)[:4]})


def gen_day_cases(tier, seed):
    rnd = random.Random(seed * 104729 + 3)
    ts = boundary_timestamps(rnd, tier)
    cases = []
    chunk = 60
    lay = 0
    for i in range(0, len(ts), chunk):
        nodes, ppn = LAYOUTS[lay % len(LAYOUTS)]
        lay += 1
        part = ts[i:i + chunk]
        cases.append({"kind": "day", "nodes": nodes, "ppn": ppn, "L": rnd.choice([0, 16, 4096]), "nwrites": max(40, 4 * len(part) // (nodes * ppn)),
                      "ts": part, "seed": rnd.randrange(1, 10 ** 9), "sim_seed": rnd.randrange(1, 10 ** 6)})
    return cases


def run(tier, seed, model_ok=True):
    res = C.Result()
    res.rule = RULE
    res.assumptions = ["filesystem / std::ofstream / std::hash / std::gmtime are exercised, not modelled",
                       "exactly-once delivery of every write to owner(subpath) before the destructor flushes is C01/C02 (hypothesis of one_writer_per_file)",
                       "flush boundaries and the identity of the writing rank are not observable in the files (no hook): covered by theorems only",
                       "lines do not contain '\\n'; timestamps < 10000-01-01"]
    binary, err = C.build_harness("outser")
    if binary is None:
        res.corr_failures.append({"relation": "harness builds against /repo", "what": err[-800:], "case": None})
        return res
    if not model_ok:
        res.corr_failures.append({"relation": "model driver available", "what": "Lean library does not build", "case": None})
    cases = rotate_env(gen_mo_cases(tier, seed) + gen_day_cases(tier, seed))
    runs = C.pmap(lambda c: (c, run_case(binary, c)), cases)
    for c, sr in runs:
        if c["kind"] in ("mo2", "many"):
            check_trees(res, c, sr)
        elif c["kind"] == "mo":
            check_mo(res, c, sr, model_ok)
        else:
            check_day(res, c, sr, model_ok)
    return res


def replay(data):
    """re-run the recorded case; True when the failure does NOT reproduce"""
    case = data.get("case") or {}
    if "kind" not in case or (case["kind"] == "day" and "ts" not in case):
        print("replay: nothing executable recorded:", data.get("no_longer_checks") or data.get("what"))
        return False
    binary, err = C.build_harness("outser")
    if binary is None:
        print(err[-500:])
        return False
    keep = {k: case[k] for k in ("kind", "nodes", "ppn", "L", "append", "nsub", "nwrites", "maxlen", "flags", "seed", "sim_seed", "ts", "order", "nobj", "timeout") + ENV_KEYS if k in case}
    sr = run_case(binary, keep)
    res = C.Result()
    if keep["kind"] in ("mo2", "many"):
        check_trees(res, keep, sr)
    else:
        (check_mo if keep["kind"] == "mo" else check_day)(res, keep, sr, True)
    print("verdict", sr.verdict, "oracle failures", len(res.oracle_failures), "correspondence failures", len(res.corr_failures))
    for f in (res.oracle_failures + res.corr_failures)[:5]:
        print(" ", f.get("what"), f.get("signature", f.get("relation")))
    return not res.oracle_failures and not res.corr_failures
