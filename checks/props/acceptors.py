"""Trace acceptors: project the event history of a real run to the labels of a Lean model and let
`ygm_model <mode>` replay them through the model's `step`.  Filled in as the models land."""
from lib import common as C


def atomic(local, sc, cfg, hev, wire):
    return


def flush(local, sc, cfg, hev, wire):
    return


def deliver(local, sc, cfg, hev, wire):
    return


def barrier(local, sc, cfg, hev, wire):
    """C02 acceptor: every barrier epoch of the run, projected to the labels of YgmVerif.Barrier, must be
    accepted by the model's `step`; contributed / consumed count pairs must equal the model's."""
    n = cfg.n
    # pass 1: counters before every event, barrier ordinals, callback windows
    sent, recvd, busy, cbs, bars = [0] * n, [0] * n, [0] * n, [0] * n, [0] * n
    snap = {}            # barrier ordinal -> (index in hev of first bar+, counters there)
    ordinal = []         # per event: barrier ordinal of rank at that event (for bar/brc events)
    inbar = [False] * n
    cbwin = {}           # index of cb+ -> (k, j)
    open_cb = [None] * n
    depth_at_cb = [0] * n
    for i, ev in enumerate(hev):
        r, k = ev.r, ev.kind
        ordinal.append(bars[r] - (1 if inbar[r] else 0))
        if k == "k:bar+":
            e = bars[r]
            if e not in snap:
                snap[e] = (i, list(sent), list(recvd), list(busy), list(cbs))
            ordinal[-1] = e
            bars[r] += 1
            inbar[r] = True
        elif k == "k:bar-":
            inbar[r] = False
        elif k in ("k:as+", "k:qm"):
            sent[r] += 1
            if open_cb[r] is not None and busy[r] == depth_at_cb[r]:
                cbwin[open_cb[r]][0] += 1
        elif k == "k:ex+":
            busy[r] += 1
        elif k == "k:ex-":
            busy[r] -= 1
            recvd[r] += 1
        elif k == "k:rcb":
            cbs[r] += 1
            if open_cb[r] is not None and busy[r] == depth_at_cb[r]:
                cbwin[open_cb[r]][1] += 1
        elif k == "k:cb+":
            cbs[r] -= 1
            open_cb[r] = i
            depth_at_cb[r] = busy[r]
            cbwin[i] = [0, 0]
        elif k == "k:cb-":
            open_cb[r] = None
    nb = min(bars) if bars else 0
    lines, origin = [], []
    for e in range(nb):
        i0, s0, r0, b0, c0 = snap[e]
        lines.append("init %d %s %s %s %s" % (n, ",".join(map(str, s0)), ",".join(map(str, r0)), ",".join(map(str, b0)), ",".join(map(str, c0))))
        origin.append((e, None))
        exited = 0
        open_cb = [None] * n
        busy = list(b0)
        depth_at_cb = [0] * n
        for i in range(i0, len(hev)):
            ev = hev[i]
            r, k = ev.r, ev.kind
            lab = None
            if k in ("k:as+", "k:qm"):
                if not (open_cb[r] is not None and busy[r] == depth_at_cb[r]):
                    lab = "issue %d" % r
            elif k == "k:ex+":
                busy[r] += 1
                lab = "start %d" % r
            elif k == "k:ex-":
                busy[r] -= 1
                lab = "finish %d" % r
            elif k == "k:rcb":
                if not (open_cb[r] is not None and busy[r] == depth_at_cb[r]):
                    lab = "regcb %d" % r
            elif k == "k:cb+":
                open_cb[r] = i
                depth_at_cb[r] = busy[r]
                lab = "runcb %d %d %d" % (r, cbwin[i][0], cbwin[i][1])
            elif k == "k:cb-":
                open_cb[r] = None
            elif ordinal[i] == e:
                if k == "k:bar+":
                    lab = "enter %d" % r
                elif k == "k:brc+":
                    lab = "contribute %d %s %s" % (r, ev.f[0], ev.f[1])
                elif k == "k:brc-":
                    lab = "result %d %s %s" % (r, ev.f[0], ev.f[1])
                elif k == "k:bar-":
                    lab = "exit %d" % r
                    exited += 1
            if lab:
                lines.append(lab)
                origin.append((e, i))
            if exited == n:
                break
    if not lines:
        return
    outs = C.model("barrier", lines)
    local.count("barrier_labels", len(lines))
    local.count("barrier_epochs", nb)
    for (line, o, (e, i)) in zip(lines, outs, origin):
        if not o.startswith("ok"):
            ev = hev[i] if i is not None else None
            local.corr_failures.append({"relation": "real event history accepted by YgmVerif.Barrier.step (C02 acceptor)",
                                        "what": f"barrier #{e}: label '{line}' -> {o}" + (f" at event {ev!r}" if ev else ""),
                                        "case": {"scenario": sc.to_json(), "config": cfg.to_json()}})
            break


def bytes_(local, sc, cfg, hev, wire):
    return
