"""Trace acceptors: project the event history of a real run to the labels of a Lean model and let
`ygm_model <mode>` replay them through the model's `step`.  Filled in as the models land."""
from lib import common as C


def atomic(local, sc, cfg, hev, wire):
    """C08 acceptor: the control events of every rank replayed through YgmVerif.Atomic.step"""
    lines, origin = ["reset"], [None]
    for ev in hev:
        k, r = ev.kind, ev.r
        lab = None
        if k == "k:prq+":
            lab = f"pollBegin {r} {ev.f[0]}"
        elif k == "k:prq-":
            lab = f"pollEnd {r}"
        elif k == "k:hnr+":
            lab = f"hnrBegin {r} {ev.f[2]}"
        elif k == "k:hnr-":
            lab = f"hnrEnd {r}"
        elif k == "k:ex+":
            lab = f"handlerBegin {r} {ev.f[1]} {ev.f[2]}"
        elif k == "k:ex-":
            lab = f"handlerEnd {r}"
        elif k == "k:im+":
            lab = f"maskOn {r}"
        elif k == "k:im-":
            lab = f"maskOff {r}"
        if lab:
            lines.append(lab)
            origin.append(ev)
    outs = C.model("atomic", lines)
    local.count("atomic_labels", len(lines))
    for line, o, ev in zip(lines, outs, origin):
        if not o.startswith("ok"):
            local.corr_failures.append({"relation": "control events accepted by YgmVerif.Atomic.step (C08 acceptor)",
                                        "what": f"label '{line}' -> {o} at {ev!r}",
                                        "case": {"scenario": sc.to_json(), "config": cfg.to_json()}})
            return


def flush(local, sc, cfg, hev, wire):
    """C03 acceptor: every top-level invocation of flush_all_local_and_process_incoming, projected to polls / callbacks /
    flushes with the real return values and the real (callbacks, unsent bytes, posted sends) after each, must be an
    accepted history of YgmVerif.Flush.step that ends in `Done`."""
    n = cfg.n
    cbs, ub, sq = [0] * n, [0] * n, [0] * n
    lines, origin = [], []
    flwin = [0] * n        # depth of fl windows
    level = [0] * n        # nesting of prq / cb windows inside the top-level fl window
    pollinfo = [None] * n
    for ev in hev:
        k, r, f = ev.kind, ev.r, ev.f
        # ---- track the three quantities from the hooks that report them
        if k in ("k:pk", "k:qm", "k:fsb"):
            ub[r] = int(f[2])
        elif k in ("k:as+", "k:as-", "k:bc+", "k:bc-", "k:lp+", "k:lp-"):
            ub[r] = int(f[1])
        elif k == "k:hnr-":
            ub[r] = int(f[0])
        elif k == "k:fw":
            ub[r] += int(f[2])
        if k == "k:fsb":
            sq[r] += 1
        elif k == "k:sc":
            sq[r] -= 1
        elif k in ("k:prq+", "k:prq-"):
            sq[r] = int(f[1])
        if k in ("k:rcb", "k:cb+"):
            cbs[r] = int(f[0])
        # ---- project
        if k == "k:fl+":
            flwin[r] += 1
            if flwin[r] == 1:
                level[r] = 0
                lines.append(f"begin {f[2]} {f[0]} {f[1]}")
                origin.append(ev)
                cbs[r], ub[r], sq[r] = int(f[2]), int(f[0]), int(f[1])
            continue
        if k == "k:fl-":
            if flwin[r] == 1:
                lines.append("end")
                origin.append(ev)
            flwin[r] -= 1
            continue
        if flwin[r] != 1:
            continue
        if k == "k:prq+":
            if level[r] == 0:
                pollinfo[r] = {"recvd": 0}
            level[r] += 1
        elif k == "k:prq-":
            level[r] -= 1
            if level[r] == 0 and pollinfo[r] is not None:
                lines.append(f"poll {pollinfo[r]['recvd']} {f[0]} {cbs[r]} {ub[r]} {sq[r]}")
                origin.append(ev)
                pollinfo[r] = None
        elif k == "k:hnr+":
            if pollinfo[r] is not None and level[r] == 1:
                pollinfo[r]["recvd"] = 1
        elif k == "k:cb+":
            level[r] += 1
        elif k == "k:cb-":
            level[r] -= 1
            if level[r] == 0:
                lines.append(f"cb {cbs[r]} {ub[r]} {sq[r]}")
                origin.append(ev)
        elif k == "k:fsb" and level[r] == 0:
            lines.append(f"flush {f[1]}")
            origin.append(ev)
    if not lines:
        return
    # the model is per rank and per invocation; invocations of different ranks interleave in the log, so replay rank by rank
    byrank = {}
    for line, ev in zip(lines, origin):
        byrank.setdefault(ev.r, []).append((line, ev))
    allv, allo = [], []
    for r in sorted(byrank):
        for line, ev in byrank[r]:
            allv.append(line)
            allo.append(ev)
    outs = C.model("flush", allv)
    local.count("flush_labels", len(allv))
    local.count("flush_invocations", sum(1 for l in allv if l.startswith("begin")))
    for line, o, ev in zip(allv, outs, allo):
        if not o.startswith("ok"):
            local.corr_failures.append({"relation": "flush loop history accepted by YgmVerif.Flush.step (C03 acceptor)",
                                        "what": f"label '{line}' -> {o} at {ev!r}",
                                        "case": {"scenario": sc.to_json(), "config": cfg.to_json()}})
            return


def _parse_payload(hexstr, routed, fs=0):
    """physical buffer of the traffic harness -> [(uid, header_dest or None, leg, total_bytes)];
    fs = bytes of function-object state that follow the lambda id (scenario param fstate)"""
    b = bytes.fromhex(hexstr)
    i, out = 0, []
    while i < len(b):
        hd = None
        tot_hdr = 0
        if routed:
            hd = int.from_bytes(b[i + 4:i + 8], "little", signed=True)
            hsize = int.from_bytes(b[i:i + 4], "little")
            i += 8
            tot_hdr = 8
        if i + 30 + fs > len(b):
            raise ValueError("truncated message in physical buffer")
        if fs:
            salt = int.from_bytes(b[i + 2:i + 2 + fs], "little")
        i0 = i + fs
        uid = int.from_bytes(b[i0 + 2:i0 + 10], "little")
        if fs and salt != (uid ^ 0x5a5a5a5a5a5a):
            raise ValueError(f"function-object state of message {uid} is not what the sender packed")
        leg = int.from_bytes(b[i0 + 18:i0 + 22], "little", signed=True)
        nblob = int.from_bytes(b[i0 + 22:i0 + 30], "little")
        tot = 30 + fs + nblob
        if routed and hd != -1 and hsize != tot:
            raise ValueError(f"header size {hsize} != message bytes {tot} (uid {uid})")
        out.append((uid, hd, leg, tot + tot_hdr))
        i += tot
    if i != len(b):
        raise ValueError("physical buffer does not end on a message boundary")
    return out


def deliver(local, sc, cfg, hev, wire):
    """C01 acceptor: project the run to the labels of YgmVerif.Deliver (async / isend / recv / exec / fwd / recvend)
    and replay them through the model's step.  Needs the payload bytes of every send (log_bytes=-1)."""
    n = cfg.n
    routed = cfg.routing != "NONE"
    case = {"scenario": sc.to_json(), "config": cfg.to_json()}

    def bad(what):
        local.corr_failures.append({"relation": "real message movement accepted by YgmVerif.Deliver.step (C01 acceptor)", "what": what, "case": case})

    # index wire isends by log line; physical sends of the async communicator are those followed by a k:fsb hook
    isend_at = {}
    for (i, kind, d) in wire:
        if kind == "isend":
            isend_at[i] = d
    last_isend = {}
    events = sorted([(ev.t, "h", ev) for ev in hev] + [(i, "w", (kind, d)) for (i, kind, d) in wire if kind == "isend"], key=lambda x: x[0])
    # X uid of every ex window
    exuid = {}
    stack = {r: [] for r in range(n)}
    for ev in hev:
        if ev.kind == "k:ex+":
            stack[ev.r].append(ev.t)
        elif ev.kind == "X" and stack[ev.r]:
            exuid.setdefault(stack[ev.r][-1], int(ev.f[0]))
        elif ev.kind == "k:ex-" and stack[ev.r]:
            stack[ev.r].pop()
    pl = getattr(cfg, "placement", None)
    lines, origin, expect_hop = [f"initp {n} {cfg.routing} {cfg.ppn} {pl}" if pl else f"init {n} {cfg.routing} {cfg.ppn}"], [None], {}
    issue = {r: [] for r in range(n)}       # stack: an async may run handlers (which issue asyncs) before it packs
    bcwin = {r: [] for r in range(n)}
    exwin = {r: [] for r in range(n)}
    chan = {}            # (src, dst) -> list of parsed physical buffers in flight
    walk = {r: None for r in range(n)}
    try:
        for (t, src, x) in events:
            if src == "w":
                kind, d = x
                last_isend[int(d["r"])] = d
                continue
            ev = x
            r, k = ev.r, ev.kind
            if k == "A":
                issue[r].append(["A", int(ev.f[0]), int(ev.f[1])])
            elif k == "MC":
                issue[r].append(["MC", int(ev.f[0]), [int(z) for z in ev.f[2].split(",") if z != ""], 0])
            elif k in ("a", "mc"):
                if issue[r]:
                    issue[r].pop()
            elif k == "BC":
                bcwin[r].append([int(ev.f[0]), len(exwin[r])])
            elif k == "bc":
                if bcwin[r]:
                    bcwin[r].pop()
            elif k == "k:pk":
                it = issue[r][-1] if issue[r] else None
                if it is None:
                    bad(f"pack hook without an issuing call at {ev!r}")
                    return
                if it[0] == "A":
                    u, dest, kk = it[1], it[2], 0
                else:
                    u, dest, kk = it[1], it[2][it[3]], 100 + it[3]
                    it[3] += 1
                lines.append(f"async {r} {u} {kk} {dest} 0")
                origin.append(ev)
                expect_hop[len(lines) - 1] = int(ev.f[0])
            elif k == "k:qm":
                # a leg queued directly by async_bcast (BC window opened at the current handler depth), else a leg
                # forwarded by the broadcast's own handler (uid = the X event of the enclosing handler window)
                if bcwin[r] and bcwin[r][-1][1] == len(exwin[r]):
                    u = bcwin[r][-1][0]
                else:
                    u = exuid.get(exwin[r][-1]) if exwin[r] else None
                if u is None:
                    bad(f"broadcast leg queued outside any broadcast context at {ev!r}")
                    return
                dest = int(ev.f[0])
                lines.append(f"async {r} {u} {500 + dest} {dest} 1")
                origin.append(ev)
                expect_hop[len(lines) - 1] = dest
            elif k == "k:fsb":
                d = last_isend.get(r)
                if d is None or int(d["bytes"]) != int(ev.f[1]) or int(d["dst"]) != int(ev.f[0]):
                    bad(f"flush hook {ev!r} does not match the last MPI send {d and {kk: d[kk] for kk in ('dst', 'bytes')}}")
                    return
                msgs = _parse_payload(d.get("data", ""), routed, 8 if sc.params.get("fstate") else 0)
                chan.setdefault((r, int(ev.f[0])), []).append(msgs)
                lines.append(f"isend {r} {ev.f[0]} " + (",".join(str(m[0]) for m in msgs) or "-"))
                origin.append(ev)
            elif k == "k:hnr+":
                srcr = int(ev.f[1])
                q = chan.get((srcr, r), [])
                if not q:
                    bad(f"receive at {ev!r} but nothing in flight from {srcr} to {r}")
                    return
                msgs = q.pop(0)
                if sum(m[3] for m in msgs) != int(ev.f[0]):
                    bad(f"received {ev.f[0]} bytes from {srcr} but the oldest message in flight has {sum(m[3] for m in msgs)} (overtaking?)")
                    return
                walk[r] = list(msgs)
                lines.append(f"recv {r} {srcr} " + (",".join(str(m[0]) for m in msgs) or "-"))
                origin.append(ev)
            elif k == "k:ex+":
                exwin[r].append(ev.t)
                if not walk[r]:
                    bad(f"handler started at {ev!r} outside a received buffer")
                    return
                m = walk[r].pop(0)
                lines.append(f"execu {r} {m[0]}")
                origin.append(ev)
            elif k == "k:ex-":
                if exwin[r]:
                    exwin[r].pop()
            elif k == "k:fw":
                if not walk[r]:
                    bad(f"forward at {ev!r} outside a received buffer")
                    return
                m = walk[r].pop(0)
                lines.append(f"fwdu {r} {m[0]}")
                origin.append(ev)
                expect_hop[len(lines) - 1] = ("fw", int(ev.f[1]))
            elif k == "k:hnr-":
                if walk[r]:
                    bad(f"receive processing ended at {ev!r} with {len(walk[r])} messages of the buffer unprocessed")
                    return
                walk[r] = None
                lines.append(f"recvend {r}")
                origin.append(ev)
    except ValueError as ex:
        bad("physical buffer not parseable: " + str(ex))
        return
    lines.append("final")
    origin.append(None)
    outs = C.model("deliver", lines)
    local.count("deliver_labels", len(lines))
    for idx, (line, o) in enumerate(zip(lines, outs)):
        if line == "final":
            if "quiescent=true" not in o or "idle=true" not in o:
                bad(f"run ended but the model is not settled (C01Live.settled): {o}")
            continue
        if not o.startswith("ok"):
            bad(f"label '{line[:200]}' -> {o[:300]} at {origin[idx]!r}")
            return
        if idx in expect_hop and isinstance(expect_hop[idx], int) and o.startswith("ok hop="):
            if int(o.split("=")[1]) != expect_hop[idx]:
                bad(f"label '{line}': model buffers it for hop {o.split('=')[1]}, the code for hop {expect_hop[idx]} at {origin[idx]!r}")
                return


def barrier(local, sc, cfg, hev, wire):
    """C02 acceptor: every barrier epoch of the run, projected to the labels of YgmVerif.Barrier, must be
    accepted by the model's `step`; contributed / consumed count pairs must equal the model's."""
    n = cfg.n
    # pass 1: counters before every event, barrier ordinals, callback windows
    sent, recvd, busy, cbs, bars = [0] * n, [0] * n, [0] * n, [0] * n, [0] * n
    snap = {}            # barrier ordinal -> (index in hev of first bar+, counters there)
    ordinal = []         # per event: barrier ordinal of rank at that event (for bar/brc events)
    inbar = [False] * n
    cbwin = {}           # index of cb+ -> (k, j)
    open_cb = [None] * n
    depth_at_cb = [0] * n
    for i, ev in enumerate(hev):
        r, k = ev.r, ev.kind
        ordinal.append(bars[r] - (1 if inbar[r] else 0))
        if k == "k:bar+":
            e = bars[r]
            if e not in snap:
                snap[e] = (i, list(sent), list(recvd), list(busy), list(cbs))
            ordinal[-1] = e
            bars[r] += 1
            inbar[r] = True
        elif k == "k:bar-":
            inbar[r] = False
        elif k in ("k:as+", "k:qm"):
            sent[r] += 1
            if open_cb[r] is not None and busy[r] == depth_at_cb[r]:
                cbwin[open_cb[r]][0] += 1
        elif k == "k:ex+":
            busy[r] += 1
        elif k == "k:ex-":
            busy[r] -= 1
            recvd[r] += 1
        elif k == "k:rcb":
            cbs[r] += 1
            if open_cb[r] is not None and busy[r] == depth_at_cb[r]:
                cbwin[open_cb[r]][1] += 1
        elif k == "k:cb+":
            cbs[r] -= 1
            open_cb[r] = i
            depth_at_cb[r] = busy[r]
            cbwin[i] = [0, 0]
        elif k == "k:cb-":
            open_cb[r] = None
    nb = min(bars) if bars else 0
    lines, origin = [], []
    for e in range(nb):
        i0, s0, r0, b0, c0 = snap[e]
        lines.append("init %d %s %s %s %s" % (n, ",".join(map(str, s0)), ",".join(map(str, r0)), ",".join(map(str, b0)), ",".join(map(str, c0))))
        origin.append((e, None))
        exited = 0
        open_cb = [None] * n
        busy = list(b0)
        depth_at_cb = [0] * n
        for i in range(i0, len(hev)):
            ev = hev[i]
            r, k = ev.r, ev.kind
            lab = None
            if k in ("k:as+", "k:qm"):
                if not (open_cb[r] is not None and busy[r] == depth_at_cb[r]):
                    lab = "issue %d" % r
            elif k == "k:ex+":
                busy[r] += 1
                lab = "start %d" % r
            elif k == "k:ex-":
                busy[r] -= 1
                lab = "finish %d" % r
            elif k == "k:rcb":
                if not (open_cb[r] is not None and busy[r] == depth_at_cb[r]):
                    lab = "regcb %d" % r
            elif k == "k:cb+":
                open_cb[r] = i
                depth_at_cb[r] = busy[r]
                lab = "runcb %d %d %d" % (r, cbwin[i][0], cbwin[i][1])
            elif k == "k:cb-":
                open_cb[r] = None
            elif ordinal[i] == e:
                if k == "k:bar+":
                    lab = "enter %d" % r
                elif k == "k:brc+":
                    lab = "contribute %d %s %s" % (r, ev.f[0], ev.f[1])
                elif k == "k:brc-":
                    lab = "result %d %s %s" % (r, ev.f[0], ev.f[1])
                elif k == "k:bar-":
                    lab = "exit %d" % r
                    exited += 1
            if lab:
                lines.append(lab)
                origin.append((e, i))
            if exited == n:
                break
    if not lines:
        return
    outs = C.model("barrier", lines)
    local.count("barrier_labels", len(lines))
    local.count("barrier_epochs", nb)
    for (line, o, (e, i)) in zip(lines, outs, origin):
        if not o.startswith("ok"):
            ev = hev[i] if i is not None else None
            local.corr_failures.append({"relation": "real event history accepted by YgmVerif.Barrier.step (C02 acceptor)",
                                        "what": f"barrier #{e}: label '{line}' -> {o}" + (f" at event {ev!r}" if ev else ""),
                                        "case": {"scenario": sc.to_json(), "config": cfg.to_json()}})
            break


def bytes_(local, sc, cfg, hev, wire):
    """C07 acceptor: buffering and flushing of every rank replayed through YgmVerif.Bytes: every physical send must
    carry exactly the model's front buffer, be justified (over capacity, or at a flush point), flush_to_capacity must
    run to completion, and both byte counters must equal the real ones at every hook that reports them."""
    n = cfg.n
    lines, origin = [f"reset {cfg.cap}"], [None]
    win = {r: [] for r in range(n)}
    hstack = {r: [] for r in range(n)}
    from lib import traffic as T
    for ev in hev:
        k, r = ev.kind, ev.r
        lab = None
        if k in T.HOPEN:
            hstack[r].append(k)
        elif k in T.HCLOSE:
            if hstack[r]:
                hstack[r].pop()
        elif k == "k:lp+":
            # a local_progress the program did not call (e.g. from inside a back-pressure wait) is no flush point —
            # unless it runs directly inside barrier(), which is a flush point as a whole
            user = (bool(hstack[r]) and hstack[r][-1] in ("P", "W")) or (bool(win[r]) and win[r][-1] == "ba")
            win[r].append("lp" if user else "lx")
        elif k == "k:bar+":
            win[r].append("ba")
        elif k == "k:bar-":
            if win[r] and win[r][-1] == "ba":
                win[r].pop()
        elif k in ("k:as+", "k:bc+", "k:hnr+", "k:fl+"):
            win[r].append(k[2:4])
        elif k in ("k:as-", "k:bc-", "k:hnr-", "k:fl-", "k:lp-"):
            if win[r]:
                win[r].pop()
            in_walk = "hn" in win[r]
            if k == "k:hnr-":
                lab = f"capend {r} {ev.f[0]} {ev.f[1]}"
            elif k in ("k:as-", "k:bc-"):
                lab = (f"check {r} {ev.f[1]} {ev.f[2]}" if in_walk else f"capend {r} {ev.f[1]} {ev.f[2]}")
            elif k == "k:lp-":
                lab = f"check {r} {ev.f[1]} {ev.f[2]}"
        elif k == "k:pk":
            lab = f"add {r} {ev.f[0]} {ev.f[1]}"
        elif k == "k:qm":
            lab = f"add {r} {ev.f[0]} {ev.f[1]}"
        elif k == "k:fw":
            lab = f"add {r} {ev.f[1]} {ev.f[2]}"
        elif k == "k:sc":
            lab = f"sendDone {r} {ev.f[0]}"
        elif k == "k:fsb":
            inner = win[r][-1] if win[r] else None
            if inner in ("fl", "lp", "ba"):
                lab = f"pointsend {r} {ev.f[0]} {ev.f[1]}"
            else:
                lab = f"capsend {r} {ev.f[0]} {ev.f[1]}"
        if lab:
            lines.append(lab)
            origin.append(ev)
    outs = C.model("bytes", lines)
    local.count("bytes_labels", len(lines))
    for line, o, ev in zip(lines, outs, origin):
        if not o.startswith("ok"):
            local.corr_failures.append({"relation": "buffering / flushing accepted by YgmVerif.Bytes (C07 acceptor)",
                                        "what": f"label '{line}' -> {o} at {ev!r}",
                                        "case": {"scenario": sc.to_json(), "config": cfg.to_json()}})
            return


def barrier_me(local, sc, cfg, hev, wire):
    """C02 acceptor, multi-epoch: the WHOLE run (all barriers, overlapping epochs included) projected to the labels of
    YgmVerif.BarrierME and replayed through its step, with the real operands / results of every MPI_Iallreduce."""
    n = cfg.n
    busy = [0] * n
    open_cb, depth_at_cb, cbwin = [None] * n, [0] * n, {}
    for i, ev in enumerate(hev):          # pass 1: what each callback window issues / registers at its own level
        r, k = ev.r, ev.kind
        if k == "k:ex+":
            busy[r] += 1
        elif k == "k:ex-":
            busy[r] -= 1
        elif k in ("k:as+", "k:qm") and open_cb[r] is not None and busy[r] == depth_at_cb[r]:
            cbwin[open_cb[r]][0] += 1
        elif k == "k:rcb" and open_cb[r] is not None and busy[r] == depth_at_cb[r]:
            cbwin[open_cb[r]][1] += 1
        elif k == "k:cb+":
            open_cb[r], depth_at_cb[r] = i, busy[r]
            cbwin[i] = [0, 0]
        elif k == "k:cb-":
            open_cb[r] = None
    lines, origin = [f"init {n}"], [None]
    busy = [0] * n
    open_cb, depth_at_cb = [None] * n, [0] * n
    for i, ev in enumerate(hev):
        r, k = ev.r, ev.kind
        lab = None
        in_cb = open_cb[r] is not None and busy[r] == depth_at_cb[r]
        if k in ("k:as+", "k:qm"):
            lab = None if in_cb else f"issue {r}"
        elif k == "k:ex+":
            busy[r] += 1
            lab = f"start {r}"
        elif k == "k:ex-":
            busy[r] -= 1
            lab = f"finish {r}"
        elif k == "k:rcb":
            lab = None if in_cb else f"regcb {r}"
        elif k == "k:cb+":
            open_cb[r], depth_at_cb[r] = i, busy[r]
            lab = f"runcb {r} {cbwin[i][0]} {cbwin[i][1]}"
        elif k == "k:cb-":
            open_cb[r] = None
        elif k == "k:bar+":
            lab = f"enter {r}"
        elif k == "k:brc+":
            lab = f"contribute {r} {ev.f[0]} {ev.f[1]}"
        elif k == "k:brc-":
            lab = f"result {r} {ev.f[0]} {ev.f[1]}"
        elif k == "k:bar-":
            lab = f"exit {r}"
        if lab:
            lines.append(lab)
            origin.append(ev)
    outs = C.model("barrierme", lines)
    local.count("barrierme_labels", len(lines))
    for line, o, ev in zip(lines, outs, origin):
        if not o.startswith("ok"):
            local.corr_failures.append({"relation": "whole multi-barrier history accepted by YgmVerif.BarrierME.step (C02 acceptor)",
                                        "what": f"label '{line}' -> {o} at {ev!r}",
                                        "case": {"scenario": sc.to_json(), "config": cfg.to_json()}})
            return
        if line.startswith("exit "):
            # C02ME_rounds_after_quiescence on the real history: rounds posted beyond the first quiescent state of this barrier
            if "after=" in o:
                a = int(o.split("after=")[1].split()[0])
                local.count(f"barrier exits: {a} rounds after the first quiescent state")
                if a > 2:
                    local.corr_failures.append({"relation": "C02ME_rounds_after_quiescence on the real history (a rank leaves within two rounds of quiescence)",
                                                "what": f"label '{line}' -> {o} at {ev!r}", "case": {"scenario": sc.to_json(), "config": cfg.to_json()}})
                    return
            else:
                local.corr_failures.append({"relation": "C02ME_exit_implies_quiescent on the real history (a quiescent state of this barrier was seen before the exit)",
                                            "what": f"label '{line}' -> {o} at {ev!r}", "case": {"scenario": sc.to_json(), "config": cfg.to_json()}})
                return
