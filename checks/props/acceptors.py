"""Trace acceptors: project the event history of a real run to the labels of a Lean model and let
`ygm_model <mode>` replay them through the model's `step`.  Filled in as the models land."""
from lib import common as C


def atomic(local, sc, cfg, hev, wire):
    return


def flush(local, sc, cfg, hev, wire):
    return
