"""Scenario generation, execution and trace analysis for the `traffic` harness
(C01 C02 C03 C05 C07 C08).  All randomness derives from one PRNG state."""
import os
import re
import tempfile

from . import common as C

M64 = (1 << 64) - 1
HEADER = 8         # sizeof(header_t): uint32 size + int32 dest  (routing != NONE)


def mix(z):
    z = (z + 0x9e3779b97f4a7c15) & M64
    z = ((z ^ (z >> 30)) * 0xbf58476d1ce4e5b9) & M64
    z = ((z ^ (z >> 27)) * 0x94d049bb133111eb) & M64
    return z ^ (z >> 31)


class Rng:
    def __init__(self, seed):
        self.s = seed & M64

    def next(self):
        self.s = (self.s + 0x9e3779b97f4a7c15) & M64
        z = self.s
        z = ((z ^ (z >> 30)) * 0xbf58476d1ce4e5b9) & M64
        z = ((z ^ (z >> 27)) * 0x94d049bb133111eb) & M64
        return z ^ (z >> 31)

    def below(self, n):
        return self.next() % n if n else 0

    def choice(self, xs):
        return xs[self.below(len(xs))]

    def chance(self, pct):
        return self.below(100) < pct


class Scenario:
    """ops: list of (epoch, rank, kind, fields...)"""

    def __init__(self, n, epochs, params, sizes, ops):
        self.n, self.epochs, self.params, self.sizes, self.ops = n, epochs, params, sizes, ops

    def text(self):
        out = [f"epochs {self.epochs}"]
        for k, v in self.params.items():
            out.append(f"param {k} {v}")
        out.append("sizes " + " ".join(map(str, self.sizes)))
        for op in self.ops:
            out.append("op " + " ".join(map(str, op)))
        return "\n".join(out) + "\n"

    def to_json(self):
        return {"n": self.n, "epochs": self.epochs, "params": self.params, "sizes": self.sizes, "ops": [list(o) for o in self.ops]}

    @staticmethod
    def from_json(d):
        return Scenario(d["n"], d["epochs"], d["params"], d["sizes"], [tuple(o) for o in d["ops"]])


def gen_scenario(rng, n, epochs=2, ops_per_rank=6, sizes=(0, 8, 100, 600), ttl=2, maxfan=2, hprog=20, hcb=5, hbc=0,
                 p_bcast=10, p_mcast=5, p_progress=8, p_mask=5, p_cb=5, p_wait=0, tail=True, uneven=True, fstate=0, subcomm=0, other=0, p_stats=0, precomm=None):
    params = {"maxfan": maxfan, "hprog": hprog, "hcb": hcb, "hbc": hbc}
    if fstate:
        params["fstate"] = 1      # every message uses a function object with 8 bytes of state
    if precomm is not None:
        params["precomm"] = int(precomm)   # a second ygm::comm is built first under another buffer size / routing (setenv between the two)
    if subcomm:
        params["subcomm"] = 1     # ygm::comm is built on a communicator with reversed rank order
    ops = []
    uid = [1 << 20]

    def fresh():
        uid[0] += 1
        return uid[0]
    flag = [0]
    last = epochs + (1 if tail else 0)
    for e in range(last):
        if other and e < epochs and rng.chance(other):
            # every rank first sends on / synchronises a SECOND ygm::comm of the same process (k messages, barrier)
            ops.append((e, -1, "other", rng.below(4)))
        for r in range(n):
            k = rng.below(ops_per_rank * 2 + 1) if uneven else ops_per_rank
            if uneven and rng.chance(15):
                k = 0                      # a rank that goes straight to the barrier
            i = 0
            while i < k:
                i += 1
                if e == epochs:            # tail batch before the destructor barrier: plain asyncs / bcasts only
                    if rng.chance(p_bcast):
                        ops.append((e, r, "bcast", fresh(), rng.choice(sizes), 0))
                    else:
                        ops.append((e, r, "async", fresh(), rng.below(n), rng.choice(sizes), rng.below(ttl + 1)))
                    continue
                if p_stats and rng.chance(p_stats):
                    ops.append((e, r, "statsreset"))     # comm::stats_reset() on this rank only, between two sends
                x = rng.below(100)
                if x < p_bcast:
                    ops.append((e, r, "bcast", fresh(), rng.choice(sizes), 0))
                elif x < p_bcast + p_mcast:
                    d = [rng.below(n) for _ in range(1 + rng.below(min(4, n) + 1))]
                    ops.append((e, r, "mcast", fresh(), rng.choice(sizes), ",".join(map(str, d))))
                elif x < p_bcast + p_mcast + p_progress:
                    ops.append((e, r, "progress"))
                elif x < p_bcast + p_mcast + p_progress + p_mask:
                    m = 1 + rng.below(4)
                    ops.append((e, r, "mask", m))
                    for _ in range(m):
                        ops.append((e, r, "async", fresh(), rng.below(n), rng.choice(sizes), rng.below(ttl + 1)))
                elif x < p_bcast + p_mcast + p_progress + p_mask + p_cb:
                    ops.append((e, r, "cb", fresh(), rng.below(n), rng.choice(sizes)))
                else:
                    ops.append((e, r, "async", fresh(), rng.below(n), rng.choice(sizes), rng.below(ttl + 1)))
        if p_wait and n >= 2 and e < epochs:
            # even ranks may wait for a flag that an odd rank sets from its main program (no cycles)
            for r in range(0, n, 2):
                if rng.chance(p_wait):
                    setter = 1 + 2 * rng.below(n // 2)
                    f = flag[0]
                    flag[0] += 1
                    ops.append((e, setter, "setflag", fresh(), r, f))
                    ops.append((e, r, "waitflag", f))
    return Scenario(n, epochs, params, list(sizes), ops)


# ---- expected message DAG (mirrors handler_body of harness/traffic.cpp)

def expected(sc):
    """returns exec: {uid: sorted list of ranks that must execute it}, info: {uid: dict}"""
    n, P = sc.n, sc.params
    exp, info = {}, {}

    def handler(uid, ttl, epoch, rank_ctx):
        # children are the same on whichever rank executes (p2p: exactly one rank)
        if ttl <= 0:
            return
        h = mix((uid * 0x51ed27) & M64)
        fan = h % (P["maxfan"] + 1)
        h = mix(h)
        for i in range(fan):
            cu = uid * 8 + i + 1
            hh = mix(cu)
            dest = hh % n
            hh = mix(hh)
            size = sc.sizes[hh % len(sc.sizes)]
            hh = mix(hh)
            if hh % 100 < P["hbc"]:
                add(cu, list(range(n)), size, epoch, 0, "bcast", "h")
            else:
                add(cu, [dest], size, epoch, ttl - 1, "async", "h")
        progress = (h % 100) < P["hprog"]
        info[uid]["hprogress"] = progress
        h = mix(h)
        if (h % 100) < P["hcb"]:
            cu = uid * 8 + 7
            add(cu, [mix(cu) % n], 8, epoch, 0, "async", "c")
        h = mix(h)
        if (h % 100) < P.get("hburst", 0):
            for j in range(P.get("hburstk", 0)):
                cu = uid * 4096 + 16 + j
                add(cu, [mix(cu) % n], 8, epoch, 0, "async", "h")

    def add(uid, ranks, size, epoch, ttl, kind, ctx):
        assert uid not in exp, uid
        exp[uid] = sorted(ranks)
        info[uid] = {"size": size, "epoch": epoch, "ttl": ttl, "kind": kind, "ctx": ctx}
        if kind == "async":
            handler(uid, ttl, epoch, ranks[0])

    for op in sc.ops:
        e, r, kind = op[0], op[1], op[2]
        if kind == "async":
            add(op[3], [op[4]], op[5], e, op[6], "async", "m")
        elif kind == "bcast":
            add(op[3], list(range(n)), op[4], e, 0, "bcast", "m")
        elif kind == "mcast":
            add(op[3], [int(x) for x in str(op[5]).split(",") if x != ""], op[4], e, 0, "mcast", "m")
        elif kind == "setflag":
            add(op[3], [op[4]], 4, e, 0, "flag", "m")
        elif kind == "cb":
            add(op[3], [op[4]], op[5], e, 1, "async", "c")
    return exp, info


# ---- running

class Config:
    def __init__(self, nodes, ppn, routing="NONE", buf_kb=None, buf_bytes=None, irecvs=8, isends_wait=4, issend=8,
                 policy="uniform", eager=50, sim_seed=1, deviate=None, hold=None, placement=None):
        self.nodes, self.ppn, self.routing = nodes, ppn, routing
        self.buf_kb, self.irecvs, self.isends_wait, self.issend = buf_kb, irecvs, isends_wait, issend
        self.policy, self.eager, self.sim_seed = policy, eager, sim_seed
        self.placement = placement        # "cyclic": world rank r lives on node r % nodes (round-robin) instead of block placement
        self.hold = hold                  # (dst, steps): deliveries to dst are delayed by that many scheduling steps
        self.deviate = deviate or {}      # systematic exploration: {decision index: offset from the seeded choice}

    @property
    def n(self):
        return self.nodes * self.ppn

    @property
    def cap(self):
        return 16 * 1024 * 1024 if self.buf_kb is None else self.buf_kb * 1024

    def env(self):
        e = {"SIMMPI_SPIN": 300000,        # traffic scenarios are small: that many requests without a blocking MPI call is a spin
             "YGM_COMM_ROUTING": self.routing, "YGM_COMM_NUM_IRECVS": self.irecvs,
             "YGM_COMM_NUM_ISENDS_WAIT": self.isends_wait, "YGM_COMM_ISSEND_FREQ": self.issend}
        if self.buf_kb is not None:
            e["YGM_COMM_BUFFER_SIZE_KB"] = self.buf_kb
        if getattr(self, "deviate", None):
            e["SIMMPI_DEVIATE"] = ",".join(f"{j}:{a}" for j, a in sorted((int(k), int(v)) for k, v in self.deviate.items()))
        if getattr(self, "placement", None):
            e["SIMMPI_PLACEMENT"] = self.placement
        if getattr(self, "default_irecv_size", None):
            e["YGM_COMM_IRECV_SIZE_KB"] = None      # unset: the library's own default receive-slot size (1 GiB)
        if getattr(self, "hold", None):
            e["SIMMPI_HOLD"] = f"{int(self.hold[0])}:{int(self.hold[1])}"
        return e

    def key(self):
        return (self.nodes, self.ppn, self.routing, self.buf_kb, self.irecvs, self.isends_wait, self.issend, self.policy, self.eager)

    def to_json(self):
        return dict(self.__dict__)

    @staticmethod
    def from_json(d):
        c = Config(1, 1)
        c.__dict__.update(d)
        return c


def run(binary, sc, cfg, timeout=180, log_bytes=0, max_steps=4000000):
    with tempfile.NamedTemporaryFile("w", suffix=".scn", delete=False) as f:
        f.write(sc.text())
        path = f.name
    try:
        return C.run_sim(binary, [path], nodes=cfg.nodes, ppn=cfg.ppn, env=cfg.env(), sim_seed=cfg.sim_seed,
                         policy=cfg.policy, eager_pct=cfg.eager, want_log=True, log_bytes=log_bytes, timeout=timeout,
                         max_steps=max_steps)
    finally:
        os.unlink(path)


# ---- trace

class Ev:
    __slots__ = ("t", "r", "kind", "f", "raw")

    def __init__(self, t, r, kind, f, raw):
        self.t, self.r, self.kind, self.f, self.raw = t, r, kind, f, raw

    def __repr__(self):
        return f"{self.t} r{self.r} {self.kind} {' '.join(self.f)}"


_H = re.compile(r"^(\d+) h r=(\d+) (.*)$")


def drop_other_comm(log):
    """scenario op `other`: what a rank logs between its Q+ and Q- events belongs to a second ygm::comm of the same
    process.  Remove those lines, the wire lines of the communicators used inside such windows, and the deliveries of
    the messages sent there; what remains is the history of the communicator under test."""
    if not any(" Q+" in l for l in log):
        return log
    inq, comms, msgs, keep = set(), set(), set(), []
    rx = re.compile(r"\br=(\d+)\b")
    for line in log:
        m = _H.match(line)
        if m:
            r, txt = int(m.group(2)), m.group(3)
            if txt == "Q+":
                inq.add(r)
            elif txt == "Q-":
                inq.discard(r)
            elif r not in inq:
                keep.append(line)
            continue
        mr = rx.search(line)
        if mr and int(mr.group(1)) in inq:
            sp = line.split(" ", 2)
            if len(sp) < 2:
                continue                     # a line cut short by a crashing run
            d = C.kv(sp[2]) if len(sp) > 2 else {}
            if sp[1] in ("isend", "irecv", "iallreduce") and "comm" in d:
                comms.add(d["comm"])
            if sp[1] == "isend" and "msg" in d:
                msgs.add(d["msg"])
            continue
        keep.append(line)
    out = []
    for line in keep:
        if not _H.match(line):
            sp = line.split(" ", 2)
            if len(sp) < 2:
                continue                     # a line cut short by a crashing run
            d = C.kv(sp[2]) if len(sp) > 2 else {}
            if d.get("comm") in comms or (sp[1] == "deliver" and d.get("msg") in msgs):
                continue
        out.append(line)
    return out


def parse(log):
    """returns (harness events incl. hooks, wire events) in log order.  Ranks are YGM ranks: when the communicator is not
    MPI_COMM_WORLD (scenario param subcomm) the process index of the log is mapped through the harness's `ID` events."""
    log = drop_other_comm(log)
    ygm_of = {}
    for line in log:
        m = _H.match(line)
        if m and m.group(3).startswith("ID "):
            ygm_of[int(m.group(2))] = int(m.group(3).split()[1])
    ident = all(k == v for k, v in ygm_of.items())
    hev, wire = [], []
    for i, line in enumerate(log):
        m = _H.match(line)
        if m:
            w = m.group(3).split(" ")
            if w[0] == "k" and len(w) < 5:
                continue          # truncated line of a rank that died
            rr = int(m.group(2))
            rr = rr if ident else ygm_of.get(rr, rr)
            if w[0] == "k":
                hev.append(Ev(i, rr, "k:" + w[1], w[2:], line))
            elif w[0] != "ID":
                hev.append(Ev(i, rr, w[0], w[1:], line))
        else:
            sp = line.split(" ", 2)
            if len(sp) >= 2:
                d = C.kv(sp[2]) if len(sp) > 2 else {}
                if not ident:
                    for key in ("r", "dst", "src"):
                        if key in d and d[key].lstrip("-").isdigit():
                            d[key] = str(ygm_of.get(int(d[key]), int(d[key])))
                wire.append((i, sp[1], d))
    return hev, wire


def fail(res, what, signature, sc, cfg, extra=None):
    case = {"scenario": sc.to_json(), "config": cfg.to_json()}
    if extra:
        case["detail"] = extra
    res.oracle_failures.append({"what": what, "signature": signature, "case": case})


def verdict_signature(sr):
    """a stable identification of a non-ok run"""
    if sr.verdict.startswith("rank-failed"):
        m = re.search(r"what\(\):\s*(.*)", sr.stderr)
        msg = m.group(1).strip() if m else ""
        u = re.search(r"SIMMPI-USAGE-ERROR: (.*)", sr.stderr)
        if u:
            msg = "MPI usage error: " + u.group(1).strip()
        msg = re.sub(r"/[^ ]*/include/", "include/", msg)
        return "abort " + sr.verdict.split(":", 1)[1].strip().split(" ", 1)[-1] + " " + msg[:160]
    if sr.verdict in ("deadlock", "deadlock-spin", "livelock"):
        modes = re.sub(r"r\d+:", "", sr.blocked)
        modes = re.sub(r"inflight_to=\d+", lambda m: "inflight" if m.group(0) != "inflight_to=0" else "idle", modes)
        modes = re.sub(r",?unexp=\d+", "", modes)
        modes = re.sub(r"comm=\d+,", "", modes)
        kinds = sorted(set(modes.split()))
        return sr.verdict + " " + " ".join(kinds)
    return sr.verdict


def oracle_delivery(res, sc, cfg, hev, exp, info):
    """C01/C05: every uid executed exactly once on each expected rank, payload intact"""
    got = {}
    ok = True
    for ev in hev:
        if ev.kind == "X":
            uid = int(ev.f[0])
            got.setdefault(uid, []).append(ev.r)
            if ev.f[2] != "1":
                fail(res, f"payload of message {uid} corrupted at rank {ev.r}", "payload-corrupt", sc, cfg, {"uid": uid})
                ok = False
            if uid in info and int(ev.f[4]) != info[uid]["size"]:
                fail(res, f"payload size of {uid} is {ev.f[4]}, sent {info[uid]['size']}", "payload-size", sc, cfg, {"uid": uid})
                ok = False
    for uid, ranks in exp.items():
        g = sorted(got.get(uid, []))
        if g != ranks:
            kind = info[uid]["kind"]
            if len(g) < len(ranks):
                sig = "lost-" + kind
            elif len(g) > len(ranks):
                sig = "duplicate-" + kind
            else:
                sig = "misdelivered-" + kind
            fail(res, f"message {uid} ({kind}) executed on ranks {g}, expected {ranks}", sig, sc, cfg, {"uid": uid, "got": g, "expected": ranks})
            ok = False
            break
    extra = [u for u in got if u not in exp]
    if extra:
        fail(res, f"handler ran for unknown uid {extra[0]}", "phantom-message", sc, cfg, {"uid": extra[0]})
        ok = False
    return ok


def barrier_windows(hev, n):
    """per rank: list of (enter_t, exit_t) from the bar+/bar- hooks, in order"""
    win = {r: [] for r in range(n)}
    for ev in hev:
        if ev.kind == "k:bar+":
            win[ev.r].append([ev.t, None])
        elif ev.kind == "k:bar-":
            if win[ev.r] and win[ev.r][-1][1] is None:
                win[ev.r][-1][1] = ev.t
    return win


def oracle_barrier(res, sc, cfg, hev, info):
    """C02: when barrier #i returns on any rank, every rank has entered #i and every handler / callback of work
    issued before it (epoch tag <= i) has finished; nothing of epoch <= i starts afterwards"""
    n = cfg.n
    win = barrier_windows(hev, n)
    nb = min(len(w) for w in win.values())
    ok = True
    for i in range(nb):
        exits = [win[r][i][1] for r in range(n) if win[r][i][1] is not None]
        if not exits:
            continue
        first_exit = min(exits)
        late_enter = [r for r in range(n) if win[r][i][0] > first_exit]
        if late_enter:
            fail(res, f"barrier #{i} returned on some rank before rank {late_enter[0]} entered it", "barrier-exit-before-enter", sc, cfg, {"barrier": i})
            ok = False
        for ev in hev:
            if ev.t > first_exit and ev.kind in ("X", "x") :
                uid = int(ev.f[0])
                ep = info.get(uid, {}).get("epoch")
                if ep is not None and ep <= i:
                    fail(res, f"handler event '{ev.kind} {uid}' (issued in epoch {ep}) at rank {ev.r} after barrier #{i} had returned on some rank",
                         "handler-after-barrier", sc, cfg, {"barrier": i, "uid": uid, "t": ev.t, "first_exit": first_exit})
                    ok = False
                    break
            if ev.t > first_exit and ev.kind in ("C", "c"):
                uid = int(ev.f[0])
                ep = info.get(uid, {}).get("epoch")
                if ep is not None and ep <= i:
                    fail(res, f"pre-barrier callback {uid} of epoch {ep} ran after barrier #{i} returned", "callback-after-barrier", sc, cfg, {"barrier": i, "uid": uid})
                    ok = False
                    break
        if not ok:
            break
    return ok, nb


def oracle_atomic(res, sc, cfg, hev):
    """C08: no handler inside another, none while a mask is alive; local rules on the hooks"""
    depth = {r: 0 for r in range(cfg.n)}
    mask = {r: 0 for r in range(cfg.n)}
    ok = True
    for ev in hev:
        r = ev.r
        if ev.kind == "k:im+":
            mask[r] += 1
        elif ev.kind == "k:im-":
            mask[r] = 0          # the code's destructor re-enables unconditionally
        elif ev.kind == "k:ex+":
            if depth[r] > 0:
                fail(res, f"handler started on rank {r} while another handler was active", "nested-handler", sc, cfg, {"t": ev.t})
                ok = False
                break
            if mask[r] > 0:
                fail(res, f"handler started on rank {r} while an interrupt_mask was alive", "handler-under-mask", sc, cfg, {"t": ev.t})
                ok = False
                break
            depth[r] += 1
        elif ev.kind == "k:ex-":
            depth[r] -= 1
        elif ev.kind == "X" and int(ev.f[5]) != 1:
            fail(res, f"harness saw handler depth {ev.f[5]} on rank {r}", "nested-handler", sc, cfg, {"t": ev.t})
            ok = False
            break
    return ok


def summarize(hev, wire):
    d = {"asyncs": 0, "handlers": 0, "forwards": 0, "isends": 0, "bcasts": 0, "callbacks": 0, "masked": 0, "hprogress": 0}
    for ev in hev:
        if ev.kind == "A":
            d["asyncs"] += 1
        elif ev.kind == "X":
            d["handlers"] += 1
        elif ev.kind == "k:fw":
            d["forwards"] += 1
        elif ev.kind == "k:fsb":
            d["isends"] += 1
        elif ev.kind == "BC":
            d["bcasts"] += 1
        elif ev.kind == "C":
            d["callbacks"] += 1
        elif ev.kind == "M+":
            d["masked"] += 1
        elif ev.kind == "P" :
            d["hprogress"] += 1
    return d


def oracle_bytes(res, sc, cfg, hev, producers_only=False):
    """C07: the byte-counter bounds, evaluated on the real counters exported by the hooks."""
    cap = cfg.cap
    hdr = 0 if cfg.routing == "NONE" else HEADER
    depth = {r: 0 for r in range(cfg.n)}
    win = {r: 0 for r in range(cfg.n)}       # inside flush_all / a local_progress the USER called (flush points)
    hstack = {r: [] for r in range(cfg.n)}   # innermost harness-level call: A/BC/MC (issuing), P/W (progress / wait), X, C
    lpkind = {r: [] for r in range(cfg.n)}
    mask = {r: 0 for r in range(cfg.n)}
    lastpk = {r: 0 for r in range(cfg.n)}
    maxmsg = max([0] + [int(ev.f[1]) for ev in hev if ev.kind == "k:pk"])
    ok = True
    worst_unsent, worst_pending = 0, 0
    for ev in hev:
        r, k = ev.r, ev.kind
        if k == "k:ex+":
            depth[r] += 1
        elif k == "k:ex-":
            depth[r] -= 1
        elif k in HOPEN:
            hstack[r].append(k)
        elif k in HCLOSE:
            if hstack[r]:
                hstack[r].pop()
        elif k in ("k:fl+", "k:bar+"):
            win[r] += 1           # flush_all, and everything else inside barrier(): a barrier is a flush point as a whole
        elif k in ("k:fl-", "k:bar-"):
            win[r] -= 1
        elif k == "k:lp+":
            # local_progress is a flush point only when the program called it (directly or through local_wait_until)
            user = bool(hstack[r]) and hstack[r][-1] in ("P", "W")
            lpkind[r].append(user)
            win[r] += 1 if user else 0
        elif k == "k:lp-":
            if lpkind[r] and lpkind[r].pop():
                win[r] -= 1
        elif k == "k:im+":
            mask[r] = 1
        elif k == "k:im-":
            mask[r] = 0
        elif k == "k:pk":
            lastpk[r] = int(ev.f[1])
            if depth[r] == 0:
                worst_unsent = max(worst_unsent, int(ev.f[2]))
                if int(ev.f[2]) > cap + int(ev.f[1]):
                    fail(res, f"unsent bytes {ev.f[2]} exceed capacity {cap} plus the message just packed ({ev.f[1]}) on rank {r}", "unsent-bound", sc, cfg, {"t": ev.t})
                    ok = False
                    break
        elif k == "k:as-":
            if depth[r] == 0 and int(ev.f[1]) > cap:
                fail(res, f"async returned to the main program with {ev.f[1]} unsent bytes > capacity {cap} on rank {r}", "unsent-after-async", sc, cfg, {"t": ev.t})
                ok = False
                break
            if producers_only:
                worst_pending = max(worst_pending, int(ev.f[2]))
                if int(ev.f[2]) > 2 * cap + maxmsg:
                    fail(res, f"producer rank {r} has {ev.f[2]} bytes posted-but-incomplete > 2*{cap}+{maxmsg}", "pending-bound", sc, cfg, {"t": ev.t})
                    ok = False
                    break
        elif k == "k:as+":
            if producers_only and depth[r] == 0 and not mask[r] and int(ev.f[2]) > cap:
                fail(res, f"async proceeded on producer rank {r} with {ev.f[2]} bytes in flight > capacity {cap}", "no-backpressure", sc, cfg, {"t": ev.t})
                ok = False
                break
        elif k == "k:fsb":
            before = int(ev.f[2]) + int(ev.f[1])
            if win[r] == 0 and before <= cap:
                fail(res, f"rank {r} put a buffer of {ev.f[1]} bytes on the wire outside a flush point with only {before} <= {cap} bytes unsent", "early-send", sc, cfg, {"t": ev.t})
                ok = False
                break
    return ok, worst_unsent, worst_pending


def analyze(res, sc, cfg, sr, want=("delivery", "barrier", "atomic"), known_deadlock_sig=None):
    """run the requested oracles on one finished run; returns dict of measurements"""
    hev, wire = parse(sr.log)
    exp, info = expected(sc)
    out = {"verdict": sr.verdict, "steps": sr.steps}
    if sr.verdict != "ok":
        sig = verdict_signature(sr)
        fail(res, f"run did not complete: {sr.verdict}; blocked: {sr.blocked[:300]}; stderr: {sr.stderr[-300:]}", sig, sc, cfg)
        out["failed"] = sig
        return out, hev, wire
    if "delivery" in want:
        oracle_delivery(res, sc, cfg, hev, exp, info)
    if "barrier" in want:
        _, nb = oracle_barrier(res, sc, cfg, hev, info)
        out["barriers"] = nb
    if "atomic" in want:
        oracle_atomic(res, sc, cfg, hev)
    out.update(summarize(hev, wire))
    return out, hev, wire


HOPEN = ("A", "BC", "MC", "P", "W", "X", "C")
HCLOSE = ("a", "bc", "mc", "p", "w", "x", "c")
LAYOUTS_QUICK = [(1, 1), (1, 4), (2, 2), (2, 3), (3, 2), (4, 1), (3, 3)]
ROUTINGS = ["NONE", "NR", "NLNR"]
POLICIES = ["uniform", "racer", "starve", "late", "burst"]


def find_root_uid(n, params, sizes, want_dests, start=(1 << 20) + 5000):
    """smallest uid >= start whose handler (ttl 1) sends exactly to want_dests, in order, as plain asyncs,
    without handler-side progress or callback (mirrors handler_body)"""
    uid = start
    while True:
        uid += 1
        h = mix((uid * 0x51ed27) & M64)
        fan = h % (params["maxfan"] + 1)
        if fan != len(want_dests):
            continue
        h = mix(h)
        ok = True
        for i in range(fan):
            cu = uid * 8 + i + 1
            hh = mix(cu)
            if hh % n != want_dests[i]:
                ok = False
                break
            hh = mix(mix(hh))
            if hh % 100 < params["hbc"]:
                ok = False
                break
        if not ok:
            continue
        if (h % 100) < params["hprog"]:
            continue
        if (mix(h) % 100) < params["hcb"]:
            continue
        return uid
