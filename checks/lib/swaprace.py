"""swap() / clear() followed AT ONCE by operations, with no barrier in between (harness/swaprace.cpp), shared by C11 (map),
C12 (set) and C14 (bag).  A.swap(B) exchanges the contents of two containers collectively: an operation issued on A after
swap() returned must act on A's new contents on every rank; an insert issued after clear() returned must survive.
Oracle = the contents a sequential execution gives (the scenario is deterministic: every key is written by one rank)."""
import shutil
import tempfile

from . import common as C

POLICIES = ("racer", "late", "burst", "uniform", "starve")
NK, ROUNDS = 12, 3


def jobs(kind, tier, seed):
    out = []
    lays = ((1, 2), (1, 3), (2, 2)) if tier == "quick" else ((1, 2), (1, 3), (1, 4), (2, 2), (2, 3), (1, 7), (2, 4))
    i = 0
    for (N, P) in lays:
        for kb in (0, 1, None):
            for pol in (POLICIES if tier != "quick" else POLICIES[(i + seed) % 5:] + POLICIES[:(i + seed) % 5]):
                i += 1
                if tier == "quick" and i % 5 not in (0, 1, 2):
                    continue
                out.append({"harness": "swaprace", "kind": kind, "layout": [N, P], "buf_kb": kb, "policy": pol, "sim_seed": seed * 1000 + i,
                            "placement": "cyclic" if (N > 1 and i % 3 == 0) else None})
    return out


def run_job(binary, j):
    env = {}
    if j["buf_kb"] is not None:
        env["YGM_COMM_BUFFER_SIZE_KB"] = j["buf_kb"]
    if j.get("placement"):
        env["SIMMPI_PLACEMENT"] = j["placement"]
    d = tempfile.mkdtemp(prefix="ygmverif-ser-")     # image files of the (de)serialize kinds
    try:
        return C.run_sim(binary, [j["kind"], j["sim_seed"], ROUNDS, NK, d], nodes=j["layout"][0], ppn=j["layout"][1], env=env,
                         sim_seed=j["sim_seed"], policy=j["policy"], want_log=False, timeout=120)
    finally:
        shutil.rmtree(d, ignore_errors=True)


def judge(res, j, sr):
    kind, n = j["kind"], j["layout"][0] * j["layout"][1]
    res.evaluations += 1
    if sr.verdict != "ok":
        res.oracle_failures.append({"what": f"swap/clear scenario ({kind}) did not complete: {sr.verdict} {sr.stderr[-200:]}",
                                    "signature": f"{kind}-swaprace-run-{sr.verdict.split(':')[0].split()[0]}", "case": j})
        return
    A, B = {}, {}
    for r in range(n):
        for l in sr.outs.get(r, []):
            w = l.split(" | B")
            rd = int(w[0].split()[1])
            A.setdefault(rd, []).extend(w[0].split()[3:])
            B.setdefault(rd, []).extend(w[1].split())
    if sorted(A) != list(range(ROUNDS)):
        res.corr_failures.append({"relation": "swaprace harness reports every round", "what": f"rounds {sorted(A)}", "case": j})
        return
    for rd in range(ROUNDS):
        a, b = sorted(A[rd]), sorted(B[rd])
        if kind == "map":
            ea, eb = sorted(f"{k}:7" for k in range(NK)), sorted(f"{k}:{100 * rd + 1}" for k in range(NK))
        elif kind == "set":
            ea, eb = [], []
        elif kind == "ser":       # image = contents at serialize(); A itself holds the later inserts too
            ea = sorted(f"{k}:{100 * rd + 1}" for k in range(NK))
            eb = sorted(ea + [f"{1000 + k}:7" for k in range(NK)])
        elif kind == "deser":     # inserts issued right after deserialize() survive
            ea, eb = sorted([f"{k}:{100 * rd + 1}" for k in range(NK)] + [f"{1000 + k}:7" for k in range(NK)]), []
        elif kind in ("deserset", "deserbag"):
            ea, eb = sorted([str(k) for k in range(NK)] + [str(1000 + k) for k in range(NK)]), []
        else:
            ea, eb = sorted([str(k) for k in range(NK)] + [str(1000 + k) for k in range(NK)]), []
        if a != ea or b != eb:
            wrongA = [x for x in a if x not in ea][:4] + [x for x in ea if x not in a][:4]
            res.oracle_failures.append({"what": f"{kind}: operations issued right after swap() / clear() / serialize() / deserialize() returned were not ordered after it "
                                                f"(round {rd}, {n} ranks, buffer {j['buf_kb']}, {j['policy']}): A differs by {wrongA}, B holds {b[:6]} expected {eb[:6]}",
                                        "signature": f"{kind}-swap-clear-race", "case": j})
            return
    res.distinct.add(("swaprace", kind, tuple(j["layout"]), j["buf_kb"], j["policy"]))
    res.count("swaprace_runs")


def run(res, kind, tier, seed):
    """kind: map | set | bag (swap, clear) | ser (map serialize) | deser | deserset | deserbag (deserialize)"""
    binary, err = C.build_harness("swaprace")
    if binary is None:
        res.corr_failures.append({"relation": "swaprace harness builds against /repo", "what": (err or "")[-600:], "case": None})
        return
    js = jobs(kind, tier, seed)
    for j, sr in C.pmap(lambda j: (j, run_job(binary, j)), js):
        judge(res, j, sr)


def replay(data):
    """True = the recorded failure did not reproduce"""
    j = data.get("case") or {}
    binary, err = C.build_harness("swaprace")
    res = C.Result()
    sr = run_job(binary, j)
    judge(res, j, sr)
    for f in res.oracle_failures:
        print("oracle:", f["signature"], f["what"][:300])
    return not (res.oracle_failures or res.corr_failures)
