"""Shared machinery of the YGM checks: paths, Lean build + axiom audit, harness
build cache, simmpi runner, model driver, verdict + evidence writer.

Everything here derives its paths from __file__ so that the checks also work from
a snapshot / fresh restore (build products live in <verif>/.build and
<verif>/lean/.lake and are recreated on demand)."""
import fcntl
import hashlib
import json
import os
import re
import shutil
import subprocess
import sys
import tempfile
import time

VERIF = os.path.dirname(os.path.dirname(os.path.dirname(os.path.abspath(__file__))))
REPO = os.environ.get("YGM_REPO", "/repo")
BUILD = os.path.join(VERIF, ".build")
LEAN = os.path.join(VERIF, "lean")
SIMMPI = os.path.join(VERIF, "simmpi")
HARNESS = os.path.join(VERIF, "harness")
# evidence of the unchanged tree lives in <verif>/evidence; runs against a scratch copy (YGM_REPO) can be redirected
EVID = os.environ.get("YGM_VERIF_EVIDENCE_DIR") or os.path.join(VERIF, "evidence")
REPLAYS = os.path.join(EVID, "replays")
HOOK_DEFINE = "YGM_VERIF_HOOKS"
ALLOWED_AXIOMS = {"propext", "Classical.choice", "Quot.sound"}
FORBIDDEN = ["sorry", "admit", "native_decide", "bv_decide", "implemented_by", "unsafe ",
             "maxHeartbeats 0", "axiom "]
NCPU = os.cpu_count() or 4


def seed():
    try:
        return int(os.environ.get("VERIF_SEED", "1"))
    except ValueError:
        return 1


def sh(cmd, **kw):
    return subprocess.run(cmd, capture_output=True, text=True, **kw)


class Lock:
    def __init__(self, name):
        os.makedirs(BUILD, exist_ok=True)
        self.path = os.path.join(BUILD, name + ".lock")

    def __enter__(self):
        self.f = open(self.path, "w")
        fcntl.flock(self.f, fcntl.LOCK_EX)
        return self

    def __exit__(self, *a):
        fcntl.flock(self.f, fcntl.LOCK_UN)
        self.f.close()


# --------------------------------------------------------------------------- Lean

def strip_lean_comments(src):
    out = []
    i, n, depth = 0, len(src), 0
    while i < n:
        if src.startswith("/-", i):
            depth += 1
            i += 2
        elif depth and src.startswith("-/", i):
            depth -= 1
            i += 2
        elif depth:
            if src[i] == "\n":
                out.append("\n")
            i += 1
        elif src.startswith("--", i):
            while i < n and src[i] != "\n":
                i += 1
        elif src[i] == '"':
            j = i + 1
            while j < n and src[j] != '"':
                j += 2 if src[j] == "\\" else 1
            out.append('""')
            i = j + 1
        else:
            out.append(src[i])
            i += 1
    return "".join(out)


def lean_sources():
    res = []
    for root, _, files in os.walk(os.path.join(LEAN, "YgmVerif")):
        for f in files:
            if f.endswith(".lean"):
                res.append(os.path.join(root, f))
    res.append(os.path.join(LEAN, "YgmVerif.lean"))
    return sorted(res)


def module_closure(module):
    """source files of `module` and everything of this library it imports, transitively"""
    seen, todo = {}, [module]
    while todo:
        m = todo.pop()
        if m in seen or not (m == "YgmVerif" or m.startswith("YgmVerif.")):
            continue
        p = os.path.join(LEAN, *m.split(".")) + ".lean"
        if not os.path.exists(p):
            continue
        seen[m] = p
        for line in strip_lean_comments(open(p).read()).split("\n"):
            mm = re.match(r"\s*(?:public\s+)?import\s+(\S+)", line)
            if mm:
                todo.append(mm.group(1))
    return sorted(seen.values())


def lean_source_audit(module=None):
    """forbidden tokens outside comments/strings in the modules a property depends on"""
    hits = []
    for p in (module_closure(module) if module else lean_sources()):
        code = strip_lean_comments(open(p).read())
        for ln, line in enumerate(code.split("\n"), 1):
            for tok in FORBIDDEN:
                if tok == "axiom ":
                    if re.match(r"\s*(private\s+|protected\s+)?axiom\s", line):
                        hits.append(f"{os.path.relpath(p, LEAN)}:{ln}: axiom")
                elif tok in ("sorry", "admit"):
                    if re.search(r"(?<![A-Za-z0-9_'.])" + tok + r"(?![A-Za-z0-9_'])", line):
                        hits.append(f"{os.path.relpath(p, LEAN)}:{ln}: {tok}")
                elif tok in line:
                    hits.append(f"{os.path.relpath(p, LEAN)}:{ln}: {tok.strip()}")
    return hits


def lean_build(targets=None):
    """lake build of the given targets (default: whole library + driver); returns (ok, log, wall).
    Serialised by a lock.  A property's check builds only its own Props module and the driver,
    so an unrelated module that does not build cannot disturb it."""
    with Lock("lean"):
        t0 = time.time()
        r = sh(["lake", "build"] + (targets or []), cwd=LEAN)
        log = (r.stdout + r.stderr)
        return r.returncode == 0, log, time.time() - t0


# driver executables: one per model group, so that a check does not depend on unrelated models
MODE_GROUP = json.load(open(os.path.join(os.path.dirname(os.path.abspath(__file__)), "mode_groups.json")))


def model_exe_name(mode):
    g = MODE_GROUP.get(mode)
    return "ygm_model_" + g if g else "ygm_model"


def model_bin(mode=None):
    return os.path.join(LEAN, ".lake", "build", "bin", model_exe_name(mode) if mode else "ygm_model")


def obligations_for(pid):
    """lean/obligations/<pid>.json: {"module": "YgmVerif.Props.Cxx", "theorems": [...]}"""
    p = os.path.join(LEAN, "obligations", pid + ".json")
    if not os.path.exists(p):
        return {"module": "YgmVerif.Props." + pid, "theorems": []}
    return json.load(open(p))


def lean_axioms(theorems, module="YgmVerif"):
    """returns {theorem: (ok, axioms-or-error)} via `#print axioms`"""
    if not theorems:
        return {}
    src = "".join(f"import {m}\n" for m in ([module] if isinstance(module, str) else module)) + "".join(f"#print axioms {t}\n" for t in theorems)
    with tempfile.NamedTemporaryFile("w", suffix=".lean", delete=False, dir=BUILD) as f:
        f.write(src)
        path = f.name
    try:
        r = sh(["lake", "env", "lean", path], cwd=LEAN)
    finally:
        os.unlink(path)
    out = r.stdout + r.stderr
    res = {}
    # messages look like: 'Thm' depends on axioms: [a, b]   |   'Thm' does not depend on any axioms
    flat = re.sub(r"\s+", " ", out)
    for t in theorems:
        m = re.search(r"'" + re.escape(t) + r"' depends on axioms: \[([^\]]*)\]", flat)
        if m:
            ax = [a.strip() for a in m.group(1).split(",") if a.strip()]
            bad = [a for a in ax if a not in ALLOWED_AXIOMS]
            res[t] = (not bad, ax)
        elif re.search(r"'" + re.escape(t) + r"' does not depend on any axioms", flat):
            res[t] = (True, [])
        else:
            msg = [l for l in out.split("\n") if t in l or "error" in l]
            res[t] = (False, ["unresolved: " + " ".join(msg)[:300]])
    return res


def lean_obligations(pid, tier):
    """Step 1 of every check: build, source audit, axiom audit of the property's theorems."""
    obl = obligations_for(pid)
    theorems, module = obl["theorems"], obl["module"]
    exes = sorted({model_exe_name(m) for m in obl.get("modes", [])})
    extra_modules = obl.get("extra_modules", [])     # e.g. YgmVerif.Pinned (decided witnesses about the pinned kernels)
    ok, log, wall = lean_build([module] + extra_modules + exes)
    info = {"build_ok": ok, "build_wall_s": round(wall, 1), "theorems": theorems,
            "discharged": [], "failed": [], "source_audit": [], "leanchecker": None}
    if not ok:
        errs = [l for l in log.split("\n") if l.startswith("error")]
        info["failed"] = [{"theorem": t, "why": "library does not build"} for t in theorems]
        info["build_errors"] = errs[:20]
        return info
    hits = lean_source_audit(module)
    for em in extra_modules:
        hits += lean_source_audit(em)
    info["modules_audited"] = [os.path.relpath(p, LEAN) for p in module_closure(module)]
    info["source_audit"] = hits
    ax = lean_axioms(theorems, [module] + extra_modules)
    for t in theorems:
        good, detail = ax.get(t, (False, ["missing"]))
        if good and not hits:
            info["discharged"].append({"theorem": t, "axioms": detail})
        else:
            info["failed"].append({"theorem": t, "why": "axioms/audit", "detail": detail, "audit": hits[:5]})
    if tier == "thorough":
        mod = module
        r = sh(["lake", "env", "leanchecker", mod], cwd=LEAN)
        info["leanchecker"] = {"module": mod, "ok": r.returncode == 0, "tail": (r.stdout + r.stderr)[-300:]}
        if r.returncode != 0:
            info["failed"].append({"theorem": mod, "why": "leanchecker rejected module"})
    return info


_EXE_READY = set()


def ensure_exe(mode):
    """build (no-op when fresh) the driver executable that serves `mode`"""
    name = model_exe_name(mode)
    if name in _EXE_READY:
        return
    ok, log, _ = lean_build([name])
    if not ok:
        errs = [l for l in log.split("\n") if l.startswith("error")][:6]
        raise RuntimeError(f"driver executable {name} does not build: " + " | ".join(errs))
    _EXE_READY.add(name)


def model(mode, lines, timeout=600):
    """run the Lean driver on the given input lines; returns list of output lines"""
    ensure_exe(mode)
    inp = "\n".join(lines) + "\n"
    r = subprocess.run([model_bin(mode), mode], input=inp, capture_output=True, text=True, timeout=timeout)
    if r.returncode != 0:
        raise RuntimeError(f"ygm_model {mode} failed: {r.stderr[:500]}")
    out = r.stdout.split("\n")
    if out and out[-1] == "":
        out.pop()
    return out


# ------------------------------------------------------------------------ harness

def _tree_hash(paths):
    h = hashlib.sha256()
    for base in paths:
        if os.path.isfile(base):
            h.update(base.encode())
            h.update(open(base, "rb").read())
            continue
        for root, dirs, files in os.walk(base):
            dirs.sort()
            for f in sorted(files):
                p = os.path.join(root, f)
                h.update(os.path.relpath(p, base).encode())
                h.update(open(p, "rb").read())
    return h.hexdigest()[:20]


def repo_hash():
    return _tree_hash([os.path.join(REPO, "include")])


_SIMMPI_OBJ = None


def simmpi_obj():
    global _SIMMPI_OBJ
    if _SIMMPI_OBJ:
        return _SIMMPI_OBJ
    h = _tree_hash([os.path.join(SIMMPI, "simmpi.cpp"), os.path.join(SIMMPI, "mpi.h")])
    d = os.path.join(BUILD, "simmpi")
    os.makedirs(d, exist_ok=True)
    obj = os.path.join(d, f"simmpi-{h}.o")
    with Lock("simmpi"):
        if not os.path.exists(obj):
            r = sh(["g++", "-std=c++17", "-O2", "-c", os.path.join(SIMMPI, "simmpi.cpp"), "-o", obj + ".tmp"])
            if r.returncode != 0:
                raise RuntimeError("simmpi build failed: " + r.stderr[:2000])
            os.rename(obj + ".tmp", obj)
    _SIMMPI_OBJ = obj
    return obj


def build_harness(name, flags=(), sanitize=False, hooks=True, san="address,undefined"):
    """compile harness/<name>.cpp against /repo's *current* working tree and simmpi.
    Cached by content hash of /repo/include + harness + simmpi + flags."""
    src = os.path.join(HARNESS, name + ".cpp")
    fl = ["-std=c++17", "-O1", "-g0", "-w", "-I" + SIMMPI, "-I" + os.path.join(REPO, "include"),
          "-I" + HARNESS] + list(flags)
    if hooks:
        fl.append("-D" + HOOK_DEFINE)
    if sanitize:
        fl += ["-g", "-fsanitize=" + san, "-fno-sanitize-recover=all", "-fno-omit-frame-pointer"]
    key = hashlib.sha256((repo_hash() + _tree_hash([src, os.path.join(HARNESS, "hcommon.hpp")] if os.path.exists(os.path.join(HARNESS, "hcommon.hpp")) else [src])
                          + _tree_hash([os.path.join(SIMMPI, "simmpi.cpp"), os.path.join(SIMMPI, "mpi.h")])
                          + " ".join(fl)).encode()).hexdigest()[:20]
    d = os.path.join(BUILD, "harness")
    os.makedirs(d, exist_ok=True)
    out = os.path.join(d, f"{name}{'-san' if sanitize else ''}-{key}")
    with Lock("harness-" + name):
        if not os.path.exists(out):
            # garbage-collect old variants of this harness (several flag variants may be live at once)
            olds = sorted([f for f in os.listdir(d) if f.startswith(name + "-") and not f.endswith(".tmp")],
                          key=lambda f: os.path.getmtime(os.path.join(d, f)))
            for f in olds[:-8]:
                try:
                    os.unlink(os.path.join(d, f))
                except OSError:
                    pass
            if sanitize:
                r = sh(["g++"] + fl + [src, os.path.join(SIMMPI, "simmpi.cpp"), "-o", out + ".tmp", "-lpthread"])
            else:
                r = sh(["g++"] + fl + [src, simmpi_obj(), "-o", out + ".tmp", "-lpthread"])
            if r.returncode != 0:
                return None, r.stderr
            os.rename(out + ".tmp", out)
    return out, ""


class SimRun:
    def __init__(self, verdict, steps, stdout, stderr, log, blocked, rc, wall, counts):
        self.verdict, self.steps, self.stdout, self.stderr = verdict, steps, stdout, stderr
        self.log, self.blocked, self.rc, self.wall, self.counts = log, blocked, rc, wall, counts

    def events(self, kind=None):
        """parsed log: list of (t, kind, dict, raw-rest)"""
        res = []
        for line in self.log:
            sp = line.split(" ", 2)
            if len(sp) < 2:
                continue
            k = sp[1]
            if kind and k != kind:
                continue
            rest = sp[2] if len(sp) > 2 else ""
            res.append((int(sp[0]), k, rest))
        return res


def kv(rest):
    d = {}
    for w in rest.split(" "):
        if "=" in w:
            a, b = w.split("=", 1)
            d[a] = b
    return d


def run_sim(binary, args=(), nodes=1, ppn=1, env=None, sim_seed=1, policy="uniform", eager_pct=50,
            want_log=True, log_bytes=0, timeout=120, max_steps=3000000, livelock=400000):
    e = dict(os.environ)
    e.update({"SIMMPI_NODES": str(nodes), "SIMMPI_PPN": str(ppn), "SIMMPI_SEED": str(sim_seed),
              "SIMMPI_POLICY": policy, "SIMMPI_EAGER_PCT": str(eager_pct), "SIMMPI_MAX_STEPS": str(max_steps),
              "SIMMPI_LIVELOCK": str(livelock), "SIMMPI_LOG_BYTES": str(log_bytes),
              "YGM_COMM_IRECV_SIZE_KB": "4096", "SIMMPI_WALL_S": str(int(timeout) + 30), "SIMMPI_MAX_LOG_MB": "320"})
    if "SIMMPI_AS_MB" not in e and "-san-" not in os.path.basename(binary) and "san" not in os.path.basename(binary).split("-")[0]:
        e["SIMMPI_AS_MB"] = "6144"     # a runaway handler must not eat the machine (not for sanitizer builds)
    e.pop("SIMMPI_LOG", None)
    if env:
        e.update({k: str(v) for k, v in env.items() if v is not None})
        for k, v in env.items():
            if v is None:
                e.pop(k, None)          # None = leave this variable UNSET (library default)
    tmpd = tempfile.mkdtemp(prefix="ygmverif-")
    logp = os.path.join(tmpd, "wire.log")
    if want_log:
        e["SIMMPI_LOG"] = logp
    e["SIMMPI_TMP"] = tmpd
    t0 = time.time()
    try:
        proc = subprocess.Popen([binary] + [str(a) for a in args], env=e, stdout=subprocess.PIPE,
                                stderr=subprocess.PIPE, cwd=tmpd, start_new_session=True)
        try:
            bo, be = proc.communicate(timeout=timeout)
            timed_out = False
        except subprocess.TimeoutExpired:
            timed_out = True
            try:
                os.killpg(proc.pid, 9)
            except OSError:
                pass
            bo, be = proc.communicate()
        out, err, rc = bo.decode(errors="replace"), be.decode(errors="replace"), proc.returncode
        outs = {}
        oversize = False
        for f in os.listdir(tmpd):
            if f.startswith("out."):
                if os.path.getsize(os.path.join(tmpd, f)) > (300 << 20):
                    oversize = True
                    continue
                with open(os.path.join(tmpd, f), errors="replace") as fh:
                    outs[int(f[4:])] = fh.read().split("\n")[:-1]
        log = []
        mv = re.search(r"SIMMPI verdict=(.*?) steps=", out)
        run_ok = bool(mv and mv.group(1) == "ok") and not timed_out
        if want_log and os.path.exists(logp):
            size = os.path.getsize(logp)
            if size > (300 << 20):
                oversize = True
            with open(logp, errors="replace") as f:
                if not run_ok and size > (8 << 20):
                    f.seek(size - (8 << 20))      # a failed run: the tail is enough for the report
                    f.readline()
                if run_ok and oversize:
                    log = []
                else:
                    log = f.read().split("\n")
            if log and log[-1] == "":
                log.pop()
    finally:
        shutil.rmtree(tmpd, ignore_errors=True)
    verdict, steps, blocked, counts = ("wall-timeout" if timed_out else "no-verdict"), 0, "", {}
    m = re.search(r"SIMMPI verdict=(.*?) steps=(\d+)(.*)", out)
    if m:
        verdict, steps = m.group(1), int(m.group(2))
        counts = {k: int(v) for k, v in kv(m.group(3)).items()}
    if oversize and verdict == "ok":
        verdict = "output-budget"
    m = re.search(r"SIMMPI blocked (.*)", out)
    if m:
        blocked = m.group(1).strip()
    sr = SimRun(verdict, steps, out, err, log, blocked, rc, time.time() - t0, counts)
    sr.outs = outs
    return sr


def pmap(fn, items, workers=None):
    """run fn over items in a thread pool (the work is in subprocesses)"""
    from concurrent.futures import ThreadPoolExecutor
    if not items:
        return []
    with ThreadPoolExecutor(max_workers=workers or NCPU) as ex:
        return list(ex.map(fn, items))


# ------------------------------------------------------------------ verdict/evidence

class Result:
    def __init__(self):
        self.evaluations = 0
        self.distinct = set()          # keys of distinct non-trivial cases
        self.rule = ""
        self.samples = []
        self.traces_validated = 0
        self.oracle_failures = []      # [{what, signature, case}]  property itself fails on the real code
        self.corr_failures = []        # [{what, relation, case}]   model and code disagree
        self.distribution = {}
        self.assumptions = []
        self.exhaustive = False
        self.notes = []

    def count(self, key, n=1):
        self.distribution[key] = self.distribution.get(key, 0) + n

    def sample(self, s, cap=4):
        if len(self.samples) < cap:
            self.samples.append(s)


def known_findings():
    p = os.path.join(VERIF, "known_findings.json")
    if not os.path.exists(p):
        return []
    return json.load(open(p)).get("findings", [])


def write_replay(pid, name, data):
    os.makedirs(REPLAYS, exist_ok=True)
    p = os.path.join(REPLAYS, f"{pid}-{name}.json")
    json.dump(data, open(p, "w"), indent=1, default=str)
    return p


def finish(pid, tier, res, ob, t0):
    """verdict rule of DESIGN.md §1 + evidence file.  Returns the exit code."""
    kf = [k for k in known_findings() if k.get("property") == pid and k.get("status") == "known"]
    violations, known_lines = [], []
    for i, f in enumerate(res.oracle_failures):
        sig = f.get("signature", "")
        hit = next((k for k in kf if k.get("signature") and re.search(k["signature"], sig)), None)
        if hit:
            known_lines.append(f"KNOWN-FINDING: property={pid} {hit.get('what', sig)}")
            continue
        path = write_replay(pid, f"oracle-{i}", {"property": pid, "kind": "failing-input", "tier": tier,
                                                  "seed": seed(), "what": f.get("what"), "signature": sig,
                                                  "case": f.get("case")})
        violations.append(f"VIOLATION property={pid} replay={path}")
        if len(violations) >= 5:
            break
    if not violations:
        # proof obligations or correspondence broken, property itself not seen to fail
        broken = []
        for f in ob["failed"]:
            broken.append({"kind": "proof-obligation", "theorem": f["theorem"], "why": f.get("why"),
                           "detail": f.get("detail"), "build_errors": ob.get("build_errors")})
        for f in res.corr_failures[:5]:
            broken.append({"kind": "correspondence", "relation": f.get("relation"), "what": f.get("what"),
                           "case": f.get("case")})
        if broken:
            path = write_replay(pid, "unchecked", {"property": pid, "kind": "no-failing-input-found", "tier": tier,
                                                   "seed": seed(), "no_longer_checks": broken})
            violations.append(f"VIOLATION property={pid} replay={path} no-failing-input-found")
    seen = set()
    for l in known_lines:
        if l not in seen:
            print(l)
            seen.add(l)
    for v in violations:
        print(v)
    cov = {
        "obligations": max(1, len(ob["theorems"])),
        "discharged": len(ob["discharged"]) if ob["theorems"] else 0,
        "checker_cmd": "cd lean && lake build && lake env lean <#print axioms of the listed theorems>"
                       + (" && lake env leanchecker YgmVerif.Props." + pid if tier == "thorough" else ""),
        "trusted_base": ["Lean 4.33.0 kernel", "axioms: propext, Classical.choice, Quot.sound (audited per theorem)",
                         "hand-written models in lean/YgmVerif/Model tied to /repo by the correspondence run below",
                         "simmpi (simulated MPI semantics), g++ 12, checks/*.py"],
        "theorems": [d["theorem"] for d in ob["discharged"]],
        "theorems_failed": ob["failed"],
        "source_audit_hits": ob["source_audit"],
        "modules_audited": ob.get("modules_audited"),
        "leanchecker": ob["leanchecker"],
        "evaluations": res.evaluations,
        "distinct_nontrivial": len(res.distinct),
        "rule": res.rule,
        "samples": res.samples or ["(no case generated)"],
        "traces_validated_against_impl": res.traces_validated,
        "correspondence_disagreements": len(res.corr_failures),
        "oracle_failures": len(res.oracle_failures),
        "known_findings_reported": len(seen),
        "input_distribution": res.distribution,
        "exhaustive": res.exhaustive,
        "repo_include_hash": repo_hash(),
        "notes": res.notes,
    }
    ev = {"property_id": pid, "tier": tier, "seed": seed(), "level": "proof", "coverage": cov,
          "assumptions": res.assumptions, "wall_s": round(time.time() - t0, 2), "violations": len(violations)}
    os.makedirs(EVID, exist_ok=True)
    tmp = os.path.join(EVID, f".{pid}.json.tmp")
    json.dump(ev, open(tmp, "w"), indent=1, default=str)
    os.replace(tmp, os.path.join(EVID, f"{pid}.json"))
    return 1 if violations else 0
