"""Run a list of (scenario, config) cases of the traffic harness in parallel, apply oracles and
acceptors, merge into a Result, shrink the first failing case."""
from . import common as C
from . import traffic as T


def nontrivial_key(cfg, out):
    shape = ("fwd" if out.get("forwards", 0) else "direct", "spawn" if out.get("handlers", 0) > out.get("asyncs", 0) // 2 else "flat",
             "bc" if out.get("bcasts", 0) else "", "cb" if out.get("callbacks", 0) else "", "mask" if out.get("masked", 0) else "")
    return (cfg.key(), shape)


def run_cases(res, binary, cases, want, extra=None, nontrivial=None, max_fail=12, timeout=180, log_bytes=0):
    """cases: list of (scenario, config).  extra(local_result, sc, cfg, sr, hev, wire, out) adds property-specific
    oracles / acceptors."""
    stop = {"fails": 0}

    def one(case):
        sc, cfg = case
        if stop["fails"] >= max_fail:      # enough failing inputs: do not spend minutes on further (possibly hanging) cases
            return sc, cfg, C.Result(), {"verdict": "skipped"}
        sr = T.run(binary, sc, cfg, timeout=timeout, log_bytes=log_bytes)
        local = C.Result()
        out, hev, wire = T.analyze(local, sc, cfg, sr, want)
        if extra and sr.verdict == "ok":
            extra(local, sc, cfg, sr, hev, wire, out)
        if local.oracle_failures:
            stop["fails"] += 1
        return sc, cfg, local, out

    for sc, cfg, local, out in C.pmap(one, cases):
        if out.get("verdict") == "skipped":
            res.count("skipped-after-enough-failures")
            continue
        res.evaluations += 1
        res.traces_validated += 1 if out.get("verdict") == "ok" else 0
        res.count("verdict:" + out.get("verdict", "?").split(":")[0])
        res.count("layout:%dx%d" % (cfg.nodes, cfg.ppn))
        res.count("routing:" + cfg.routing)
        res.count("cap:" + str(cfg.buf_kb))
        res.count("policy:" + cfg.policy)
        for k in ("asyncs", "handlers", "forwards", "isends", "bcasts", "callbacks", "masked", "hprogress"):
            res.count("total_" + k, out.get(k, 0))
        for k, v in local.distribution.items():
            res.count(k, v)
        if out.get("verdict") == "ok" and (nontrivial(out) if nontrivial else out.get("handlers", 0) > 0):
            res.distinct.add(nontrivial_key(cfg, out))
        if len(res.oracle_failures) < max_fail:
            res.oracle_failures.extend(local.oracle_failures[: max_fail - len(res.oracle_failures)])
        if len(res.corr_failures) < max_fail:
            res.corr_failures.extend(local.corr_failures[: max_fail - len(res.corr_failures)])
        if len(res.samples) < 2 and out.get("verdict") == "ok":
            res.sample({"config": cfg.to_json(), "ops": [list(o) for o in sc.ops[:6]], "n_ops": len(sc.ops), "measured": out})
    return res


def check_case(binary, sc, cfg, want, extra=None, timeout=180, log_bytes=0):
    sr = T.run(binary, sc, cfg, timeout=timeout, log_bytes=log_bytes)
    local = C.Result()
    out, hev, wire = T.analyze(local, sc, cfg, sr, want)
    if extra and sr.verdict == "ok":
        extra(local, sc, cfg, sr, hev, wire, out)
    return local, out, sr


def shrink(binary, failure, want, extra=None, budget=40, log_bytes=0):
    """ddmin over the scenario's ops keeping the failure signature; returns the (possibly smaller) failure"""
    sig = failure["signature"]
    sc = T.Scenario.from_json(failure["case"]["scenario"])
    cfg = T.Config.from_json(failure["case"]["config"])
    ops = list(sc.ops)
    best = failure
    chunk = max(1, len(ops) // 2)
    runs = 0
    import time as _time
    t_end = _time.time() + 150          # failing inputs that hang cost a full timeout per run: bound the shrink by wall time too
    while chunk >= 1 and runs < budget and len(ops) > 1 and _time.time() < t_end:
        i, progressed = 0, False
        while i < len(ops) and runs < budget and _time.time() < t_end:
            cand = ops[:i] + ops[i + chunk:]
            # keep mask/async groups consistent: a 'mask k' op needs its k followers; simplest: drop masks whose followers vanish
            sc2 = T.Scenario(sc.n, sc.epochs, sc.params, sc.sizes, cand)
            runs += 1
            try:
                local, out, sr = check_case(binary, sc2, cfg, want, extra, log_bytes=log_bytes)
            except Exception:
                i += chunk
                continue
            hit = next((f for f in local.oracle_failures if f["signature"] == sig), None)
            if hit:
                ops, best, progressed = cand, hit, True
            else:
                i += chunk
        if not progressed:
            chunk //= 2
    best = dict(best)
    best["shrunk_from_ops"] = len(sc.ops)
    best["shrink_runs"] = runs
    return best


def replay_case(binary, data, want, extra=None, log_bytes=0):
    case = data.get("case") or {}
    if "scenario" not in case:
        print("replay: no executable case recorded:", data.get("no_longer_checks"))
        return False
    sc = T.Scenario.from_json(case["scenario"])
    cfg = T.Config.from_json(case["config"])
    local, out, sr = check_case(binary, sc, cfg, want, extra, log_bytes=log_bytes)
    print("verdict:", sr.verdict, "| blocked:", sr.blocked[:200])
    for f in local.oracle_failures[:5]:
        print("FAIL:", f["signature"], "-", f["what"][:300])
    for f in local.corr_failures[:5]:
        print("DISAGREE:", f["relation"], "-", f["what"][:300])
    return not local.oracle_failures and not local.corr_failures
