#!/usr/bin/env python3
"""check.py <Cxx> quick|thorough      run the check of one property
   check.py <Cxx> --replay <file>     re-run the case recorded in a replay file
Exit 0: property held on everything explored (KNOWN-FINDING lines possible);
exit 1 + `VIOLATION property=<id> replay=<path>` otherwise.  Evidence is
rewritten on every run.  See DESIGN.md §1 for the decision rule."""
import importlib
import json
import os
import sys
import time
import traceback

sys.path.insert(0, os.path.dirname(os.path.abspath(__file__)))
from lib import common as C  # noqa: E402


def main():
    if len(sys.argv) < 3:
        print(__doc__)
        return 2
    pid = sys.argv[1].upper()
    t0 = time.time()
    mod = importlib.import_module("props." + pid.lower())
    if sys.argv[2] == "--replay":
        data = json.load(open(sys.argv[3]))
        ok = mod.replay(data)
        print("REPLAY", "reproduced" if not ok else "did-not-reproduce")
        return 0 if ok else 1
    tier = sys.argv[2]
    if tier not in ("quick", "thorough"):
        tier = os.environ.get("VERIF_TIER", "quick")
    if os.path.isdir(C.REPLAYS):
        for f in os.listdir(C.REPLAYS):
            if f.startswith(pid + "-"):
                os.unlink(os.path.join(C.REPLAYS, f))
    ob = C.lean_obligations(pid, tier)
    try:
        if not ob["build_ok"]:
            # the driver may be unusable; still run whatever does not need it
            res = mod.run(tier, C.seed(), model_ok=False)
        else:
            res = mod.run(tier, C.seed(), model_ok=True)
    except Exception as ex:  # a crash of the machinery is reported, never swallowed
        traceback.print_exc()
        res = C.Result()
        res.corr_failures.append({"relation": "check-machinery", "what": "exception in check: " + repr(ex)[:300], "case": None})
        res.evaluations = 0
    rc = C.finish(pid, tier, res, ob, t0)
    print(f"{pid} {tier}: evaluations={res.evaluations} distinct={len(res.distinct)} theorems={len(ob['discharged'])}/{len(ob['theorems'])} "
          f"corr_fail={len(res.corr_failures)} oracle_fail={len(res.oracle_failures)} wall={time.time()-t0:.1f}s rc={rc}")
    return rc


if __name__ == "__main__":
    sys.exit(main())
